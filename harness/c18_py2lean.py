"""C18 translator (T2): reads the mutators of polymath from the SOURCE with Python's `ast` and extracts, per
mutator and per control-flow path, the ordered list of cache-relevant events

    requireWritable · raise · write(attr, mode) · call(helper) · cacheClear · cacheDel(key) · cacheFreeze ·
    assumeVarr(b) · ret

Calls of other mutators/helpers on `self` are INLINED (with constant propagation of literal arguments, so that
e.g. `self._set_values_(v, m)` takes the `retain_cache=False` arm).  Loops are unrolled to 0/1 iterations (two
when the body has different eventful arms).  Branches that carry no event are collapsed.

The result is used three ways:
  * `write_lean()` regenerates lean/PMV/Gen/EventPaths.lean (distinct event lists per mutator);
  * the harness (`c18.py`) maps the statements executed by the real code (sys.settrace) to a path of this table;
  * `failures` lists everything the translator could not interpret; it is written into the Lean file, where
    the theorem `translator_complete` fails to compile if it is non-empty (the tie is reported broken).
"""
import ast, os, re, sys

ATTRS = {'_values_': 'values', '_mask_': 'mask', '_derivs_': 'derivs', '_units_': 'units', '_readonly_': 'readonly'}
KEYS = ('antimask', 'corners', 'slicer', 'wod', 'unshrunk', 'shrunk')
INPLACE_DUNDERS = ['__iadd__', '__isub__', '__imul__', '__itruediv__', '__ifloordiv__', '__imod__', '__ipow__',
                   '__iand__', '__ior__', '__ixor__', '__idiv__', '__imatmul__', '__ilshift__', '__irshift__']
NAMED = INPLACE_DUNDERS + ['__setitem__', '__delitem__', 'set_units', 'insert_deriv', 'insert_derivs',
                           'delete_deriv', 'delete_derivs', 'as_readonly', 'match_readonly', 'require_writable',
                           '_set_values_', '_set_mask_', '_new_values_', '_clear_cache']
EXCLUDE = {'__init__', '__new__', '__setstate__', '__getstate__'}      # construction / unpickling: fresh cache
CLASS_FILES = ['units.py', 'qube.py', 'scalar.py', 'boolean.py', 'vector.py', 'vector3.py', 'pair.py', 'matrix.py', 'matrix3.py',
               'quaternion.py', 'polynomial.py']
PURE_BUILTINS = {'isinstance', 'type', 'len', 'id', 'hasattr', 'getattr', 'setattr', 'delattr', 'super', 'issubclass'}
MAX_DEPTH = 6
MAX_PATHS = 4000


class Unsupported(Exception):
    pass


def repo_root():
    return os.environ.get('PMV_REPO') or '/repo'


# ----------------------------------------------------------------------------------------------- source model
class Func:
    def __init__(self, qual, cls, name, node, file):
        self.qual, self.cls, self.name, self.node, self.file = qual, cls, name, node, file
        self.params = [a.arg for a in node.args.args]
        self.selfname = self.params[0] if self.params else None
        d = node.args.defaults
        self.defaults = {}
        for a, dv in zip(node.args.args[len(node.args.args) - len(d):], d):
            self.defaults[a.arg] = dv
        stored = set()
        for n in ast.walk(node):
            if isinstance(n, ast.Name) and isinstance(n.ctx, (ast.Store, ast.Del)):
                stored.add(n.id)
        self.stored = stored


class Source:
    def __init__(self, root):
        self.root = root
        self.funcs = {}          # qual -> Func
        self.bases = {}          # class -> [base names]
        self.props = set()       # names of non-trivial @property functions (may query the cache)
        self.can_raise = set()
        pm = os.path.join(root, 'polymath')
        for f in CLASS_FILES:
            p = os.path.join(pm, f)
            if os.path.exists(p):
                self._load(p, ext=False)
        ed = os.path.join(pm, 'extensions')
        for f in sorted(os.listdir(ed)):
            if f.endswith('.py') and f != '__init__.py':
                self._load(os.path.join(ed, f), ext=True)
        self.compute_can_raise()

    def _load(self, path, ext):
        tree = ast.parse(open(path).read(), path)
        rel = os.path.relpath(path, self.root)
        for n in tree.body:
            if isinstance(n, ast.ClassDef):
                self.bases[n.name] = [b.id if isinstance(b, ast.Name) else getattr(b, 'attr', '?') for b in n.bases]
                for m in n.body:
                    if isinstance(m, ast.FunctionDef):
                        self.funcs[n.name + '.' + m.name] = Func(n.name + '.' + m.name, n.name, m.name, m, rel)
                        if any(isinstance(d, ast.Name) and d.id == 'property' for d in m.decorator_list):
                            body = [b for b in m.body if not (isinstance(b, ast.Expr) and isinstance(b.value, ast.Constant))]
                            trivial = (len(body) == 1 and isinstance(body[0], ast.Return)
                                       and isinstance(body[0].value, ast.Attribute)
                                       and isinstance(body[0].value.value, ast.Name))
                            if not trivial:
                                self.props.add(m.name)
            elif ext and isinstance(n, ast.FunctionDef) and n.args.args and n.args.args[0].arg == 'self':
                q = 'Qube.' + n.name
                if q not in self.funcs:
                    self.funcs[q] = Func(q, 'Qube', n.name, n, rel)

    def compute_can_raise(self):
        """qualified names of the polymath functions whose body can raise: an explicit `raise`, a `_raise_…` helper,
        or a call of a function that can, followed only through PRECISE call edges: `self.m(…)`, `Class.m(…)`,
        `super().m(…)`, constructors `Class(…)` / `Qube.X_CLASS(…)`.  Calls on other receivers (operands, NumPy) are
        not followed (documented gap; NumPy failures of the value update itself are modelled separately)."""
        direct, calls = {}, {}
        for q, f in self.funcs.items():
            d, cs = False, set()
            s = f.selfname
            for n in ast.walk(f.node):
                if isinstance(n, ast.Raise):
                    d = True
                elif isinstance(n, ast.Call):
                    fn = n.func
                    name = fn.attr if isinstance(fn, ast.Attribute) else getattr(fn, 'id', None)
                    if name is None:
                        continue
                    if re.match(r'_?raise_', name):
                        d = True
                        continue
                    if isinstance(fn, ast.Name):
                        if name in self.bases:
                            cs.add(self.resolve(name, '__init__'))
                        continue
                    recv = fn.value
                    if name.endswith('_CLASS'):
                        cs.add('Qube.__init__')
                    elif isinstance(recv, ast.Name) and recv.id == s and f.cls in self.bases:
                        cs.add(self.resolve(f.cls, name))
                    elif isinstance(recv, ast.Name) and recv.id in self.bases:
                        cs.add(self.resolve(recv.id, name))
                    elif isinstance(recv, ast.Call) and isinstance(recv.func, ast.Name) and recv.func.id == 'super':
                        cs.add(self.resolve(f.cls, name, after=f.cls))
            direct[q], calls[q] = d, {c for c in cs if c}
        can = {q for q, d in direct.items() if d}
        changed = True
        while changed:
            changed = False
            for q in self.funcs:
                if q not in can and any(c in can for c in calls[q]):
                    can.add(q); changed = True
        self.can_raise = can
        return can

    def mro(self, cls):
        out, todo = [], [cls]
        while todo:
            c = todo.pop(0)
            if c in out:
                continue
            out.append(c)
            todo += self.bases.get(c, [])
        return out

    def resolve(self, cls, name, after=None):
        m = self.mro(cls)
        if after is not None and after in m:
            m = m[m.index(after) + 1:]
        for c in m:
            if c + '.' + name in self.funcs:
                return c + '.' + name
        return None


# ----------------------------------------------------------------------------------------------- helpers on AST
def is_self_attr(n, selfname, attr=None):
    return (isinstance(n, ast.Attribute) and isinstance(n.value, ast.Name) and n.value.id == selfname
            and (attr is None or n.attr == attr))


def const_str(n):
    return n.value if isinstance(n, ast.Constant) and isinstance(n.value, str) else None


UNKNOWN = object()


def lit(n):
    if isinstance(n, ast.Constant):
        return n.value
    if isinstance(n, (ast.Tuple, ast.List)) and not n.elts:
        return ()
    if isinstance(n, ast.Dict) and not n.keys:
        return ()
    return UNKNOWN


def ev3(n, env):
    """three-valued evaluation of a test under the known literal parameter bindings `env`"""
    if isinstance(n, ast.Constant):
        return n.value
    if isinstance(n, ast.Name):
        return env.get(n.id, UNKNOWN)
    if isinstance(n, ast.UnaryOp) and isinstance(n.op, ast.Not):
        v = ev3(n.operand, env)
        return UNKNOWN if v is UNKNOWN else (not v)
    if isinstance(n, ast.BoolOp):
        vals = [ev3(v, env) for v in n.values]
        if isinstance(n.op, ast.And):
            if any(v is not UNKNOWN and not v for v in vals):
                return False
            return UNKNOWN if any(v is UNKNOWN for v in vals) else vals[-1]
        if any(v is not UNKNOWN and v for v in vals):
            return True
        return UNKNOWN if any(v is UNKNOWN for v in vals) else vals[-1]
    if isinstance(n, ast.Compare) and len(n.ops) == 1:
        a, b = ev3(n.left, env), ev3(n.comparators[0], env)
        if a is UNKNOWN or b is UNKNOWN:
            return UNKNOWN
        op = n.ops[0]
        if isinstance(op, ast.Is): return a is b or (a == b and type(a) is type(b))
        if isinstance(op, ast.IsNot): return not (a is b or (a == b and type(a) is type(b)))
        if isinstance(op, ast.Eq): return a == b
        if isinstance(op, ast.NotEq): return a != b
    return UNKNOWN


def varr_test(n, selfname):
    """recognise a test on the representation of self._values_: returns True when the test means 'is an ndarray',
    False when it means 'is a Python scalar', None when it is something else"""
    if isinstance(n, ast.UnaryOp) and isinstance(n.op, ast.Not):
        v = varr_test(n.operand, selfname)
        return None if v is None else (not v)
    if isinstance(n, ast.Call) and n.args and is_self_attr(n.args[0], selfname, '_values_'):
        f = n.func
        fname = f.attr if isinstance(f, ast.Attribute) else getattr(f, 'id', None)
        if fname == 'isinstance' and len(n.args) == 2:
            t = n.args[1]
            tn = t.attr if isinstance(t, ast.Attribute) else getattr(t, 'id', None)
            if tn == 'ndarray':
                return True
        if fname == 'isscalar' and len(n.args) == 1:
            return False
    return None


def same_content(v, selfname, attr):
    """`self.A.copy()` or `<...>_to_readonly(self.A)`: the value assigned has the content self.A already had"""
    if isinstance(v, ast.Call):
        fn = v.func
        if isinstance(fn, ast.Attribute) and fn.attr == 'copy' and not v.args and is_self_attr(fn.value, selfname, attr):
            return True
        name = fn.attr if isinstance(fn, ast.Attribute) else getattr(fn, 'id', '')
        if name.endswith('_to_readonly') and len(v.args) == 1 and is_self_attr(v.args[0], selfname, attr):
            return True
    return False


VIEW_METHODS = {'reshape', 'view', 'swapaxes', 'transpose', 'ravel', 'squeeze', 'T', 'real', 'imag'}


def view_of_attr(v, selfname, aliases):
    """if expression `v` denotes (a view of) self._values_ / self._mask_ or of a local alias of them: the attribute"""
    if is_self_attr(v, selfname) and v.attr in ('_values_', '_mask_'):
        return ATTRS[v.attr]
    if isinstance(v, ast.Name):
        for x in aliases:
            if isinstance(x, tuple) and x[1] == v.id:
                return x[2]
        return None
    if isinstance(v, ast.Subscript):
        return view_of_attr(v.value, selfname, aliases)
    if isinstance(v, ast.Attribute) and v.attr in VIEW_METHODS:
        return view_of_attr(v.value, selfname, aliases)
    if isinstance(v, ast.Call) and isinstance(v.func, ast.Attribute) and v.func.attr in VIEW_METHODS:
        return view_of_attr(v.func.value, selfname, aliases)
    return None


def ro_atom(n, selfname):
    """`self._readonly_` / `self.readonly` -> True; `not …` -> False; else None"""
    if is_self_attr(n, selfname) and n.attr in ('_readonly_', 'readonly'):
        return True
    if isinstance(n, ast.UnaryOp) and isinstance(n.op, ast.Not):
        v = ro_atom(n.operand, selfname)
        return None if v is None else (not v)
    return None


def ro_facts(test, selfname, env):
    """(what the true arm knows about _readonly_, what the false arm knows), each True/False/None"""
    a = ro_atom(test, selfname)
    if a is not None:
        return a, (not a)
    if isinstance(test, ast.BoolOp) and isinstance(test.op, ast.And):
        atoms = [(c, ro_atom(c, selfname)) for c in test.values]
        ro = [v for c, v in atoms if v is not None]
        if len(ro) == 1:
            others = [ev3(c, env) for c, v in atoms if v is None]
            false_arm = (not ro[0]) if all(o is not UNKNOWN and o for o in others) else None
            return ro[0], false_arm
    return None, None


def consistent(items):
    """False when the path assumes contradictory values of self._readonly_ with no write to it in between"""
    known = None
    for x in items:
        if x[0] == 'assume':
            b = x[1][1]
            if known is not None and known != b:
                return False
            known = b
        elif x[0] == 'ev' and x[1][0] == 'write' and x[1][1] == 'readonly':
            known = True if x[1][2] == 'setTrue' else None
    return True


def mask_expansion(v, truth):
    """`np.ones(…)` where the single-bool mask is known True / `np.zeros(…)` where it is known False"""
    if truth is None or not isinstance(v, ast.Call):
        return False
    name = v.func.attr if isinstance(v.func, ast.Attribute) else getattr(v.func, 'id', None)
    return (name == 'ones' and truth is True) or (name == 'zeros' and truth is False)


def cache_member_test(n, selfname):
    """`'k' in self._cache_` -> 'k'"""
    if (isinstance(n, ast.Compare) and len(n.ops) == 1 and isinstance(n.ops[0], ast.In)
            and is_self_attr(n.comparators[0], selfname, '_cache_')):
        return const_str(n.left)
    return None


def mentions(n, what):
    for x in ast.walk(n):
        if isinstance(x, ast.Attribute) and x.attr == what:
            return True
    return False


# ----------------------------------------------------------------------------------------------- extraction
class Extractor:
    def __init__(self, root=None):
        self.src = Source(root or repo_root())
        self.failures = []
        self.eventful = None
        self.memo = {}
        self.recv = None             # receiver class under analysis (None: the defining class of each function)
        self._retain_keys = None

    # ---- which functions carry events (fixed point over direct events and calls on self)
    def direct_eventful(self, f):
        s = f.selfname
        if s is None:
            return False
        for n in ast.walk(f.node):
            if isinstance(n, (ast.Assign, ast.AugAssign, ast.Delete, ast.AnnAssign)):
                tgts = n.targets if isinstance(n, (ast.Assign, ast.Delete)) else [n.target]
                for t in tgts:
                    for tt in (t.elts if isinstance(t, (ast.Tuple, ast.List)) else [t]):
                        base = tt.value if isinstance(tt, ast.Subscript) else tt
                        if is_self_attr(base, s) and (base.attr in ATTRS or base.attr in ('_cache_', '__dict__')):
                            return True
            if isinstance(n, ast.Call):
                fn = n.func
                if isinstance(fn, ast.Attribute) and is_self_attr(fn.value, s, '_cache_') and fn.attr in ('clear', 'pop'):
                    return True
                if isinstance(fn, ast.Name) and fn.id in ('setattr', 'delattr') and n.args and \
                        isinstance(n.args[0], ast.Name) and n.args[0].id == s:
                    return True
        return False

    def compute_eventful(self):
        ev = set()
        for q, f in self.src.funcs.items():
            if f.name in EXCLUDE or f.name.startswith('__setstate__') or f.name.startswith('__getstate__'):
                continue
            if f.name in NAMED or self.direct_eventful(f):
                ev.add(q)
        # queries fill the cache (self._cache_[k] = v): those are modelled by hand, not mutators
        for q in list(ev):
            f = self.src.funcs[q]
            if f.name in NAMED:
                continue
            if self.only_cache_fills(f):
                ev.discard(q)
        self.eventful = ev
        return ev

    def only_cache_fills(self, f):
        """True when the only direct effects are subscript stores/deletes/pops on self._cache_ (cached queries)"""
        s = f.selfname
        for n in ast.walk(f.node):
            if isinstance(n, (ast.Assign, ast.AugAssign, ast.Delete)):
                tgts = n.targets if isinstance(n, (ast.Assign, ast.Delete)) else [n.target]
                for t in tgts:
                    for tt in (t.elts if isinstance(t, (ast.Tuple, ast.List)) else [t]):
                        base = tt.value if isinstance(tt, ast.Subscript) else tt
                        if is_self_attr(base, s) and (base.attr in ATTRS or base.attr == '__dict__'):
                            return False
            if isinstance(n, ast.Call):
                fn = n.func
                if isinstance(fn, ast.Attribute) and is_self_attr(fn.value, s, '_cache_') and fn.attr == 'clear':
                    return False
                if isinstance(fn, ast.Name) and fn.id in ('setattr', 'delattr'):
                    return False
        return True

    # ---- expression events, in evaluation order
    def call_target(self, f, n):
        """if `n` (ast.Call) invokes an eventful function on self: its qualified name"""
        fn = n.func
        s = f.selfname
        if not isinstance(fn, ast.Attribute):
            return None, None
        # self.name(...)
        if isinstance(fn.value, ast.Name) and fn.value.id == s:
            q = self.src.resolve(self.dispatch_class(f), fn.attr)
            # dynamic dispatch: resolved for the receiver class under analysis (self.recv), see table()
            if q in self.eventful:
                return q, n.args
            return None, None
        # Class.name(self, ...)
        if isinstance(fn.value, ast.Name) and fn.value.id in self.src.bases and n.args and \
                isinstance(n.args[0], ast.Name) and n.args[0].id == s:
            q = self.src.resolve(fn.value.id, fn.attr)
            if q in self.eventful:
                return q, n.args[1:]
            return None, None
        # super(C, self).name(...) / super().name(...)
        if isinstance(fn.value, ast.Call) and isinstance(fn.value.func, ast.Name) and fn.value.func.id == 'super':
            q = self.src.resolve(self.dispatch_class(f), fn.attr, after=f.cls)
            if q in self.eventful:
                return q, n.args
        return None, None

    def dispatch_class(self, f):
        """the class in whose MRO `self.m` is looked up: the receiver class under analysis when the function is
        inherited by it, else the defining class"""
        base = f.cls if f.cls in self.src.bases else 'Qube'
        if self.recv is not None and base in self.src.mro(self.recv):
            return self.recv
        return base

    def expr_items(self, f, n, env, aliases, sid, out, depth, in_comp=False):
        """append the events of expression `n` (evaluation order) to `out`; returns True if the expression
        always raises (a `_raise_…` helper)"""
        if n is None:
            return False
        s = f.selfname
        if isinstance(n, (ast.ListComp, ast.SetComp, ast.DictComp, ast.GeneratorExp, ast.Lambda)):
            tmp = []
            for c in ast.iter_child_nodes(n):
                self.expr_items(f, c, env, aliases, sid, tmp, depth, True) if isinstance(c, ast.expr) else None
                if isinstance(c, ast.comprehension):
                    self.expr_items(f, c.iter, env, aliases, sid, tmp, depth, True)
                    for i in c.ifs:
                        self.expr_items(f, i, env, aliases, sid, tmp, depth, True)
            if tmp:
                raise Unsupported('event inside a comprehension/lambda')
            return False
        if isinstance(n, ast.Call):
            fn = n.func
            raises = False
            if isinstance(fn, ast.Attribute):
                self.expr_items(f, fn.value, env, aliases, sid, out, depth, in_comp)
            for a in n.args:
                self.expr_items(f, a.value if isinstance(a, ast.Starred) else a, env, aliases, sid, out, depth, in_comp)
            for k in n.keywords:
                self.expr_items(f, k.value, env, aliases, sid, out, depth, in_comp)
            # cache operations
            if isinstance(fn, ast.Attribute) and is_self_attr(fn.value, s, '_cache_'):
                if fn.attr == 'clear':
                    out.append(('ev', ('cacheClear',), sid))
                elif fn.attr == 'pop':
                    k = const_str(n.args[0]) if n.args else None
                    if k not in KEYS:
                        raise Unsupported('self._cache_.pop of an unknown key')
                    out.append(('ev', ('cacheDel', k), sid))
                elif fn.attr in ('get', 'items', 'keys', 'values', 'copy', '__contains__'):
                    pass
                else:
                    raise Unsupported('self._cache_.%s(...)' % fn.attr)
                return False
            # writes through container methods of the tracked attributes
            if isinstance(fn, ast.Attribute) and is_self_attr(fn.value, s) and fn.value.attr in ATTRS:
                if fn.attr in ('clear', 'pop', 'update', 'popitem', 'setdefault', 'fill', 'sort', 'resize', 'itemset',
                               'put', 'setflags', '__setitem__', '__delitem__'):
                    out.append(('ev', ('write', ATTRS[fn.value.attr], 'store'), sid))
                return False
            if isinstance(fn, ast.Name) and fn.id in ('setattr', 'delattr') and n.args and \
                    isinstance(n.args[0], ast.Name) and n.args[0].id == s:
                a1 = n.args[1] if len(n.args) > 1 else None
                left = a1.left if isinstance(a1, ast.BinOp) else a1
                k = const_str(left) if left is not None else None
                if k is not None and k.startswith('d_d'):
                    out.append(('ev', ('write', 'derivs', 'store'), sid))
                elif k is not None and k in ATTRS:
                    out.append(('ev', ('write', ATTRS[k], 'rebind'), sid))
                else:
                    raise Unsupported('setattr/delattr on self with a computed name')
                return False
            # raising helpers
            if isinstance(fn, ast.Attribute) and re.match(r'_?raise_', fn.attr):
                return True
            # mutating calls on an alias of one of self's derivatives
            if isinstance(fn, ast.Attribute) and self.is_deriv_expr(fn.value, s, aliases):
                if ('Qube.' + fn.attr) in self.eventful and fn.attr != 'require_writable':
                    # freezing a derivative changes no content (the 'unshrunk' original still corresponds)
                    mode = 'same' if fn.attr in ('as_readonly', 'match_readonly') else 'store'
                    out.append(('ev', ('write', 'derivs', mode), sid))
                return False
            q, args = self.call_target(f, n)
            if q is not None:
                if in_comp:
                    raise Unsupported('mutator call inside a comprehension')
                g = self.src.funcs[q]
                benv = self.bind(g, args, n.keywords, env)
                out.append(('call', q, benv, sid))
                return raises
            # a helper whose body can raise: an exceptional exit of the mutator is possible here
            rq = self.raising_callee(f, n)
            # any other call that receives self (as receiver or argument) may run cached queries on it
            recv = isinstance(fn, ast.Attribute) and isinstance(fn.value, ast.Name) and fn.value.id == s
            fname = fn.id if isinstance(fn, ast.Name) else None
            passed = any(isinstance(a, ast.Name) and a.id == s for a in n.args) or \
                any(isinstance(k.value, ast.Name) and k.value.id == s for k in n.keywords)
            if recv or (passed and fname not in PURE_BUILTINS):
                out.append(('fill',))
            if rq is not None:
                out.append(('mr', rq, sid))
            return raises
        if isinstance(n, ast.Attribute) and isinstance(n.value, ast.Name) and n.value.id == s \
                and isinstance(n.ctx, ast.Load) and n.attr in self.src.props:
            out.append(('fill',))
            return False
        for c in ast.iter_child_nodes(n):
            if isinstance(c, ast.expr):
                if self.expr_items(f, c, env, aliases, sid, out, depth, in_comp):
                    return True
        return False

    def raising_callee(self, f, n):
        """qualified name of the callee of call `n` when it resolves PRECISELY to a polymath function that can raise"""
        fn = n.func
        src = self.src
        name = fn.attr if isinstance(fn, ast.Attribute) else getattr(fn, 'id', None)
        if name is None:
            return None
        q = None
        if isinstance(fn, ast.Name):
            if name in src.bases:
                q = src.resolve(name, '__init__')
        else:
            recv = fn.value
            if name.endswith('_CLASS'):
                q = 'Qube.__init__'
            elif isinstance(recv, ast.Name) and recv.id == f.selfname:
                q = src.resolve(self.dispatch_class(f), name)
            elif isinstance(recv, ast.Name) and recv.id in src.bases:
                q = src.resolve(recv.id, name)
            elif isinstance(recv, ast.Call) and isinstance(recv.func, ast.Name) and recv.func.id == 'super':
                q = src.resolve(self.dispatch_class(f), name, after=f.cls)
        return q if q in src.can_raise else None

    def is_deriv_expr(self, n, s, aliases):
        if isinstance(n, ast.Name) and n.id in aliases:
            return True
        if isinstance(n, ast.Subscript) and is_self_attr(n.value, s, '_derivs_'):
            return True
        return False

    def bind(self, g, args, keywords, env):
        b = {}
        params = g.params[1:]
        for p in params:
            if p in g.defaults:
                v = lit(g.defaults[p])
                if v is not UNKNOWN:
                    b[p] = v
        for p, a in zip(params, args):
            b.pop(p, None)
            if isinstance(a, ast.Starred):
                return {}
            v = ev3(a, env) if isinstance(a, (ast.Constant, ast.Name)) else UNKNOWN
            if v is not UNKNOWN and isinstance(v, (bool, int, float, str, type(None), tuple)):
                b[p] = v
        for k in keywords:
            if k.arg is None:
                return {}
            b.pop(k.arg, None)
            v = ev3(k.value, env) if isinstance(k.value, (ast.Constant, ast.Name)) else UNKNOWN
            if v is not UNKNOWN and isinstance(v, (bool, int, float, str, type(None), tuple)):
                b[k.arg] = v
        for p in list(b):
            if p in g.stored:
                del b[p]                    # reassigned inside the callee: not a constant
        return b

    # ---- statements -> local paths.  A local path is (items, status); status in fall|ret|raise|break|continue
    def target_items(self, f, t, mode, aliases, sid, out):
        s = f.selfname
        if isinstance(t, (ast.Tuple, ast.List)):
            for e in t.elts:
                self.target_items(f, e, mode, aliases, sid, out)
            return
        if isinstance(t, ast.Starred):
            return self.target_items(f, t.value, mode, aliases, sid, out)
        if is_self_attr(t, s):
            if t.attr in ATTRS:
                out.append(('ev', ('write', ATTRS[t.attr], mode), sid))
            elif t.attr == '_cache_':
                out.append(('ev', ('cacheClear',), sid))     # self._cache_ = {...}: a fresh dictionary
            return
        if isinstance(t, ast.Subscript):
            base = t.value
            if is_self_attr(base, s):
                if base.attr in ATTRS:
                    if base.attr in ('_values_', '_mask_') and mode != 'del':
                        out.append(('mr', 'numpy.store', sid))     # a right-hand side that does not fit is refused
                    out.append(('ev', ('write', ATTRS[base.attr], 'store'), sid))
                elif base.attr == '__dict__':
                    k = t.slice
                    left = k.left if isinstance(k, ast.BinOp) else k
                    ks = const_str(left)
                    if ks is not None and ks.startswith('d_d'):
                        out.append(('ev', ('write', 'derivs', 'store'), sid))
                    elif ks in ATTRS:
                        out.append(('ev', ('write', ATTRS[ks], 'rebind'), sid))
                    else:
                        raise Unsupported('self.__dict__[computed] store')
                elif base.attr == '_cache_':
                    k = const_str(t.slice)
                    if mode == 'del':
                        if k not in KEYS:
                            raise Unsupported('del self._cache_[unknown key]')
                        out.append(('ev', ('cacheDel', k), sid))
                    else:
                        raise Unsupported('cache fill inside a mutator')
                return
            if self.is_deriv_expr(base, s, aliases):
                out.append(('ev', ('write', 'derivs', 'store'), sid))
                return
            va = view_of_attr(base, s, aliases) if not is_self_attr(base, s) else None
            if va is not None:
                out.append(('mr', 'numpy.store', sid))
                out.append(('ev', ('write', va, 'store'), sid))     # a store through a local view of the array
                return
            # x._values_[...] = ... where x is a deriv alias
            if isinstance(base, ast.Attribute) and self.is_deriv_expr(base.value, s, aliases):
                out.append(('ev', ('write', 'derivs', 'store'), sid))
            return
        if isinstance(t, ast.Attribute) and self.is_deriv_expr(t.value, s, aliases):
            out.append(('ev', ('write', 'derivs', 'store'), sid))

    def is_freeze_loop(self, f, st):
        s = f.selfname
        if not isinstance(st, ast.For):
            return False
        it = st.iter
        if not (isinstance(it, ast.Call) and isinstance(it.func, ast.Attribute) and it.func.attr == 'items'
                and is_self_attr(it.func.value, s, '_cache_')):
            return False
        ok = False
        for n in ast.walk(st):
            if isinstance(n, ast.Assign) and len(n.targets) == 1 and isinstance(n.targets[0], ast.Subscript) \
                    and is_self_attr(n.targets[0].value, s, '_cache_'):
                v = n.value
                if isinstance(v, ast.Call) and isinstance(v.func, ast.Attribute) and v.func.attr == 'as_readonly':
                    ok = True
                else:
                    return False
        return ok

    def walk(self, f, stmts, env, aliases, depth):
        """list of (items, status) for a statement list"""
        results = [([], 'fall')]
        for st in stmts:
            nxt = []
            sub = None
            for items, status in results:
                if status != 'fall':
                    nxt.append((items, status))
                    continue
                if sub is None:
                    sub = self.stmt(f, st, env, aliases, depth)
                for i2, s2 in sub:
                    nxt.append((items + i2, s2))
            results = dedupe(nxt)
            if len(results) > MAX_PATHS:
                raise Unsupported('too many paths')
        return results

    def stmt(self, f, st, env, aliases, depth):
        s = f.selfname
        sid = (f.qual, st.lineno)
        if isinstance(st, (ast.Pass, ast.Import, ast.ImportFrom, ast.Global, ast.Nonlocal, ast.Assert,
                           ast.FunctionDef, ast.ClassDef)):
            if isinstance(st, ast.FunctionDef):
                for n in ast.walk(st):
                    if isinstance(n, ast.Attribute) and isinstance(n.value, ast.Name) and n.value.id == s \
                            and (n.attr in ATTRS or n.attr == '_cache_') and isinstance(n.ctx, (ast.Store, ast.Del)):
                        raise Unsupported('nested function writes to self')
            return [([], 'fall')]
        if isinstance(st, ast.Return):
            out = []
            r = self.expr_items(f, st.value, env, aliases, sid, out, depth)
            out.append(('ev', ('raise',) if r else ('ret',), sid))
            return [(out, 'raise' if r else 'ret')]
        if isinstance(st, ast.Raise):
            out = []
            self.expr_items(f, st.exc, env, aliases, sid, out, depth)
            out.append(('ev', ('raise',), sid))
            return [(out, 'raise')]
        if isinstance(st, ast.Break):
            return [([], 'break')]
        if isinstance(st, ast.Continue):
            return [([], 'continue')]
        if isinstance(st, ast.Expr):
            out = []
            r = self.expr_items(f, st.value, env, aliases, sid, out, depth)
            if r:
                out.append(('ev', ('raise',), sid))
                return [(out, 'raise')]
            return [(out, 'fall')]
        if isinstance(st, (ast.Assign, ast.AnnAssign)):
            out = []
            if self.expr_items(f, st.value, env, aliases, sid, out, depth):
                out.append(('ev', ('raise',), sid)); return [(out, 'raise')]
            tgts = st.targets if isinstance(st, ast.Assign) else [st.target]
            # alias tracking: d = self._derivs_[k]
            if isinstance(st.value, ast.Subscript) and is_self_attr(st.value.value, s, '_derivs_'):
                for t in tgts:
                    if isinstance(t, ast.Name):
                        aliases.add(t.id)
            # alias tracking: m = self._mask_ / self._values_[...] / self._mask_.reshape(...) (a view of the array)
            va = view_of_attr(st.value, s, aliases)
            for t in tgts:
                if isinstance(t, ast.Name):
                    for x in [x for x in aliases if isinstance(x, tuple) and x[1] == t.id]:
                        aliases.discard(x)
                    if va is not None:
                        aliases.add(('arr', t.id, va))
            if isinstance(st.value, ast.Name) and st.value.id == s:
                for t in tgts:
                    if isinstance(t, ast.Name) and t.id != s:
                        raise Unsupported('alias of self')
            mode = 'setTrue' if (isinstance(st.value, ast.Constant) and st.value.value is True) else 'rebind'
            for t in tgts:
                if isinstance(t, ast.Name) and t.id == s:
                    if getattr(f, 'derived_from', None) is not None:
                        # the subject of a derived-object analysis is (re)created here
                        keys = self.clone_retain_call(f, st.value)
                        if keys is None:
                            out.append(('ev', ('cacheClear',), sid))      # any other construction: a fresh cache
                        else:
                            out.append(('ev', ('call', 'Qube.clone'), sid))
                            for k in keys:
                                out.append(('ev', ('cacheDel', k), sid))
                        continue
                    raise Unsupported('self is rebound')
                m = mode if is_self_attr(t, s, '_readonly_') else 'rebind'
                if is_self_attr(t, s) and t.attr in ATTRS and same_content(st.value, s, t.attr):
                    m = 'same'
                expanded = is_self_attr(t, s, '_mask_') and mask_expansion(st.value, env.get('__mask_truth__'))
                if expanded:
                    m = 'same'          # `if self._mask_: self._mask_ = np.ones(shape) else: … np.zeros(shape)`
                self.target_items(f, t, m, aliases, sid, out)
                if expanded:
                    out.append(('ev', ('maskRepChanged',), sid))     # same content, other representation
            return [(out, 'fall')]
        if isinstance(st, ast.AugAssign):
            out = []
            if self.expr_items(f, st.value, env, aliases, sid, out, depth):
                out.append(('ev', ('raise',), sid)); return [(out, 'raise')]
            t = st.target
            if is_self_attr(t, s) and t.attr in ATTRS:
                out.append(('mr', 'numpy.' + type(st.op).__name__, sid))     # broadcast/cast failure BEFORE the write
                out.append(('ev', ('write', ATTRS[t.attr], 'aug'), sid))
            elif isinstance(t, ast.Name) and view_of_attr(t, s, aliases) is not None:
                out.append(('ev', ('write', view_of_attr(t, s, aliases), 'store'), sid))
            else:
                self.target_items(f, t, 'store', aliases, sid, out)
            return [(out, 'fall')]
        if isinstance(st, ast.Delete):
            out = []
            for t in st.targets:
                if is_self_attr(t, s) and t.attr in ATTRS:
                    out.append(('ev', ('write', ATTRS[t.attr], 'rebind'), sid))
                else:
                    self.target_items(f, t, 'del', aliases, sid, out)
            return [(out, 'fall')]
        if isinstance(st, ast.If):
            return self.if_stmt(f, st, env, aliases, depth, sid)
        if isinstance(st, (ast.For, ast.While)):
            return self.loop(f, st, env, aliases, depth, sid)
        if isinstance(st, ast.With):
            out = []
            for it in st.items:
                self.expr_items(f, it.context_expr, env, aliases, sid, out, depth)
            return [(out + i, s2) for i, s2 in self.walk(f, st.body, env, aliases, depth)]
        if isinstance(st, ast.Try):
            return self.try_stmt(f, st, env, aliases, depth, sid)
        raise Unsupported('statement %s' % type(st).__name__)

    def if_stmt(self, f, st, env, aliases, depth, sid):
        s = f.selfname
        test = st.test
        if mentions(test, 'DISABLE_CACHE'):
            # only `if not Qube.DISABLE_CACHE: <loop converting cached objects to read-only>` is understood
            neg = isinstance(test, ast.UnaryOp) and isinstance(test.op, ast.Not) and mentions(test.operand, 'DISABLE_CACHE') \
                and isinstance(test.operand, ast.Attribute)
            if neg and not st.orelse and len(st.body) == 1 and self.is_freeze_loop(f, st.body[0]):
                return [([('ev', ('cacheFreeze',), sid)], 'fall')]
            raise Unsupported('DISABLE_CACHE used in a mutator in a way the translator does not understand')
        tout = []
        if self.expr_items(f, test, env, aliases, sid, tout, depth):
            return [(tout + [('ev', ('raise',), sid)], 'raise')]
        # guarded delete: if 'k' in self._cache_ [and C]: del self._cache_['k']
        conj = test.values if isinstance(test, ast.BoolOp) and isinstance(test.op, ast.And) else [test]
        keys = [cache_member_test(c, s) for c in conj]
        if not st.orelse and len(st.body) == 1 and isinstance(st.body[0], ast.Delete) and any(keys):
            d = st.body[0]
            k = [k for k in keys if k][0]
            tgt = d.targets[0] if len(d.targets) == 1 else None
            if isinstance(tgt, ast.Subscript) and is_self_attr(tgt.value, s, '_cache_') and const_str(tgt.slice) == k \
                    and sum(1 for x in keys if x) == 1:
                if k not in KEYS:
                    raise Unsupported('unknown cache key %r' % k)
                rest = [c for c, kk in zip(conj, keys) if not kk]
                dsid = sid          # the guard always runs; the `del` line only when the key is present
                if not rest:
                    return [(tout + [('ev', ('cacheDel', k), dsid)], 'fall')]
                if len(rest) == 1 and varr_test(rest[0], s) is not None:
                    v = varr_test(rest[0], s)
                    return [(tout + [('ev', ('assumeVarr', v), sid), ('ev', ('cacheDel', k), dsid)], 'fall'),
                            (tout + [('ev', ('assumeVarr', not v), sid)], 'fall')]
                return [(tout + [('ev', ('cacheDel', k), dsid)], 'fall'), (tout, 'fall')]
        v = ev3(test, env)
        vt = varr_test(test, s)
        # path sensitivity on self._readonly_: what each arm learns about it (internal `assume` items; contradictory
        # paths — e.g. require_writable raising after require_writable has passed — are pruned in `consistent`)
        rt, rf = ro_facts(test, s, env)
        res = []
        mt = is_self_attr(test, s, '_mask_')       # `if self._mask_:` (a single bool at that point)
        env_t = dict(env, __mask_truth__=True) if mt else env
        env_f = dict(env, __mask_truth__=False) if mt else env
        if v is UNKNOWN or v:
            pre = tout + ([('ev', ('assumeVarr', vt), sid)] if vt is not None else [])
            pre = pre + ([('assume', ('ro', rt), sid)] if rt is not None else [])
            res += [(pre + i, s2) for i, s2 in self.walk(f, st.body, env_t, set(aliases), depth)]
        if v is UNKNOWN or not v:
            pre = tout + ([('ev', ('assumeVarr', not vt), sid)] if vt is not None else [])
            pre = pre + ([('assume', ('ro', rf), sid)] if rf is not None else [])
            res += [(pre + i, s2) for i, s2 in self.walk(f, st.orelse, env_f, set(aliases), depth)]
        res = dedupe(res)
        if rt is not None or rf is not None:
            stripped = dedupe([([x for x in i if not (x[0] == 'assume' and x[2] == sid)], s2) for i, s2 in res])
            if len(stripped) == 1:
                return stripped          # both arms do the same: no need to remember the test
        if vt is not None:
            # the assumption is only worth a path split when the arms differ
            stripped = dedupe([([x for x in i if not (x[0] == 'ev' and x[1][0] == 'assumeVarr' and x[2] == sid)], s2)
                               for i, s2 in res])
            if len(stripped) == 1:
                return stripped
        return res

    def loop(self, f, st, env, aliases, depth, sid):
        s = f.selfname
        if self.is_freeze_loop(f, st):
            return [([('ev', ('cacheFreeze',), sid)], 'fall')]
        head = []
        al = set(aliases)
        if isinstance(st, ast.For):
            if self.expr_items(f, st.iter, env, aliases, sid, head, depth):
                return [(head + [('ev', ('raise',), sid)], 'raise')]
            it = st.iter
            # for k, d in self._derivs_.items() / for d in self._derivs_.values()
            if isinstance(it, ast.Call) and isinstance(it.func, ast.Attribute) and is_self_attr(it.func.value, s, '_derivs_'):
                if it.func.attr == 'items' and isinstance(st.target, ast.Tuple) and len(st.target.elts) == 2 \
                        and isinstance(st.target.elts[1], ast.Name):
                    al.add(st.target.elts[1].id)
                if it.func.attr == 'values' and isinstance(st.target, ast.Name):
                    al.add(st.target.id)
            for n in ast.walk(st.target):
                if isinstance(n, ast.Name) and n.id == s:
                    raise Unsupported('self is rebound')
        else:
            if self.expr_items(f, st.test, env, aliases, sid, head, depth):
                return [(head + [('ev', ('raise',), sid)], 'raise')]
        body = self.walk(f, st.body, env, al, depth)
        complete = dedupe([(i, 'fall') for i, s2 in body if s2 in ('fall', 'continue')])
        breaking = dedupe([(i, 'fall') for i, s2 in body if s2 == 'break'])
        ending = [(i, s2) for i, s2 in body if s2 in ('ret', 'raise')]
        orelse = self.walk(f, st.orelse, env, set(aliases), depth) if st.orelse else [([], 'fall')]
        eventful = [i for i, _ in complete if i]
        # iterations are bracketed by markers so that the segmented form (loops with ANY number of iterations,
        # `loopTable`) can be recovered from the unrolled path
        def it(a):
            return [('mark', ('lb', sid), sid)] + a + [('mark', ('le', sid), sid)]
        seqs = [[]]
        for a in eventful:
            seqs.append(it(a))
        if len(eventful) > 1:
            for a in eventful:
                for b in eventful:
                    if a is not b:
                        seqs.append(it(a) + it(b))
        if len(eventful) > 2:
            allarms = []
            for a in eventful:
                allarms += it(a)
            seqs.append(allarms)
        res = []
        for pre in seqs:
            for oi, os_ in orelse:
                res.append((head + pre + oi, os_))
            for bi, _ in breaking:
                res.append((head + pre + bi, 'fall'))
            for ei, es in ending:
                res.append((head + pre + ei, es))
        return dedupe(res)

    def try_stmt(self, f, st, env, aliases, depth, sid):
        res = []
        body = self.walk(f, st.body, env, aliases, depth)
        for i, s2 in body:
            if s2 == 'fall' and st.orelse:
                for i3, s3 in self.walk(f, st.orelse, env, aliases, depth):
                    res.append((i + i3, s3))
            else:
                res.append((i, s2))
        # handler entered after an implicit exception in body statement k (statements before k completed)
        for k in range(len(st.body)):
            pre = self.walk(f, st.body[:k], env, aliases, depth)
            ksid = (f.qual, st.body[k].lineno)
            for h in st.handlers:
                hp = self.walk(f, h.body, env, aliases, depth)
                for pi, ps in pre:
                    if ps != 'fall':
                        continue
                    for hi, hs in hp:
                        res.append((pi + [('exc', ksid)] + hi, hs))
        res = dedupe(res)
        if st.finalbody:
            fin = self.walk(f, st.finalbody, env, aliases, depth)
            out = []
            for i, s2 in res:
                for fi, fs in fin:
                    out.append((i + fi, s2 if fs == 'fall' else fs))
            res = dedupe(out)
        return res

    # ---- inlining: flat paths of a function under a binding
    def flat(self, q, benv, depth, stack=()):
        key = (self.recv, q, tuple(sorted((k, repr(v)) for k, v in benv.items())))
        if key in self.memo:
            return self.memo[key]
        if depth > MAX_DEPTH or q in stack:
            raise Unsupported('call depth / recursion at %s' % q)
        f = self.src.funcs[q]
        env = {k: v for k, v in benv.items() if k not in f.stored}
        local = self.walk(f, getattr(f, 'body', None) or f.node.body, env, set(), depth)
        out = []
        for items, status in local:
            if status in ('break', 'continue'):
                raise Unsupported('break/continue outside a loop')
            partial = [([], 'fall')]
            for it in items:
                nxt = []
                for pi, ps in partial:
                    if ps != 'fall':
                        nxt.append((pi, ps)); continue
                    if it[0] == 'call':
                        _, cq, cenv, csid = it
                        marker = ('ev', ('requireWritable',) if cq.endswith('.require_writable') else ('call', cq), csid)
                        for ci, cs in self.flat(cq, cenv, depth + 1, stack + (q,)):
                            ci2 = [x if x[0] in ('fill', 'mr') else (x[0], x[1], (csid,) + as_chain(x[2])) for x in ci]
                            if cs == 'raise':
                                nxt.append((pi + [marker] + ci2, 'raise'))
                            else:
                                ci2 = [x for x in ci2 if not (x[0] == 'ev' and x[1] == ('ret',))]
                                nxt.append((pi + [marker] + ci2, 'fall'))
                    elif it[0] == 'exc':
                        nxt.append((pi + [('ev', ('excAt',), it[1])], ps))
                    elif it[0] == 'fill':
                        nxt.append((pi + [it], ps))
                    else:
                        nxt.append((pi + [it], ps))
                # only an inlined call multiplies the partial paths; appending one item to distinct paths keeps them distinct
                partial = dedupe(nxt) if it[0] == 'call' else nxt
                if len(partial) > MAX_PATHS:
                    raise Unsupported('too many inlined paths in %s' % q)
            for pi, ps in partial:
                if ps == 'fall':
                    if status == 'fall':
                        pi = pi + [('ev', ('ret',), (q, f.node.end_lineno or f.node.lineno))]
                        out.append((pi, 'ret'))
                    else:
                        out.append((pi, status))
                else:
                    out.append((pi, ps))
        out = dedupe([(i, s2) for i, s2 in out if consistent(i)])
        self.memo[key] = out
        return out

    # ---- derived objects: N = self.clone(..., retain_cache=True) followed by mutators of N
    def clone_retain_keys(self):
        """the cache keys that `clone(retain_cache=True)` removes from the copied cache (read off Qube.clone)"""
        f = self.src.funcs.get('Qube.clone')
        keys = []
        if f is None:
            return None
        for n in ast.walk(f.node):
            if isinstance(n, ast.If) and isinstance(n.test, ast.Name) and n.test.id == 'retain_cache':
                ok = False
                for b in n.body:
                    if isinstance(b, ast.Assign) and isinstance(b.value, ast.Call) and isinstance(b.value.func, ast.Attribute) \
                            and b.value.func.attr == 'copy' and is_self_attr(b.value.func.value, f.selfname, '_cache_'):
                        ok = True            # obj._cache_ = self._cache_.copy()
                if not ok:
                    return None
                for d in ast.walk(n):
                    if isinstance(d, ast.Delete):
                        for t in d.targets:
                            if isinstance(t, ast.Subscript) and isinstance(t.value, ast.Attribute) and t.value.attr == '_cache_':
                                k = const_str(t.slice)
                                if k not in KEYS:
                                    return None
                                keys.append(k)
                return keys
        return None

    def clone_retain_call(self, f, v):
        """is `v` the call `<original self>.clone(..., retain_cache=True)`?  -> the keys it deletes, else None"""
        if isinstance(v, ast.Call) and isinstance(v.func, ast.Attribute) and v.func.attr == 'clone' \
                and isinstance(v.func.value, ast.Name) and v.func.value.id == f.derived_from:
            for k in v.keywords:
                if k.arg == 'retain_cache' and isinstance(k.value, ast.Constant) and k.value.value is True:
                    if self._retain_keys is None:
                        raise Unsupported('Qube.clone(retain_cache=True) not understood')
                    return self._retain_keys
        return None

    def derived_table(self):
        """for every function that builds a NEW object from a clone with a retained cache: the event paths of the
        new object (its cache starts as a copy of the original's)"""
        self._retain_keys = self.clone_retain_keys()
        tab = {}
        for q, f in sorted(self.src.funcs.items()):
            names = []
            for n in ast.walk(f.node):
                if isinstance(n, ast.Assign) and len(n.targets) == 1 and isinstance(n.targets[0], ast.Name) \
                        and isinstance(n.value, ast.Call) and isinstance(n.value.func, ast.Attribute) \
                        and n.value.func.attr == 'clone' and isinstance(n.value.func.value, ast.Name) \
                        and n.value.func.value.id == f.selfname \
                        and any(k.arg == 'retain_cache' and isinstance(k.value, ast.Constant) and k.value.value is True
                                for k in n.value.keywords):
                    if n.targets[0].id not in names:
                        names.append(n.targets[0].id)
            for nm in names:
                g = Func(q + '@' + nm, f.cls, f.name, f.node, f.file)
                g.derived_from = f.selfname
                g.selfname = nm
                self.src.funcs[g.qual] = g
                try:
                    paths = self.flat(g.qual, {}, 0)
                except Unsupported as e:
                    self.failures.append('%s (%s:%d): %s' % (g.qual, f.file, f.node.lineno, e))
                    continue
                # only the paths that go through the clone
                plist = [[to_event(x) for x in items if x[0] not in ('mark', 'assume')]
                         for items, status in paths if any(x[0] == 'ev' and x[1] == ('call', 'Qube.clone') for x in items)
                         and status == 'ret']
                tab[g.qual] = {'file': f.file, 'line': f.node.lineno, 'end_line': f.node.end_lineno, 'paths': plist}
        return tab

    # ---- the derivatives of self, written directly by a mutator of self (not through their own public mutators)
    def deriv_alias_table(self):
        """for every loop `for k, d in self._derivs_.items()` of an eventful function whose body writes to d's
        attributes or calls d's low-level helpers: the events as seen by the derivative object d"""
        tab = {}
        for q in sorted(self.eventful or ()):
            f = self.src.funcs[q]
            n_loop = 0
            for n in ast.walk(f.node):
                if not isinstance(n, ast.For):
                    continue
                it = n.iter
                if not (isinstance(it, ast.Call) and isinstance(it.func, ast.Attribute)
                        and is_self_attr(it.func.value, f.selfname, '_derivs_')):
                    continue
                alias = None
                if it.func.attr == 'items' and isinstance(n.target, ast.Tuple) and len(n.target.elts) == 2 \
                        and isinstance(n.target.elts[1], ast.Name):
                    alias = n.target.elts[1].id
                if it.func.attr == 'values' and isinstance(n.target, ast.Name):
                    alias = n.target.id
                if alias is None:
                    continue
                g = Func('%s@%s#%d' % (q, alias, n.lineno), f.cls, f.name, f.node, f.file)
                g.selfname = alias
                g.body = n.body
                g.derived_from = f.selfname
                self.src.funcs[g.qual] = g
                try:
                    paths = self.flat(g.qual, {}, 0)
                except Unsupported as e:
                    self.failures.append('%s (%s:%d): %s' % (g.qual, f.file, n.lineno, e))
                    continue
                plist = []
                for items, status in paths:
                    evs = [to_event(x) for x in items if x[0] not in ('mark', 'assume')]
                    if any(e[0] in ('write', 'cacheClear', 'cacheDel', 'cacheFreeze') for e in evs) and evs not in plist:
                        plist.append(evs)
                if plist:
                    tab[g.qual] = {'file': f.file, 'line': n.lineno, 'end_line': n.end_lineno, 'paths': plist}
        return tab

    # ---- the table
    def table(self):
        self.compute_eventful()
        self.recv = None
        tab = self.table_for(sorted(self.eventful), {})
        # dynamic dispatch: for every concrete class, the mutators it inherits, analysed with `self.m()` resolved
        # in THAT class; kept (as "<Class>/<function>") only where the result differs from the default
        names = sorted({self.src.funcs[q].name for q in self.eventful})
        for C in sorted(self.src.bases):
            if 'Qube' not in self.src.mro(C) or C == 'Qube':
                continue
            self.recv = C
            quals = sorted({self.src.resolve(C, nm) for nm in names} - {None})
            sub = self.table_for([q for q in quals if q in self.eventful], {}, report=False)
            for q, info in sub.items():
                base = tab.get(q)
                same = base is not None and [(p['events'], p['sig']) for p in base['paths']] == \
                    [(p['events'], p['sig']) for p in info['paths']]
                if not same:
                    tab['%s/%s' % (C, q)] = info
        self.recv = None
        return tab

    def table_for(self, quals, tab, report=True):
        for q in quals:
            f = self.src.funcs[q]
            try:
                paths = self.flat(q, {}, 0)
            except Unsupported as e:
                msg = '%s (%s:%d): %s' % (q, f.file, f.node.lineno, e)
                if msg not in self.failures:
                    self.failures.append(msg)
                continue
            except RecursionError:
                self.failures.append('%s: recursion' % q)
                continue
            plist = []
            stmt_events = {}
            for items, status in paths:
                run = {}
                for x in items:
                    if x[0] == 'ev' and len(as_chain(x[2])) == 1:
                        run.setdefault(as_chain(x[2])[0], []).append(x[1])
                for sid, evs in run.items():
                    if len(evs) > len(stmt_events.get(sid, [])) or not stmt_events.get(sid):
                        # a statement inside an unrolled loop appears twice: keep one occurrence
                        half = evs[:len(evs) // 2]
                        if len(evs) % 2 == 0 and half and half + half == evs:
                            evs = half
                        if len(evs) >= len(stmt_events.get(sid, [])):
                            stmt_events[sid] = evs
            for items, status in paths:
                evs = [to_event(x) for x in items if x[0] not in ('mark', 'assume')]
                sig = []
                for x in items:
                    if x[0] in ('fill', 'mark', 'assume', 'mr') or x[1] == ('excAt',):
                        continue        # the statement that raised is not a landmark: it also runs on normal paths
                    c = as_chain(x[2])
                    if not sig or sig[-1] != c:
                        sig.append(c)
                slots, seen = [], set()
                for x in items:
                    if x[0] == 'fill':
                        slots.append(len(seen))
                    elif x[0] not in ('mark', 'assume', 'mr') and x[1] != ('excAt',):
                        seen.add(as_chain(x[2]))
                # exceptional exits: for every mayRaise item, the landmarks (deduped statement chains) seen before it,
                # the chain of the item that follows (the statement that may have been running), the event index
                exits, seen_l, kev = [], [], 0
                live = [x for x in items if x[0] not in ('mark', 'assume')]
                for j, x in enumerate(live):
                    if x[0] == 'mr':
                        nxt = None
                        for y in live[j + 1:]:
                            if y[0] == 'ev' and y[1] != ('excAt',):
                                nxt = as_chain(y[2]); break
                        exits.append({'k': kev, 'pre': tuple(seen_l), 'next': nxt, 'site': x[1],
                                      'nfills': sum(1 for y in live[:j] if y[0] == 'fill')})
                    elif x[0] == 'ev' and x[1] != ('excAt',):
                        c = as_chain(x[2])
                        if c not in seen_l:
                            seen_l.append(c)
                    kev += 1
                segs, nested = segments(items)
                if nested and status == 'ret' and public_name(f):
                    msg = '%s (%s:%d): a loop with events nested inside a loop body (only outermost loops are ' \
                          'proved for every number of iterations)' % (q, f.file, f.node.lineno)
                    if msg not in self.failures:
                        self.failures.append(msg)
                plist.append({'events': evs, 'sig': tuple(sig), 'end': status, 'fill_slots': slots, 'segs': segs,
                              'exits': exits})
            public = public_name(f)
            tab[q] = {'file': f.file, 'line': f.node.lineno, 'end_line': f.node.end_lineno, 'public': public,
                      'paths': plist, 'stmt_events': stmt_events, 'stmt_map': stmt_map(f.node),
                      'selfname': f.selfname}
        return tab


def stmt_map(fnode):
    """line -> first line of the innermost statement (or compound-statement header) that contains it"""
    spans = []
    for n in ast.walk(fnode):
        if isinstance(n, ast.stmt) and n is not fnode:
            if isinstance(n, (ast.If, ast.For, ast.While, ast.With)):
                end = max(n.lineno, n.body[0].lineno - 1)
            elif isinstance(n, ast.Try):
                end = n.lineno
            elif isinstance(n, (ast.FunctionDef, ast.ClassDef)):
                continue
            else:
                end = n.end_lineno or n.lineno
            spans.append((n.lineno, end))
    m = {}
    for a, b in sorted(spans, key=lambda ab: -(ab[1] - ab[0])):     # widest first, narrower ones overwrite
        for l in range(a, b + 1):
            m[l] = a
    return m


def query_functions(root=None):
    """(file, name, lines) of the cached-query functions traced by the harness"""
    src = Source(root or repo_root())
    out = []
    for name in ('antimask', 'corners', '_slicer', 'wod', 'shrink', 'unshrink'):
        f = src.funcs.get('Qube.' + name)
        if f is not None:
            lines = [f.node.lineno] + [d.lineno for d in f.node.decorator_list]
            out.append((f.file, name, lines))
    return out


def to_event(x):
    if x[0] == 'fill':
        return ('mayFill',)
    if x[0] == 'mr':
        return ('mayRaise', x[1])
    return x[1]


def public_name(f):
    return not (f.name.startswith('_') and not f.name.startswith('__')) and f.name != 'require_writable'


def segments(items):
    """the segmented form of an unrolled path: [(isLoop, [alternative event lists])]; only the OUTERMOST loops become
    loop segments (loops nested in them, or in callees inlined into them, stay unrolled inside the alternatives)"""
    segs, straight = [], []
    depth, cur_lid, body, alts = 0, None, None, None
    nested = False

    def ev(x):
        return to_event(x)
    for x in items:
        if x[0] == 'assume':
            continue
        if x[0] == 'mark':
            kind, lid = x[1]
            lid = (lid, tuple(as_chain(x[2])))        # the same loop reached through different call sites differs
            if kind == 'lb':
                depth += 1
                if depth == 1:
                    if alts is not None and cur_lid == lid and not straight:
                        pass                          # next iteration of the same loop
                    else:
                        if alts is not None:
                            segs.append((True, alts)); alts = None
                        if straight:
                            segs.append((False, [straight])); straight = []
                        alts, cur_lid = [], lid
                    body = []
                continue
            else:
                depth -= 1
                if depth == 0:
                    if body not in alts:
                        alts.append(body)
                    body = None
                continue
        if depth >= 1:
            if depth >= 2 and ev(x)[0] not in ('call', 'requireWritable', 'ret'):
                nested = True
            body.append(ev(x))
        else:
            if alts is not None:
                segs.append((True, alts)); alts = None
            straight.append(ev(x))
    if alts is not None:
        segs.append((True, alts))
    if straight:
        segs.append((False, [straight]))
    return segs, nested


def as_chain(sid):
    """statement ids are chains of (function, line): call sites leading to the statement"""
    if sid and isinstance(sid[0], tuple):
        return tuple(sid)
    return (sid,)


def dedupe(paths):
    """distinct paths; two paths that differ only in `mayFill` / `mayRaise` points are merged (union of the points,
    per gap between the other items: a `mayFill` with no observed query is a no-op, an extra possible exit only makes
    the exit check stricter, and the policy check is monotone in both)"""
    order, gaps = [], {}
    for items, s in paths:
        core, g, n = [], {}, 0
        for it in items:
            if it[0] == 'fill':
                g.setdefault(n, []).append(('fill',))
            elif it[0] == 'mr':
                g.setdefault(n, []).append(('mr', it[1]))
            else:
                core.append(it); n += 1
        k = (repr(core), s)
        if k not in gaps:
            gaps[k] = (core, {})
            order.append(k)
        for pos, aux in g.items():
            lst = gaps[k][1].setdefault(pos, [])
            for a in aux:
                if a not in lst:
                    lst.append(a)
    out = []
    for k in order:
        core, g = gaps[k]
        items = []

        def emit(pos):
            aux = g.get(pos, [])
            # possible exits first, then the fill: both orders happen, the exit check does not depend on fills
            for a in aux:
                if a[0] == 'mr':
                    items.append(('mr', a[1], None))
            if ('fill',) in aux:
                items.append(('fill',))
        for j, it in enumerate(core):
            emit(j)
            items.append(it)
        emit(len(core))
        out.append((items, k[1]))
    return out


def ordered_dedupe(seq):
    seen, out = set(), []
    for x in seq:
        if x not in seen:
            seen.add(x); out.append(x)
    return tuple(out)


# ----------------------------------------------------------------------------------------------- Lean output
def lean_event(e):
    k = e[0]
    if k == 'write':
        return '.write .%s .%s' % (e[1], e[2])
    if k == 'cacheDel':
        return '.cacheDel .%s' % e[1]
    if k == 'assumeVarr':
        return '.assumeVarr %s' % ('true' if e[1] else 'false')
    if k == 'call':
        return '.call "%s"' % e[1]
    if k == 'mayRaise':
        return '.mayRaise "%s"' % e[1]
    if k == 'raise':
        return '.raise_'
    return '.' + k


def distinct_event_lists(info):
    """distinct event lists of a mutator (order of first occurrence) and the index of each path into them"""
    lists, index = [], []
    for p in info['paths']:
        t = tuple(p['events'])
        if t not in lists:
            lists.append(t)
        index.append(lists.index(t))
    return lists, index


def render_lean(tab, failures, root, der=None):
    L = []
    L.append('/- GENERATED by harness/c18_py2lean.py from the source tree on every run of `./check C18` — do not edit.')
    L.append('   Per mutator and per control-flow path (calls on self inlined, eventless branches collapsed, loops')
    L.append('   unrolled to 0/1 iterations): the ordered list of cache-relevant events. -/')
    L.append('import PMV.Model.Cache')
    L.append('namespace PMV.Gen.EventPaths')
    L.append('open PMV.Cache')
    L.append('')
    L.append('/-- what the translator could not interpret (must be empty: theorem `translator_complete`) -/')
    L.append('def parseFailures : List String := [%s]' % ', '.join('"%s"' % f.replace('\\', '/').replace('"', "'") for f in failures))
    L.append('')
    names = []
    for q in sorted(tab):
        info = tab[q]
        lists, _ = distinct_event_lists(info)
        ident = 'm_' + re.sub(r'\W', '_', q)
        names.append((q, ident, info['public']))
        L.append('/-- %s  (%s:%d-%d), %d control-flow paths, %d distinct event lists -/'
                 % (q, info['file'], info['line'], info['end_line'], len(info['paths']), len(lists)))
        L.append('def %s : List (List Event) := [' % ident)
        L.append(',\n'.join('  [' + ', '.join(lean_event(e) for e in evs) + ']' for evs in lists))
        L.append(']')
        L.append('')
    L.append('/-- mutators reachable through the public API (in-place operators, item assignment, derivative, unit and')
    L.append('    read-only mutators and every other public method that writes to self) -/')
    L.append('def publicTable : Table := [')
    L.append(',\n'.join('  ("%s", %s)' % (q, i) for q, i, pub in names if pub))
    L.append(']')
    L.append('')
    L.append('/-- low-level helpers (leading underscore); their paths are inlined into the public mutators above with the')
    L.append('    arguments the call sites pass -/')
    L.append('def helperTable : Table := [')
    L.append(',\n'.join('  ("%s", %s)' % (q, i) for q, i, pub in names if not pub))
    L.append(']')
    L.append('')
    L.append('def table : Table := publicTable ++ helperTable')
    L.append('')
    L.append('/-- the returning paths of the public mutators that contain a loop, in SEGMENTED form: straight pieces and')
    L.append('    loops (alternative bodies, any number of iterations); the unrolled paths above are expansions of these -/')
    ln = []
    for q in sorted(tab):
        info = tab[q]
        if not info['public']:
            continue
        seen = []
        for p in info['paths']:
            if p['end'] != 'ret' or not any(lp for lp, _ in p['segs']):
                continue
            key = repr(p['segs'])
            if key not in seen:
                seen.append(key)
        if not seen:
            continue
        ident = 'l_' + re.sub(r'\W', '_', q)
        ln.append((q, ident))
        L.append('def %s : List (List Seg) := [' % ident)
        rows = []
        done = []
        for p in info['paths']:
            if p['end'] != 'ret' or not any(lp for lp, _ in p['segs']) or repr(p['segs']) in done:
                continue
            done.append(repr(p['segs']))
            rows.append('  [' + ', '.join('⟨%s, [%s]⟩' % ('true' if lp else 'false',
                        ', '.join('[' + ', '.join(lean_event(e) for e in alt) + ']' for alt in alts))
                        for lp, alts in p['segs']) + ']')
        L.append(',\n'.join(rows))
        L.append(']')
    L.append('def loopTable : List (String × List (List Seg)) := [')
    L.append(',\n'.join('  ("%s", %s)' % (q, i) for q, i in ln))
    L.append(']')
    L.append('')
    L.append('/-- NEW objects built from `self.clone(retain_cache=True)` (qube.py:1010-1018) and then modified: the paths')
    L.append('    of the new object, whose cache starts as a copy of the original\'s (returning paths through the clone) -/')
    der, dal = der if isinstance(der, tuple) else (der, {})
    dn = []
    for q in sorted(der or {}):
        ident = 'd_' + re.sub(r'\W', '_', q)
        lists = []
        for evs in der[q]['paths']:
            if tuple(evs) not in lists:
                lists.append(tuple(evs))
        dn.append((q, ident))
        L.append('def %s : List (List Event) := [' % ident)
        L.append(',\n'.join('  [' + ', '.join(lean_event(e) for e in evs) + ']' for evs in lists))
        L.append(']')
    L.append('def derivedTable : Table := [')
    L.append(',\n'.join('  ("%s", %s)' % (q, i) for q, i in dn))
    L.append(']')
    L.append('')
    L.append('/-- derivative objects of self written DIRECTLY by a mutator of self (loops over self._derivs_): the events')
    L.append('    as seen by the derivative object (its own public mutators are rows of `publicTable`) -/')
    an = []
    for q in sorted(dal or {}):
        ident = 'a_' + re.sub(r'\W', '_', q)
        an.append((q, ident))
        L.append('def %s : List (List Event) := [' % ident)
        L.append(',\n'.join('  [' + ', '.join(lean_event(e) for e in evs) + ']' for evs in dal[q]['paths']))
        L.append(']')
    L.append('def derivAliasTable : Table := [')
    L.append(',\n'.join('  ("%s", %s)' % (q, i) for q, i in an))
    L.append(']')
    L.append('end PMV.Gen.EventPaths')
    return '\n'.join(L) + '\n'


_GEN = {}


def generate(root=None, derived=False):
    """(table, failures[, (derived tables)]) — computed once per process and source root"""
    key = os.path.realpath(root or repo_root())
    if key not in _GEN:
        _GEN[key] = _generate(root)
    tab, failures, extra = _GEN[key]
    if derived:
        return tab, failures, extra
    return tab, failures


def _generate(root=None):
    derived = True
    ex = Extractor(root)
    der = {}
    try:
        tab = ex.table()
        der = ex.derived_table()
        ex.deriv_alias = ex.deriv_alias_table()
    except Exception as e:          # the translator itself broke on this source: tie broken, never silent
        tab = {}
        ex.failures.append('translator crashed: %s: %s' % (type(e).__name__, e))
    if derived:
        return tab, ex.failures, (der, getattr(ex, 'deriv_alias', {}))
    return tab, ex.failures


def write_lean(path, root=None):
    tab, failures, der = generate(root, derived=True)
    body = render_lean(tab, failures, root or repo_root(), der)
    if not os.path.exists(path) or open(path).read() != body:
        os.makedirs(os.path.dirname(path), exist_ok=True)
        with open(path, 'w') as fh:
            fh.write(body)
    return tab, failures


if __name__ == '__main__':
    tab, failures = generate(sys.argv[1] if len(sys.argv) > 1 else None)
    for q in sorted(tab):
        info = tab[q]
        lists, _ = distinct_event_lists(info)
        print('%-32s %s:%d public=%s paths=%d distinct=%d' % (q, info['file'], info['line'], info['public'],
                                                           len(info['paths']), len(lists)))
        if '-v' in sys.argv:
            for evs in lists:
                print('     ', ' '.join(':'.join(str(x) for x in e) for e in evs))
    print('failures:', failures)
