"""C16 case generation (deterministic given the rng)."""
import json, math
import numpy as np
from absn import mask_reps, mask_bits, np_bcast
from c16_ref import request, AXES

# leading-shape pairs: rank 0, length-0/1 axes, broadcasting in both directions, leading axis length == vector length
SHAPE_PAIRS = [([], []), ([], [3]), ([3], []), ([3], [3]), ([1], [3]), ([2, 1], [3]), ([2, 3], [3]), ([2, 3], [2, 1]),
               ([0], []), ([0], [1]), ([2, 0], [1]), ([1, 1], [2, 2]), ([2, 1, 2], [2, 2, 1]), ([4], [4]), ([2], [1, 2])]
BAD_PAIRS = [([2], [3]), ([2, 3], [3, 2])]
SHAPES1 = [[], [1], [3], [2, 2], [0], [2, 0], [1, 3], [4]]
PI = math.pi
EDGE_ANGLES = [0.0, PI / 2, PI, -PI / 2, 3 * PI / 2, 2 * PI, -PI, PI / 4]


def size(s):
    return int(np.prod(s, dtype=int))


def rand_mask(rng, shape, pm=0.3):
    n = size(shape)
    mode = rng.random()
    if mode < 0.35:
        bits = [False] * n
    elif mode < 0.42:
        bits = [True] * n
    elif mode < 0.55 and len(shape) >= 1 and shape[0] > 1:
        # constant along the first axis: admits the broadcast-view representation
        row = [rng.random() < 0.5 for _ in range(n // shape[0])]
        bits = row * shape[0]
    else:
        bits = [rng.random() < pm for _ in range(n)]
    return rng.choice(mask_reps(bits, shape))


def rand_vals(rng, n, style):
    if style == 'int':
        return [float(rng.randint(-3, 3)) for _ in range(n)]
    if style == 'dyad':
        return [rng.randint(-16, 16) / 8.0 for _ in range(n)]
    if style == 'pow2':
        return [rng.choice([1., -1., 2., -2., 4., .5, -.5, 0.]) for _ in range(n)]
    if style == 'float':
        return [round(rng.uniform(-2, 2), 3) for _ in range(n)]
    raise KeyError(style)


def opd(rng, cls, shape, numer, denom=(), style='int', pm=0.3, mask=None):
    n = size(list(shape) + list(numer) + list(denom))
    return {'cls': cls, 'shape': list(shape), 'numer': list(numer), 'denom': list(denom),
            'vals': rand_vals(rng, n, style), 'mask': rand_mask(rng, list(shape), pm) if mask is None else mask}


def structure_vectors(rng, o, kind, other=None):
    """overwrite some elements with structured edge values"""
    n = o['numer'][0]
    isz = size(o['numer'] + o['denom'])
    cnt = size(o['shape'])
    for e in range(cnt):
        if rng.random() < 0.5:
            continue
        if kind == 'zero':
            v = [0.0] * n
        elif kind == 'axis':
            v = [0.0] * n
            v[rng.randrange(n)] = rng.choice([1., -1., 2., -4., .5])
        elif kind == 'par' and other is not None and size(other['shape']) > 0 and other['numer'] == o['numer'] and not other['denom']:
            k = rng.randrange(size(other['shape']))
            f = rng.choice([1., -1., 2., -.5])
            v = [f * x for x in other['vals'][k * n:(k + 1) * n]]
        else:
            continue
        if not o['denom']:
            o['vals'][e * isz:(e + 1) * isz] = v
    return o


def vec_cls(n, rng):
    if n == 3 and rng.random() < 0.5: return 'Vector3'
    if n == 2 and rng.random() < 0.4: return 'Pair'
    return 'Vector'


def angle(rng, shape, edge=False, pm=0.3):
    n = size(shape)
    vals = [rng.choice(EDGE_ANGLES) if (edge or rng.random() < 0.25) else round(rng.uniform(-7, 7), 3) for _ in range(n)]
    return {'cls': 'Scalar', 'shape': list(shape), 'numer': [], 'denom': [], 'vals': vals, 'mask': rand_mask(rng, list(shape), pm)}


def nontrivial(case):
    shapes = []
    for k in ('a', 'b', 'c', 'ai', 'aj', 'ak'):
        o = case.get(k)
        if isinstance(o, dict):
            shapes.append(tuple(o['shape']))
            if any(mask_bits(o['mask'], o['shape'])) or o['denom']:
                return True
    return len(set(shapes)) > 1 or bool(case.get('edge'))


def fin(case, kind=None):
    case['req'] = None if case.get('noreq') else request(case)
    case['kind'] = kind or (case['op'] + ('/' + str(case['via']) if case.get('via') else ''))
    case['nontrivial'] = nontrivial(case)
    if case['req'] is None:
        case['id'] = json.dumps({k: v for k, v in case.items() if k not in ('req', 'id')}, sort_keys=True, default=str)[:4000]
    return case


def pairs(rng, thorough, bad=False):
    ps = list(SHAPE_PAIRS)
    if bad:
        ps += BAD_PAIRS
    return ps


def exact_style(rng):
    return rng.choice(['int', 'int', 'dyad'])


def gen_cases(rng, tier):
    thorough = tier == 'thorough'
    reps = 24 if thorough else 3
    cases = []
    add = cases.append

    for _ in range(reps):
        # ---------------------------------------------------------------- dot / cross / outer / element ops on vectors
        for sa, sb in pairs(rng, thorough, bad=True):
            bad = np_bcast(sa, sb) is None
            for n in (1, 2, 3, 4):
                st = exact_style(rng)
                for dena, denb in (((), ()), ((2,), ()), ((), (3,)), ((1,), ())):
                    if (dena or denb) and rng.random() < 0.5:
                        continue
                    ca = 'Vector' if dena else vec_cls(n, rng)
                    cb = 'Vector' if denb else vec_cls(n, rng)
                    a = opd(rng, ca, sa, [n], dena, st); b = opd(rng, cb, sb, [n], denb, st)
                    if not dena and not denb and rng.random() < 0.4:
                        structure_vectors(rng, b, rng.choice(['zero', 'axis', 'par']), a)
                    add(fin({'op': 'dot', 'via': 'vdot', 'a': a, 'b': b, 'reject': bad}))
                    add(fin({'op': 'outer', 'via': 'vouter', 'a': a, 'b': opd(rng, 'Vector', sb, [rng.randint(1, 4)], denb, st), 'reject': bad}))
                    if n in (2, 3):
                        add(fin({'op': 'cross', 'via': 'vcross', 'a': a, 'b': b, 'reject': bad}))
                    add(fin({'op': 'emul', 'a': a, 'b': b, 'reject': bad}))
                    if not dena and not denb:
                        d = opd(rng, cb, sb, [n], (), 'pow2')
                        add(fin({'op': 'ediv', 'a': a, 'b': d, 'reject': bad}))
                        add(fin({'op': 'normsq', 'via': 'method', 'a': a}))
                        add(fin({'op': 'norm', 'via': 'method', 'a': a, 'noreq': True}))
                # mismatching lengths are rejected
                add(fin({'op': 'dot', 'via': 'vdot', 'a': opd(rng, 'Vector', sa, [n]), 'b': opd(rng, 'Vector', sb, [n % 4 + 1]), 'reject': True}))
            # both operands with a denominator: rejected
            add(fin({'op': 'dot', 'via': 'vdot', 'a': opd(rng, 'Vector', sa, [3], (2,)), 'b': opd(rng, 'Vector', sb, [3], (2,)), 'reject': True}))

        # ---------------------------------------------------------------- matrix products, rectangular, with denominators
        for sa, sb in pairs(rng, thorough, bad=True):
            bad = np_bcast(sa, sb) is None
            for _k in range(3):
                m, k, n = rng.randint(1, 4), rng.randint(1, 4), rng.randint(1, 4)
                st = exact_style(rng)
                a = opd(rng, 'Matrix', sa, [m, k], (), st)
                add(fin({'op': 'dot', 'via': 'matmul', 'a': a, 'b': opd(rng, 'Matrix', sb, [k, n], (), st), 'reject': bad}))
                add(fin({'op': 'dot', 'via': 'matmul', 'a': a, 'b': opd(rng, vec_cls(k, rng), sb, [k], (), st), 'reject': bad}))
                add(fin({'op': 'dot', 'via': 'matmul', 'a': a, 'b': opd(rng, 'Vector', sb, [k], (2,), st), 'reject': bad}))
                add(fin({'op': 'dot', 'via': 'matmul', 'a': opd(rng, 'Matrix', sa, [m, k], (2,), st), 'b': opd(rng, 'Matrix', sb, [k, n], (), st), 'reject': bad}))
                add(fin({'op': 'dot', 'via': 'matmul', 'a': a, 'b': opd(rng, 'Matrix', sb, [k % 4 + 1, n], (), st), 'reject': True}))
                # generic axes, including negative and out-of-range ones
                b = opd(rng, 'Matrix', sb, [rng.choice([m, k]), n], (), st)
                for ax1, ax2 in ((0, 0), (1, 0), (-1, 0), (-2, 0), (0, 1), (1, 1), (-1, -1), (0, -2)):
                    ok = a['numer'][ax1] == b['numer'][ax2]
                    if ok or rng.random() < 0.3:
                        add(fin({'op': 'dot', 'via': 'qube', 'a': a, 'b': b, 'ax1': ax1, 'ax2': ax2, 'reject': bad or not ok}))
                ax = rng.choice([2, -3, 5])
                add(fin({'op': 'dot', 'via': 'qube', 'a': a, 'b': b, 'ax1': ax, 'ax2': 0, 'reject': True}))
                add(fin({'op': 'dot', 'via': 'qube', 'a': a, 'b': b, 'ax1': 0, 'ax2': ax, 'reject': True}))
                v = opd(rng, 'Vector', sb, [a['numer'][0]], (), st)
                add(fin({'op': 'dot', 'via': 'qube', 'a': a, 'b': v, 'ax1': 0, 'ax2': 0, 'reject': bad}))
                add(fin({'op': 'dot', 'via': 'qube', 'a': v, 'b': a, 'ax1': -1, 'ax2': -2, 'reject': bad}))
                # cross / outer / norm_sq / transpose on matrices
                c3 = opd(rng, 'Matrix', sa, [3, m], (), st); d3 = opd(rng, 'Matrix', sb, [n, 3], (), st)
                add(fin({'op': 'cross', 'via': 'qube', 'a': c3, 'b': d3, 'ax1': 0, 'ax2': 1, 'reject': bad}))
                add(fin({'op': 'cross', 'via': 'qube', 'a': d3, 'b': c3, 'ax1': -1, 'ax2': -2, 'reject': bad}))
                add(fin({'op': 'cross', 'via': 'qube', 'a': d3, 'b': opd(rng, 'Vector', sa, [3], (2,), st), 'ax1': 1, 'ax2': 0,
                         'reject': np_bcast(sb, sa) is None}))
                c2 = opd(rng, 'Matrix', sa, [m, 2], (), st)
                add(fin({'op': 'cross', 'via': 'qube', 'a': c2, 'b': opd(rng, 'Pair', sb, [2], (), st), 'ax1': 1, 'ax2': 0, 'reject': bad}))
                add(fin({'op': 'cross', 'via': 'qube', 'a': a, 'b': a, 'ax1': 0, 'ax2': 0, 'reject': m not in (2, 3)}))
                add(fin({'op': 'outer', 'via': 'qube', 'a': a, 'b': opd(rng, 'Vector', sb, [n], (), st), 'reject': bad}))
                add(fin({'op': 'outer', 'via': 'qube', 'a': opd(rng, 'Vector', sa, [m], (2,), st), 'b': opd(rng, 'Matrix', sb, [k, n], (), st), 'reject': bad}))
                add(fin({'op': 'normsq', 'via': 'qube', 'a': a, 'ax1': rng.choice([0, 1, -1, -2])}))
                add(fin({'op': 'normsq', 'via': 'qube', 'a': a, 'ax1': rng.choice([2, -3]), 'reject': True}))
                add(fin({'op': 'norm', 'via': 'qube', 'a': a, 'ax1': rng.choice([0, 1, -1, -2]), 'noreq': True}))
                for via in ('transpose', 'T'):
                    add(fin({'op': 'transpose', 'via': via, 'a': a}))
                add(fin({'op': 'transpose', 'via': 'numer', 'a': opd(rng, 'Matrix', sa, [m, k], (2,), st), 'ax1': rng.choice([0, 1, -1]), 'ax2': rng.choice([0, 1, -2])}))
                add(fin({'op': 'transpose', 'via': 'numer', 'a': a, 'ax1': rng.choice([2, -3]), 'ax2': 0, 'reject': True}))

        # ---------------------------------------------------------------- rotate / unrotate with exact matrices
        for sa, sb in pairs(rng, thorough):
            for _k in range(2):
                R = signed_perm(rng, sa) if rng.random() < 0.6 else opd(rng, 'Matrix3', sa, [3, 3], (), 'int')
                R['mask'] = rand_mask(rng, sa)
                for b in (opd(rng, 'Vector3', sb, [3]), opd(rng, 'Matrix', sb, [3, rng.randint(1, 4)]), opd(rng, 'Vector3', sb, [3], (2,)),
                          opd(rng, 'Matrix3', sb, [3, 3])):
                    add(fin({'op': 'dot', 'via': rng.choice(['rotate', 'unrotate']), 'a': R, 'b': b, 'edge': True}))

        # ---------------------------------------------------------------- quaternions
        for sa, sb in pairs(rng, thorough, bad=True):
            bad = np_bcast(sa, sb) is None
            st = exact_style(rng)
            p = opd(rng, 'Quaternion', sa, [4], (), st); q = opd(rng, 'Quaternion', sb, [4], (), st)
            if rng.random() < 0.4:
                structure_vectors(rng, q, rng.choice(['zero', 'axis']))
            add(fin({'op': 'qmul', 'a': p, 'b': q, 'reject': bad}))
            add(fin({'op': 'qconj', 'a': p}))
            add(fin({'op': 'toparts', 'a': q}))
            add(fin({'op': 'fromparts', 'a': opd(rng, 'Scalar', sa, [], (), st), 'b': opd(rng, 'Vector3', sb, [3], (), st), 'reject': bad}))
            add(fin({'op': 'qrecip', 'a': q, 'mode': 'q'}))
            add(fin({'op': 'qtomat', 'a': q, 'mode': 'q'}))
            if not bad:
                add(fin({'op': 'qdiv', 'a': p, 'b': q, 'noreq': True}))
                add(fin({'op': 'qm_hom', 'a': p, 'b': q, 'noreq': True}))
            add(fin({'op': 'q2m2q', 'a': opd(rng, 'Quaternion', sa, [4], (), rng.choice(['int', 'float'])), 'noreq': True}))

        # ---------------------------------------------------------------- unit / perp / proj / sep / ucross / with_norm
        for sa, sb in pairs(rng, thorough):
            for n in (1, 2, 3, 4):
                st = rng.choice(['int', 'dyad', 'float'])
                a = opd(rng, vec_cls(n, rng), sa, [n], (), st); b = opd(rng, vec_cls(n, rng), sb, [n], (), st)
                kind = rng.choice(['zero', 'axis', 'par', None])
                if kind:
                    structure_vectors(rng, b, kind, a)
                e = bool(kind)
                add(fin({'op': 'unit', 'a': b, 'mode': 'q', 'edge': e}))
                add(fin({'op': 'perp', 'a': a, 'b': b, 'mode': 'q', 'edge': e}))
                add(fin({'op': 'proj', 'a': a, 'b': b, 'mode': 'q', 'edge': e}))
                add(fin({'op': 'with_norm', 'a': b, 'n': rng.choice([2.0, 0.5, 3.0]), 'noreq': True, 'edge': e}))
                if n in (2, 3):
                    add(fin({'op': 'sep', 'a': a, 'b': b, 'noreq': True, 'edge': e}))
                if n == 3:
                    add(fin({'op': 'ucross', 'a': a, 'b': b, 'noreq': True, 'edge': e}))

        # ---------------------------------------------------------------- axis rotations
        for sh in SHAPES1:
            for via in ('x', 'y', 'z', 'axis'):
                for edge in (False, True):
                    c = {'op': 'rot', 'via': via, 'a': angle(rng, sh, edge), 'edge': edge}
                    if via == 'axis':
                        c['axis'] = rng.choice([0, 1, 2, 3, 4, 5, -1, -2])
                    add(fin(c))
        for sa, sb in pairs(rng, thorough):
            add(fin({'op': 'pole', 'a': angle(rng, sa), 'b': angle(rng, sb), 'mode': 'q'}))

        # ---------------------------------------------------------------- Euler angles, all 24 conventions
        trip = [([], [], []), ([3], [3], [3]), ([2], [], [2, 1]), ([], [2], []), ([1], [3], [1]), ([0], [], [0]), ([2, 2], [2], [])]
        for axes in AXES:
            for si, sj, sk in (trip if thorough else [trip[0], trip[rng.randrange(1, len(trip))], trip[rng.randrange(1, len(trip))]]):
                for edge in (False, True):
                    ai, aj, ak = angle(rng, si, edge, 0.2), angle(rng, sj, edge, 0.2), angle(rng, sk, edge, 0.2)
                    if not si and not sj and not sk:
                        ai['mask'] = aj['mask'] = ak['mask'] = 'F'      # every convention is seen unmasked
                    add(fin({'op': 'euler', 'axes': axes, 'ai': ai, 'aj': aj, 'ak': ak, 'mode': 'q', 'edge': edge}))
                    add(fin({'op': 'qeuler', 'axes': axes, 'ai': ai, 'aj': aj, 'ak': ak, 'mode': 'q', 'edge': edge}))
                    add(fin({'op': 'm2q2m', 'axes': axes, 'ai': ai, 'aj': aj, 'ak': ak, 'noreq': True, 'edge': edge}))
                    sb = rng.choice([[], [3], [2, 1]])
                    if np_bcast(np_bcast(si, sj) or [], sk) is not None and np_bcast(np_bcast(np_bcast(si, sj), sk), sb) is not None:
                        b = opd(rng, 'Vector3', sb, [3], (), 'float') if rng.random() < 0.6 else opd(rng, 'Matrix', sb, [3, 2], (), 'float')
                        add(fin({'op': 'rotinv', 'axes': axes, 'ai': ai, 'aj': aj, 'ak': ak, 'b': b, 'rev': rng.random() < 0.5, 'noreq': True}))

        # ---------------------------------------------------------------- from_matrix3 on exact and Euler-built rotations
        for sh in SHAPES1:
            R = signed_perm(rng, sh); R['mask'] = rand_mask(rng, sh)
            add(fin({'op': 'm2q', 'a': R, 'mode': 'q', 'edge': True}))
            I = {'cls': 'Matrix3', 'shape': list(sh), 'numer': [3, 3], 'denom': [], 'vals': [1., 0, 0, 0, 1., 0, 0, 0, 1.] * size(sh),
                 'mask': rand_mask(rng, sh)}
            add(fin({'op': 'm2q', 'a': I, 'mode': 'q', 'edge': True}))
            for edge in (False, True):
                add(fin({'op': 'm2q', 'a': euler_matrix(rng, sh, edge), 'mode': 'q', 'edge': edge}))
        # ---------------------------------------------------------------- unitary: perturbed rotations, some singular
        for sh in SHAPES1:
            m = euler_matrix(rng, sh, rng.random() < 0.3)
            m['cls'] = 'Matrix'
            m['vals'] = [x + rng.uniform(-1e-3, 1e-3) for x in m['vals']]
            if size(sh) and rng.random() < 0.4:
                k = rng.randrange(size(sh))
                m['vals'][9 * k:9 * k + 9] = [0.0] * 9            # a singular element
                bits = mask_bits(m['mask'], sh); bits[k] = True   # ... which the caller has masked
                m['mask'] = rng.choice(mask_reps(bits, sh))
            add(fin({'op': 'unitary', 'a': m, 'noreq': True}))
        # ---------------------------------------------------------------- to_euler, all 24 conventions
        for axes in AXES:
            sh = rng.choice(SHAPES1)
            add(fin({'op': 'toeuler', 'axes': axes, 'a': dict(signed_perm(rng, sh), mask=rand_mask(rng, sh)), 'mode': 'q', 'edge': True}))
            for edge in (False, True):
                sh = rng.choice(SHAPES1)
                add(fin({'op': 'toeuler', 'axes': axes, 'a': euler_matrix(rng, sh, edge), 'mode': 'q', 'edge': edge}))
            add(fin({'op': 'toeuler', 'axes': axes, 'a': dict(euler_matrix(rng, [], False), mask='F'), 'mode': 'q'}))

        # ---------------------------------------------------------------- inverse
        for sh in SHAPES1:
            for n in (1, 2, 3, 4):
                for nz in (False, True):
                    a = inv_operand(rng, sh, n, singular=not nz)
                    c = {'op': 'inverse', 'a': a, 'nozeros': nz, 'mode': 'q', 'edge': True}
                    if not det_exact(a):
                        c['noreq'] = True
                    add(fin(c))
                # scale classes: the same well-conditioned / exactly singular matrices times an exact power of two.
                # Scaling by 2^e is exact in float64, so inv scales by 2^-e, det by 2^(n e), and singularity is unchanged;
                # values are judged by the oracle with a tolerance relative to the reference, the model decides shape + mask
                for e in rng.sample(SCALE_EXPONENTS, 3):
                    a = scaled(inv_operand(rng, sh, n, singular=True), e)
                    c = {'op': 'inverse', 'a': a, 'via': rng.choice(['inverse', 'reciprocal', 'rtruediv']), 'mode': 'm', 'edge': True,
                         'scale': e}
                    if not det_exact(a):
                        c['noreq'] = True
                    add(fin(c, 'inverse/scaled'))
            b = inv_operand(rng, sh, 3, singular=True)
            add(fin({'op': 'mdiv', 'a': opd(rng, 'Matrix', sh, [2, 3], (), 'int'), 'b': b, 'noreq': True}))
            for e in rng.sample(SCALE_EXPONENTS, 2):
                n = rng.randint(1, 4)
                b = scaled(inv_operand(rng, sh, n, singular=True), e)
                add(fin({'op': 'mdiv', 'via': rng.choice(['div', 'idiv']), 'a': scaled(opd(rng, 'Matrix', sh, [rng.randint(1, 3), n], (), 'int'), rng.choice(SCALE_EXPONENTS)),
                         'b': b, 'noreq': True, 'scale': e}, 'mdiv/scaled'))

        # ---------------------------------------------------------------- every matrix-product form, in place and out of place
        for sa, sb in pairs(rng, thorough):
            out = np_bcast(sa, sb)
            for _k in range(2):
                st = exact_style(rng)
                m, k = rng.randint(1, 4), rng.randint(1, 4)
                cls = rng.choice(['Matrix', 'Matrix3'])
                if cls == 'Matrix3':
                    m = k = 3
                a = opd(rng, cls, sa, [m, k], (), st)
                b = opd(rng, cls, sb, [k, k], (), st)
                if cls == 'Matrix3' and rng.random() < 0.5:
                    a = dict(signed_perm(rng, sa), mask=rand_mask(rng, sa)); b = dict(signed_perm(rng, sb), mask=rand_mask(rng, sb))
                # masked operand on either side, in every representation whose expansion is the drawn mask
                for rep_b in mask_reps(mask_bits(b['mask'], sb), sb):
                    bb = dict(b, mask=rep_b)
                    add(fin({'op': 'dot', 'via': 'matmul', 'a': a, 'b': bb}))
                    if out == list(sa):                       # the product fits into the left operand: M *= N
                        add(fin({'op': 'dot', 'via': 'imatmul', 'a': a, 'b': bb}))
                for rep_a in mask_reps(mask_bits(a['mask'], sa), sa):
                    aa = dict(a, mask=rep_a)
                    add(fin({'op': 'dot', 'via': 'matmul', 'a': aa, 'b': b}))
                    if out == list(sa):
                        add(fin({'op': 'dot', 'via': 'imatmul', 'a': aa, 'b': b}))
                # fully masked right operand (the single value True) and Matrix * Vector
                add(fin({'op': 'dot', 'via': 'matmul', 'a': a, 'b': dict(b, mask='T')}))
                if out == list(sa):
                    add(fin({'op': 'dot', 'via': 'imatmul', 'a': a, 'b': dict(b, mask='T')}))
                add(fin({'op': 'dot', 'via': 'matmul', 'a': a, 'b': opd(rng, vec_cls(k, rng), sb, [k], (), st)}))
                # products with a Scalar, both orders, in place, and division (zero divisors are masked)
                s_ = opd(rng, 'Scalar', sb, [], (), 'pow2')
                for via in ('mul', 'rmul', 'div') + (('imul', 'idiv') if out == list(sa) else ()):
                    # (Matrix3 * Scalar is documented to return the Scalar - "rotating a scalar" - so the generic Matrix class is used)
                    add(fin({'op': 'mscal', 'via': via, 'a': dict(a, cls='Matrix'), 'b': s_, 'noreq': True}))

        # ---------------------------------------------------------------- twovec / spin / from_rotation
        for sa, sb in pairs(rng, thorough):
            a = opd(rng, 'Vector3', sa, [3], (), 'float'); b = opd(rng, 'Vector3', sb, [3], (), 'float')
            kind = rng.choice(['zero', 'axis', 'par', None])
            if kind:
                structure_vectors(rng, b, kind, a)        # parallel / antiparallel / zero / axis-aligned second vector
            if rng.random() < 0.3:
                structure_vectors(rng, a, rng.choice(['zero', 'axis']))
            for a1 in range(3):
                for a2 in range(3):
                    if a1 != a2 and rng.random() < 0.35:
                        add(fin({'op': 'twovec', 'a': a, 'axis1': a1, 'b': b, 'axis2': a2, 'mode': 'q', 'edge': bool(kind)}))
            pole = opd(rng, 'Vector3', sb, [3], (), 'int')
            for e in range(size(sb)):                       # no zero poles (unspecified)
                if not any(pole['vals'][3 * e:3 * e + 3]):
                    pole['vals'][3 * e] = 1.0
            ang = angle(rng, rng.choice([[], sa]))
            if np_bcast(np_bcast(sa, sb) or [], ang['shape']) is not None:
                add(fin({'op': 'spin', 'a': a, 'b': pole, 'c': ang, 'noreq': True}))
            add(fin({'op': 'qrot', 'a': angle(rng, sa), 'b': pole, 'mode': 'q'}))
            zp = structure_vectors(rng, opd(rng, 'Vector3', sb, [3], (), 'int'), 'zero')
            add(fin({'op': 'qrot', 'a': angle(rng, sa), 'b': zp, 'mode': 'q', 'edge': True}))
    # ---------------------------------------------------------------- operand dtype kinds (int, float, bool), both orders
    # A copy of every out-of-place bilinear case with the dtype kind of each operand drawn independently: an operand is
    # re-drawn with integer (or 0/1) values and built as an int64 (bool) array, the other one keeps its dyadic float
    # values, so int x float, float x int, int x int and bool mixtures all occur and the rational reference stays exact.
    extra = []
    for c in cases:
        if c['op'] not in DTYPE_OPS or c.get('via') == 'imatmul' or c.get('reject') or rng.random() < 0.5:
            continue
        v = {k: x for k, x in c.items() if k not in ('req', 'id', 'kind', 'nontrivial')}
        kinds = []
        for key in ('a', 'b'):
            o = v.get(key)
            if not isinstance(o, dict):
                continue
            kind = rng.choice(['int', 'int', 'float', 'bool'])
            if kind == 'int':
                o = dict(o, vals=[float(rng.randint(-3, 3)) for _ in o['vals']], dtype='int')
            elif kind == 'bool':
                o = dict(o, vals=[float(rng.randint(0, 1)) for _ in o['vals']], dtype='bool')
            else:
                o = dict(o, vals=[rng.randint(-16, 16) / 8.0 for _ in o['vals']])     # genuinely fractional partner
            if kind != 'float' and o['cls'] == 'Vector3':
                o = dict(o, cls='Vector')      # Vector3 converts integers to float on construction; the generic Vector keeps them
            v[key] = o
            kinds.append(kind)
        if all(k == 'float' for k in kinds):
            continue
        v['dtypes'] = kinds
        v['edge'] = True
        extra.append(fin(v, c['kind'] + '/dtype'))
    cases += extra
    return cases


DTYPE_OPS = ('dot', 'cross', 'outer', 'emul', 'normsq')


def signed_perm(rng, shape):
    """rotations by multiples of pi/2: signed permutation matrices with determinant +1 (exact in float64)"""
    vals = []
    for _ in range(size(shape)):
        while True:
            p = [0, 1, 2]; rng.shuffle(p)
            m = np.zeros((3, 3))
            for r, c in enumerate(p):
                m[r, c] = rng.choice([1., -1.])
            if round(np.linalg.det(m)) == 1:
                break
        vals += [float(x) for x in m.ravel()]
    return {'cls': 'Matrix3', 'shape': list(shape), 'numer': [3, 3], 'denom': [], 'vals': vals, 'mask': 'F'}


def euler_matrix(rng, shape, edge):
    """rotation matrices computed here from random / edge angles with the textbook axis rotations"""
    from c16_ref import euler_ref
    vals = []
    for _ in range(size(shape)):
        a = [rng.choice(EDGE_ANGLES) if (edge or rng.random() < 0.25) else round(rng.uniform(-7, 7), 3) for _ in range(3)]
        m = euler_ref(rng.choice(AXES), *a)
        vals += [float(x) for x in np.asarray(m).ravel()]
    return {'cls': 'Matrix3', 'shape': list(shape), 'numer': [3, 3], 'denom': [], 'vals': vals, 'mask': rand_mask(rng, list(shape))}


SCALE_EXPONENTS = [-40, -30, -20, -13, -7, 7, 13, 20, 30, 40]


def scaled(o, e):
    """the operand times 2^e (exact in float64)"""
    return dict(o, vals=[float(v) * 2.0 ** e for v in o['vals']])


def inv_operand(rng, shape, n, singular=True):
    vals = []
    for _ in range(size(shape)):
        mode = rng.random()
        if singular and mode < 0.3:
            m = np.zeros((n, n))
            if mode < 0.2 and n > 1:
                m = np.array([[float(rng.randint(-2, 2)) for _ in range(n)] for _ in range(n)])
                m[rng.randrange(n)] = 0.0                   # a zero row
            elif mode < 0.25 and n > 1:
                m = np.array([[float(rng.randint(-2, 2)) for _ in range(n)] for _ in range(n)])
                m[1] = m[0]                                  # a repeated row
        else:
            # unit-triangular factors keep the determinant small and the matrix well conditioned
            while True:
                L = np.tril(np.array([[float(rng.randint(-1, 1)) for _ in range(n)] for _ in range(n)]), -1) + np.eye(n)
                U = np.triu(np.array([[float(rng.randint(-1, 1)) for _ in range(n)] for _ in range(n)]), 1)
                U += np.diag([rng.choice([1., -1., 2., .5]) for _ in range(n)])
                m = L @ U
                if rng.random() < 0.5:
                    m = m[list(rng.sample(range(n), n))]
                if np.linalg.cond(m) < 1e3:
                    break
        vals += [float(x) for x in m.ravel()]
    return {'cls': 'Matrix', 'shape': list(shape), 'numer': [n, n], 'denom': [], 'vals': vals, 'mask': rand_mask(rng, list(shape))}


def det_exact(o):
    """True when np.linalg.det agrees with the exact determinant about (non-)singularity for every element"""
    from fractions import Fraction
    n = o['numer'][0]
    arr = np.array(o['vals'], dtype=float).reshape(-1, n, n)
    for m in arr:
        f = [[Fraction(float(x)) for x in row] for row in m]
        if (exact_det(f) == 0) != (np.linalg.det(m) == 0):
            return False
    return True


def exact_det(f):
    n = len(f)
    if n == 0:
        return 1
    if n == 1:
        return f[0][0]
    return sum((-1) ** c * f[0][c] * exact_det([row[:c] + row[c + 1:] for row in f[1:]]) for c in range(n))


def neighbours(case):
    """shrunk variants: drop masks, shrink to a single element"""
    res = []
    for k in ('a', 'b', 'ai', 'aj', 'ak'):
        o = case.get(k)
        if isinstance(o, dict) and o['mask'] not in ('F',):
            c = json.loads(json.dumps({x: y for x, y in case.items() if x not in ('req', 'id')}))
            c[k]['mask'] = 'F'
            res.append(fin(c, case.get('kind')))
    return res
