"""C08 — read-only objects cannot be changed through the public API."""
import os, pickle, itertools
import numpy as np
from absn import *
import common as C
import c08_py2lean

PROP = 'C08'
LEAN_MODULES = ['PMV.Props.C08']
PARALLEL = True
MANIFEST = {
    'text': 'Kernel-checked theorems (PMV/Props/C08.lean) about a code-shaped state machine over buffers, NumPy ndarray '
            'objects (each with its own WRITEABLE flag; views inherit it at creation) and polymath objects '
            '(Model/ReadOnly.lean): the flag/array agreement invariant holds after every history of calls (induction), every '
            'guarded mutator on a read-only object returns ValueError with the state unchanged (override=True the documented '
            'exception), every derivation / unpickling of a read-only object is read-only with non-writeable arrays, copy() is '
            'writable and independent, and a sealed read-only object keeps its observable state along every later history of '
            'public calls and direct array writes; the pre-freeze-view history is proved as a counterexample (known finding). '
            'The guard-before-write table of all mutators is regenerated from the source on every run and closed by decide. '
            'Tied to /repo by replaying whole histories on the real classes and on the compiled model and diffing exception '
            'classes, read-only flags, WRITEABLE flags and change bits of every object after every step.',
    'design': 'DESIGN.md §3 C08, §8.1; DESIGN.d/C08.md',
    'technique': 'Lean 4 proof (invariant by induction over histories, frame lemmas, decide on a regenerated table) + '
                 'model/code correspondence on histories',
    'note': 'Trusted: Lean kernel; hand-written model Model/ReadOnly.lean (checked against the code by the correspondence '
            'run); the translator harness/c08_py2lean.py; NumPy flag semantics (views inherit WRITEABLE, writes through '
            'non-writeable arrays raise). Writes through array views taken BEFORE the freeze are known finding KF-C08-1.',
}
RULE = ('a case is one history: build objects (5 classes, ranks 0-2, mask scalar True/False/array, derivatives, units), make '
        'one read-only by as_readonly / broadcast_to / class constant / unpickling / derivation, then mutators with every '
        'argument kind on every object and direct writes through arrays of every derived object; quick: breadth-first '
        'over a 14-symbol alphabet to depth 2 plus random histories to depth 12; thorough: breadth-first to depth 4 plus '
        'random to depth 30; non-trivial = at least one object is read-only when a mutator or direct write is attempted; '
        'distinct = distinct request line (or history for oracle-only cases)')
ASSUMPTIONS = ['NumPy: a view gets the WRITEABLE flag of its base at creation, clearing the flag of one ndarray object '
               'leaves other ndarray objects alone, a write through a non-writeable ndarray raises ValueError; nobody sets '
               'WRITEABLE back to True (not part of the public API of polymath)',
               'which elements a derived array shows and whether NumPy returns a view or a copy are computed with plain '
               'NumPy on index arrays and passed to the model as data',
               'derivatives have no derivatives of their own (insert_deriv stores deriv.wod)',
               'sealed_constant assumes that when the object was frozen no writeable ndarray object onto its buffers '
               'existed outside it (hypothesis Sealed); the other case is known finding KF-C08-1']
TRUSTED_EXTRA = ['translator harness/c08_py2lean.py (ast path enumeration of the mutators) and the syntax subset it accepts']

KEYS = ['t', 'u', 'x']
CLASSES8 = {'Scalar': (Scalar, ()), 'Vector3': (Vector3, (3,)), 'Pair': (Pair, (2,)), 'Matrix': (Matrix, (2, 2)),
            'Boolean': (Boolean, ()), 'Matrix3': (Matrix3, (3, 3))}
CONSTS = {'Scalar.ONE': ('Scalar', ()), 'Scalar.MASKED': ('Scalar', ()), 'Vector3.ZAXIS': ('Vector3', ()),
          'Vector3.ZERO_POS_VEL': ('Vector3', ()), 'Matrix.IDENTITY2': ('Matrix', ()), 'Pair.HALF': ('Pair', ()),
          'Boolean.TRUE': ('Boolean', ()), 'Matrix3.IDENTITY': ('Matrix3', ())}


def units_of(u):
    return {0: None, 1: Units.KM, 2: Units.CM}[u]


def regen():
    return c08_py2lean.regen(C.VERIF)


# ------------------------------------------------------------------ derivations: (on the object, on an index array)
def _full(a_ndim, nshape, lead):
    return lead + (slice(None),) * (a_ndim - nshape)

HOW = {
    # name: (applicable(shape, cls), qube fn(q, rec), values fn(a, nshape), mask fn(m), mode, takes recursive)
    'i0':      (lambda sh, c: len(sh) >= 1 and sh[0] >= 1, lambda q, r: q[0], lambda a, n: a[0], lambda m: m[0], 'view', False),
    'tail':    (lambda sh, c: len(sh) >= 1 and sh[0] >= 2, lambda q, r: q[1:], lambda a, n: a[1:], lambda m: m[1:], 'view', False),
    'rev':     (lambda sh, c: len(sh) >= 1 and sh[0] >= 2, lambda q, r: q[::-1], lambda a, n: a[::-1], lambda m: m[::-1], 'view', False),
    'last0':   (lambda sh, c: len(sh) >= 2 and sh[-1] >= 1, lambda q, r: q[..., 0],
                lambda a, n: a[(slice(None),) * (n - 1) + (0,)], lambda m: m[..., 0], 'view', False),
    'fancy':   (lambda sh, c: len(sh) >= 1 and sh[0] >= 2, lambda q, r: q[np.array([0, q.shape[0] - 1])],
                lambda a, n: a[np.array([0, a.shape[0] - 1])], lambda m: m[np.array([0, m.shape[0] - 1])], 'copy', False),
    'boolidx': (lambda sh, c: len(sh) >= 1 and sh[0] >= 2, lambda q, r: q[np.arange(q.shape[0]) == 0],
                lambda a, n: a[np.arange(a.shape[0]) == 0], lambda m: m[np.arange(m.shape[0]) == 0], 'copy', False),
    'reshape': (lambda sh, c: len(sh) == 2, lambda q, r: q.reshape((q.shape[0] * q.shape[1],), r),
                lambda a, n: a.reshape((a.shape[0] * a.shape[1],) + a.shape[2:]), lambda m: m.reshape(-1), 'auto', True),
    'reshape2': (lambda sh, c: len(sh) == 1 and sh[0] >= 1, lambda q, r: q.reshape((q.shape[0], 1), r),
                 lambda a, n: a.reshape((a.shape[0], 1) + a.shape[1:]), lambda m: m.reshape(-1, 1), 'auto', True),
    'flatten': (lambda sh, c: len(sh) == 2, lambda q, r: q.flatten(r),
                lambda a, n: a.reshape((a.shape[0] * a.shape[1],) + a.shape[2:]), lambda m: m.reshape(-1), 'auto', True),
    'swap':    (lambda sh, c: len(sh) == 2, lambda q, r: q.swap_axes(0, 1, r), lambda a, n: np.swapaxes(a, 0, 1),
                lambda m: np.swapaxes(m, 0, 1), 'view', True),
    'roll':    (lambda sh, c: len(sh) == 2, lambda q, r: q.roll_axis(1, 0, r), lambda a, n: np.rollaxis(a, 1, 0),
                lambda m: np.rollaxis(m, 1, 0), 'view', True),
    'move':    (lambda sh, c: len(sh) == 2, lambda q, r: q.move_axis(0, 1, r), lambda a, n: np.moveaxis(a, 0, 1),
                lambda m: np.moveaxis(m, 0, 1), 'view', True),
    'bcast':   (lambda sh, c: True, lambda q, r: q.broadcast_to((2,) + q.shape, r),
                lambda a, n: np.broadcast_to(a, (2,) + a.shape), lambda m: np.broadcast_to(m, (2,) + m.shape), 'bcast', True),
    # broadcasts that only ADD unit axes (nothing is repeated, the result still shares the source's memory), and the
    # same through Qube.broadcast(x, other)
    'bcast1':  (lambda sh, c: True, lambda q, r: q.broadcast_to((1,) + q.shape, r),
                lambda a, n: np.broadcast_to(a, (1,) + a.shape), lambda m: np.broadcast_to(m, (1,) + m.shape), 'bcast', True),
    'bcast11': (lambda sh, c: True, lambda q, r: q.broadcast_to((1, 1) + q.shape, r),
                lambda a, n: np.broadcast_to(a, (1, 1) + a.shape), lambda m: np.broadcast_to(m, (1, 1) + m.shape), 'bcast', True),
    'bcastfn': (lambda sh, c: True, lambda q, r: Qube.broadcast(q, Scalar(np.ones((2,) + q.shape)), recursive=r)[0],
                lambda a, n: np.broadcast_to(a, (2,) + a.shape), lambda m: np.broadcast_to(m, (2,) + m.shape), 'bcast', True),
    'bcastfn1': (lambda sh, c: True, lambda q, r: Qube.broadcast(q, Scalar(np.ones((1,) + q.shape)), recursive=r)[0],
                 lambda a, n: np.broadcast_to(a, (1,) + a.shape), lambda m: np.broadcast_to(m, (1,) + m.shape), 'bcast', True),
    'xnumer':  (lambda sh, c: c in ('Vector3', 'Pair'), lambda q, r: q.extract_numer(0, 1, Scalar, r),
                lambda a, n: a[..., 1], None, 'keepmask', True),
    'tnumer':  (lambda sh, c: c == 'Matrix', lambda q, r: q.transpose_numer(0, 1, r), lambda a, n: np.swapaxes(a, -2, -1),
                None, 'keepmask', True),
    'snumer':  (lambda sh, c: c == 'Vector3', lambda q, r: q.slice_numer(0, 0, 2, Vector, r), lambda a, n: a[..., 0:2],
                None, 'keepmask', True),
    # item operations whose cast() converts the data type: new values array, the SAME mask object (oracle only)
    'swapcast': (lambda sh, c: c == 'Boolean', lambda q, r: q.swap_items(Scalar), lambda a, n: a, None, 'unmodelled', False),
    'splitcast': (lambda sh, c: c == 'Boolean', lambda q, r: q.split_items(0, Scalar), lambda a, n: a, None, 'unmodelled', False),
    'xnumcast': (lambda sh, c: c in ('Vector3', 'Pair'), lambda q, r: q.extract_numer(0, 1, Boolean, r),
                 lambda a, n: a[..., 1], None, 'unmodelled', True),
    'slicecast': (lambda sh, c: c == 'Vector3', lambda q, r: q.slice_numer(0, 0, 2, Boolean, r), lambda a, n: a[..., 0:2],
                  None, 'unmodelled', True),
}
BCAST_LEAD = {'bcast': (2,), 'bcast1': (1,), 'bcast11': (1, 1), 'bcastfn': (2,), 'bcastfn1': (1,)}
# non-mutating operations whose mask-and-replace paths run at domain boundaries (0, negative numbers)
NONMUT = {
    'reciprocal': lambda q: q.reciprocal(), 'mask_where_eq': lambda q: q.mask_where_eq(0., 1.),
    'mask_where_le': lambda q: q.mask_where_le(0., 1.), 'mask_where_ne': lambda q: q.mask_where_ne(0.),
    'mask_where_ge': lambda q: q.mask_where_ge(0., 1.), 'mask_where_lt': lambda q: q.mask_where_lt(0.),
    'mask_where_between': lambda q: q.mask_where_between(-1., 1., 7.), 'mask_where_outside': lambda q: q.mask_where_outside(1., 3., 7.),
    'clip': lambda q: q.clip(1., 3.), 'sqrt': lambda q: q.sqrt(), 'log': lambda q: q.log(), 'arcsin': lambda q: q.arcsin(),
    'arccos': lambda q: q.arccos(), 'num/q': lambda q: Scalar(5.) / q, 'q/q': lambda q: q / q, '1/q': lambda q: 1. / q,
    'q//q': lambda q: q // q, 'q%q': lambda q: q % q, 'q/0': lambda q: q / 0., 'q**-1': lambda q: q ** -1,
    'q**.5': lambda q: q ** 0.5, 'sign': lambda q: q.sign(), 'abs': lambda q: abs(q), 'q+q': lambda q: q + q, 'q*q': lambda q: q * q,
    'q-1': lambda q: q - 1., 'as_all_masked': lambda q: q.as_all_masked(), 'mask_where': lambda q: q.mask_where(q == 0., 3.),
    'remask': lambda q: q.remask(True), 'max': lambda q: q.max(), 'sum': lambda q: q.sum(), 'mean': lambda q: q.mean(),
    'eq': lambda q: q == q, 'lt': lambda q: q < 1., 'int': lambda q: q.as_int(), 'float': lambda q: q.as_float(),
}
MUT_KINDS = ['setitem', 'iop', 'setunits', 'deld', 'delds', 'insd', 'insds']
IOPS = ['+=', '-=', '*=', '/=', '//=', '%=', '&=', '|=', '^=']
SETITEM_ARGS = ['number', 'qube', 'masked', 'array', 'bool', 'list']


# ------------------------------------------------------------------ observing real objects
def W(a):
    return bool(a.flags.writeable) if isinstance(a, np.ndarray) else 'S'

def core_snap(q):
    v = q._values_
    vb = np.asarray(v).tobytes() + str(np.shape(v)).encode()
    mb = np.broadcast_to(np.asarray(q._mask_, dtype=bool), q._shape_).tobytes()
    u = q._units_      # not str(): Units.name of a shared constant can be None on trees without the fix of defect 13
    return (vb, mb, None if u is None else (tuple(u.exponents), tuple(u.triple)))

def snap(q):
    return (core_snap(q), tuple((k, core_snap(d)) for k, d in sorted(q._derivs_.items())))

def snap_repr(q):
    return (snap(q), isinstance(q._mask_, np.ndarray),
            tuple(isinstance(d._mask_, np.ndarray) for k, d in sorted(q._derivs_.items())))

def arrays_of(q):
    res = [q._values_, q._mask_]
    for d in q._derivs_.values():
        res += [d._values_, d._mask_]
    return [a for a in res if isinstance(a, np.ndarray)]

def flags_of(q):
    return [bool(q._readonly_), W(q._values_), W(q._mask_)]

def var_obs(q, changed):
    return flags_of(q) + [bool(changed)] + [[KEYS.index(k)] + flags_of(d) for k, d in sorted(q._derivs_.items())]

def base_chain(a):
    while isinstance(a, np.ndarray):
        yield a
        a = a.base

def mask_class(q, mask=None):
    """what the pickle encoder sees: none / all / mixed, and whether the values hidden under a mixed mask differ from
    the default that decoding puts there (then the decoded bytes are not those of the source)"""
    if not isinstance(q._values_, np.ndarray):
        return 'none'
    m = np.broadcast_to(np.asarray(q._mask_ if mask is None else mask, dtype=bool), q._shape_)
    if np.all(m):
        return 'all'
    if not np.any(m):
        return 'none'
    hidden = q._values_[m]
    lossy = bool(np.any(hidden != np.broadcast_to(np.asarray(q._default_), hidden.shape)))
    return 'mixedlossy' if lossy else 'mixed'

def deriv_mask_class(q, d):
    """a derivative is encoded under its parent's antimask when the parent's mask is a mixed array"""
    if mask_class(q).startswith('mixed'):
        c = mask_class(d, mask=q._mask_)
        return c if c.startswith('mixed') else 'mixed'
    return mask_class(d)


# ------------------------------------------------------------------ the real executor
class Real:
    def __init__(self):
        self.vars, self.users = [], []
        self.born_v, self.born_u = [], []
        self.step = 0
        self.counter = 0

    def fresh(self):
        self.counter += 1
        return 1000.5 + 97.03125 * self.counter      # never met again by adding the small operands of the in-place ops

    def build(self, op):
        cls, item = CLASSES8[op['cls']]
        shape = tuple(op['shape'])
        n = int(np.prod(shape + item, dtype=int))
        if op['cls'] == 'Boolean':
            vals = (np.arange(n) % 2 == 0).reshape(shape + item)
        else:
            vals = (np.arange(n) + 10.5 + 100 * len(self.vars)).reshape(shape + item)
        if not shape and not item:
            vals = vals.item() if op['cls'] != 'Boolean' else bool(vals)
        m = op['mask']
        if m == 'A':
            mask = (np.arange(int(np.prod(shape, dtype=int))) % 2 == 1).reshape(shape)
        else:
            mask = (m == 'T')
        return cls(vals, mask)

    def setitem_arg(self, q, kind, index):
        cls = type(q)
        item = q._item_
        v = self.fresh()
        if q.is_bool():
            base = True
        else:
            base = v
        if kind == 'number':
            return base if not item else cls(np.full(item, base))
        if kind == 'qube':
            return cls(np.full(item, base)) if item else cls(base)
        if kind == 'masked':
            return cls(np.full(item, base), True)
        if kind == 'array':
            tgt = np.shape(np.empty(q._shape_)[index])
            return np.full(tgt + item, base)
        if kind == 'bool':
            return True if not item else cls(np.full(item, 1.))
        if kind == 'list':
            return [base] * item[0] if len(item) == 1 else (base if not item else np.full(item, base).tolist())
        raise KeyError(kind)

    def iop_arg(self, q, kind):
        cls = type(q)
        item = q._item_
        if kind == 'number':
            return 2
        if kind == 'float':
            return 0.25
        if kind == 'qube':
            return cls(np.full(item, 2.)) if item else cls(2.)
        if kind == 'scalar':
            return Scalar(2.)
        if kind == 'array':
            return np.full(q._shape_ + item, 2.)
        if kind == 'masked':
            return cls(np.full(item, 2.), True) if item else cls(2., True)
        if kind == 'string':
            return 'abc'
        raise KeyError(kind)

    @staticmethod
    def do_iop(q, sym, arg):
        if sym == '+=': q += arg
        elif sym == '-=': q -= arg
        elif sym == '*=': q *= arg
        elif sym == '/=': q /= arg
        elif sym == '//=': q //= arg
        elif sym == '%=': q %= arg
        elif sym == '&=': q &= arg
        elif sym == '|=': q |= arg
        elif sym == '^=': q ^= arg
        else: raise KeyError(sym)
        return q

    def index_of(self, op):
        return {'i0': 0, 'tail': slice(1, None), 'all': slice(None), 'ell': Ellipsis, 'neg1': -1}[op['index']]

    def call(self, op):
        """perform one op on the real objects; returns None | ('obj', q) | ('usr', a); exceptions propagate"""
        k = op['op']
        V = self.vars
        if k == 'mk':
            return ('obj', self.build(op))
        if k == 'mkv':
            # an object with given numbers (domain boundaries: 0, negative, ...), shape () or shaped
            cls = CLASSES8[op['cls']][0]
            vals = op['vals'] if not isinstance(op['vals'], list) else np.array(op['vals'], dtype=float)
            m = op['mask']
            mask = (np.arange(len(op['vals'])) % 2 == 1) if m == 'A' else (m == 'T')
            return ('obj', cls(vals, mask))
        if k == 'mkp':
            # constructor provenance: the caller's own NumPy arrays, each pre-frozen or not; the caller keeps both
            cls, item = CLASSES8[op['cls']]
            shape = tuple(op['shape'])
            n = int(np.prod(shape + item, dtype=int))
            vals = (np.arange(n) + 10.5).reshape(shape + item)
            if op['cls'] == 'Matrix3':
                vals = np.broadcast_to(np.eye(3), shape + (3, 3)).copy()
            if op['cls'] == 'Boolean':
                vals = (np.arange(n) % 2 == 0).reshape(shape + item)
            vals.flags.writeable = not op['vfrozen']
            self.users.append(vals); self.born_u.append(self.step)
            if op['mfrozen'] is None:
                mask = False
            else:
                mask = (np.arange(int(np.prod(shape, dtype=int))) % 2 == 1).reshape(shape)
                mask.flags.writeable = not op['mfrozen']
                self.users.append(mask); self.born_u.append(self.step)
            return ('obj', cls(vals, mask))
        if k == 'nm':
            NONMUT[op['name']](V[op['v']])
            return None
        if k == 'const':
            cname, attr = op['name'].split('.')
            return ('obj', getattr(CLASSES8[cname][0], attr))
        if k == 'derive':
            return ('obj', HOW[op['how']][1](V[op['v']], op['rec']))
        if k == 'wod':
            return ('obj', V[op['v']].wod)
        if k == 'clone':
            return ('obj', V[op['v']].clone(recursive=op['rec']))
        if k == 'copy':
            return ('obj', V[op['v']].copy(recursive=op['rec'], readonly=op['ro']))
        if k == 'neg':
            return ('obj', -V[op['v']])
        if k == 'pickle':
            return ('obj', pickle.loads(pickle.dumps(V[op['v']])))
        if k == 'getderiv':
            return ('obj', getattr(V[op['v']], 'd_d' + KEYS[op['k']]))
        if k == 'rawref':
            q = V[op['v']]
            a = q.mask if op['mask'] else q.values
            if not isinstance(a, np.ndarray):
                raise RuntimeError('not an array')
            return ('usr', a)
        if k == 'rawview':
            q = V[op['v']]
            a = q.mask if op['mask'] else q.values
            if not isinstance(a, np.ndarray):
                raise RuntimeError('not an array')
            return ('usr', a[0:1] if a.ndim else a[...])
        if k == 'setitem':
            q = V[op['v']]
            idx = self.index_of(op)
            q[idx] = self.setitem_arg(q, op['arg'], idx)
            return None
        if k == 'iop':
            q = V[op['v']]
            r = self.do_iop(q, op['sym'], self.iop_arg(q, op['arg']))
            assert r is q or op['sym'] in ('+=', '-=', '*=', '/=') and type(q).__name__ == 'Polynomial'
            return None
        if k == 'setunits':
            q = V[op['v']]
            if op['ov'] == 'default': q.set_units(units_of(op['u']))
            else: q.set_units(units_of(op['u']), override=op['ov'])
            return None
        if k == 'deld':
            q = V[op['v']]
            if op['ov'] == 'default': q.delete_deriv(KEYS[op['k']])
            else: q.delete_deriv(KEYS[op['k']], override=op['ov'])
            return None
        if k == 'delds':
            q = V[op['v']]
            if op['ov'] == 'default': q.delete_derivs()
            else: q.delete_derivs(override=op['ov'])
            return None
        if k == 'insd':
            q = V[op['v']]
            if op['ov'] == 'default': q.insert_deriv(KEYS[op['k']], V[op['d']])
            else: q.insert_deriv(KEYS[op['k']], V[op['d']], override=op['ov'])
            return None
        if k == 'insds':
            q = V[op['v']]
            d = {KEYS[kk]: V[dd] for kk, dd in op['kds']}
            if op['ov'] == 'default': q.insert_derivs(d)
            else: q.insert_derivs(d, override=op['ov'])
            return None
        if k == 'asro':
            q = V[op['v']]
            r = q.as_readonly() if op['rec'] == 'default' else q.as_readonly(recursive=op['rec'])
            assert r is q
            return None
        if k == 'reqw':
            V[op['v']].require_writable()
            return None
        if k == 'write':
            a = self.users[op['u']]
            pos = op['pos']
            if a.dtype == bool:
                a.flat[pos] = ~a.flat[pos] if len(pos) > 1 else [not a.flat[pos[0]]]
            else:
                a.flat[pos] = [self.fresh() for _ in pos]
            return None
        raise KeyError(k)

    def run(self, op):
        """returns result name; appends new vars/users"""
        self.step += 1
        try:
            r = self.call(op)
        except Exception as e:
            return C.exc_name(e)
        if r is None:
            return 'ok'
        if r[0] == 'obj':
            self.vars.append(r[1]); self.born_v.append(self.step)
            return 'obj'
        self.users.append(r[1]); self.born_u.append(self.step)
        return 'usr'


def target_arrays(R, op):
    """the ndarray objects a mutating op writes through (for the pre-freeze-alias classification)"""
    if op['op'] == 'write':
        return [R.users[op['u']]] if op['u'] < len(R.users) else []
    if 'v' in op and op['v'] < len(R.vars):
        return arrays_of(R.vars[op['v']])
    return []


# ------------------------------------------------------------------ request fragments (need the real pre-state: shapes, strides)
def idx_list(fn, arr, *extra):
    ids = np.arange(arr.size).reshape(arr.shape)
    return [int(x) for x in np.asarray(fn(ids, *extra)).ravel()]

def request_of(R, op):
    """the model op for `op`, computed BEFORE it runs, from input-side facts only"""
    k = op['op']
    V = R.vars
    B = lambda b: bool(b)
    if k == 'mk':
        cls, item = CLASSES8[op['cls']]
        shape = tuple(op['shape'])
        n = int(np.prod(shape + item, dtype=int)); mn = int(np.prod(shape, dtype=int))
        if not shape and not item:
            return [['mks', op['mask'] == 'T', B(cls.UNITS_OK), B(cls.DERIVS_OK)]]
        m = op['mask'] if shape else op['mask']
        if not shape and m == 'A':
            return None
        return [['mk', n, mn, m, B(cls.UNITS_OK), B(cls.DERIVS_OK)]]
    if k == 'const':
        # a constant of the library is an object that was built and frozen when the package was imported
        q = getattr(CLASSES8[op['name'].split('.')[0]][0], op['name'].split('.')[1])
        cls = type(q)
        if q._derivs_ or isinstance(q._mask_, np.ndarray):
            return None                 # (ZERO_POS_VEL: its derivative would need a variable of its own)
        m = 'T' if bool(q._mask_) else 'F'
        if isinstance(q._values_, np.ndarray):
            main = ['mk', int(q._values_.size), 1, m, B(cls.UNITS_OK), B(cls.DERIVS_OK)]
        else:
            main = ['mks', m == 'T', B(cls.UNITS_OK), B(cls.DERIVS_OK)]
        return [['seq', main, ['asro', len(V), True]]]
    q = V[op['v']] if 'v' in op and op['v'] < len(V) else None
    if q is None and k != 'write':
        return None
    if k == 'derive':
        ok, qf, vf, mf, mode, takes = HOW[op['how']]
        if mode == 'unmodelled':
            return None
        vals, mask = q._values_, q._mask_
        nsh = len(q._shape_)
        if not isinstance(vals, np.ndarray):
            if mode != 'bcast':
                return None
            vidx = [0] * int(np.prod(BCAST_LEAD[op['how']] + q._shape_ + q._item_, dtype=int))
            return [['derive', op['v'], 'bcast', vidx, [], 'A', op['rec'], []]]
        vidx = idx_list(vf, vals, nsh)

        def mask_sel(m):
            """(midx, msc) of one mask: which cells the derived mask array shows, or the single bool it becomes"""
            if not isinstance(m, np.ndarray) or mf is None:
                return [], 'A'
            r = mf(m)
            if np.ndim(r) == 0:
                return [], bool(r)          # a derived mask of shape () is a single bool (its value is data)
            return idx_list(lambda x: mf(x), m), 'A'

        def how_view(v, m):
            """does NumPy hand back views (True) or copies (False) for this object's arrays?  None: mixed"""
            vview = np.shares_memory(v, vf(v, nsh)) if v.size else True
            if isinstance(m, np.ndarray) and mf is not None:
                mview = np.shares_memory(m, mf(m)) if m.size else True
                if mview != vview:
                    return None
            return vview

        if np.ndim(vf(vals, nsh)) == 0:
            mode = 'scalar'                 # NumPy hands back a single number
        if mode == 'auto':
            vw = how_view(vals, mask)
            if vw is None:
                return None
            for d in q._derivs_.values():
                if op['rec'] and isinstance(d._values_, np.ndarray) and how_view(d._values_, d._mask_) != vw:
                    return None             # the derivative's arrays are laid out differently
            mode = 'view' if vw else 'copy'
        midx, msc = mask_sel(mask)
        dsel = []
        for kk, d in q._derivs_.items():
            dm, ds = mask_sel(d._mask_)
            dsel.append([KEYS.index(kk), dm, ds])
        return [['derive', op['v'], mode, vidx, midx, msc, op['rec'], dsel]]
    if k == 'wod':
        return [['wod', op['v']]]
    if k == 'neg':
        # the class of the result: `-Boolean` is a Scalar (units and derivatives allowed), otherwise the operand's class
        rc = Scalar if type(q).__name__ == 'Boolean' else type(q)
        return [['neg', op['v'], B(rc.UNITS_OK), B(rc.DERIVS_OK)]]
    if k == 'clone':
        return [['clone', op['v'], op['rec']]]
    if k == 'copy':
        return [['copy', op['v'], op['rec'], op['ro']]]
    if k == 'pickle':
        return [['pickle', op['v'], mask_class(q), [[KEYS.index(kk), deriv_mask_class(q, d)] for kk, d in q._derivs_.items()]]]
    if k == 'getderiv':
        return [['getderiv', op['v'], op['k']]]
    if k == 'rawref':
        return [['rawref', op['v'], op['mask']]]
    if k == 'rawview':
        a = q._mask_ if op['mask'] else q._values_
        if not isinstance(a, np.ndarray):
            return None
        return [['rawview', op['v'], op['mask'], idx_list(lambda i: i[0:1] if i.ndim else i[...], a)]]
    if k == 'setitem':
        if op['index'] in ('all', 'ell'):
            return [['setall', op['v']]]        # "consistent with shapeless indexing": the arrays are replaced
        if not isinstance(q._values_, np.ndarray) or not q._shape_:
            return [['setitem', op['v'], [], [], 0]] if q._readonly_ else None
        idx = R.index_of(op)
        pos = idx_list(lambda i: i[idx], q._values_)
        mpos = idx_list(lambda i: i[idx], np.empty(q._shape_))
        return [['setitem', op['v'], pos, mpos, int(np.prod(q._shape_, dtype=int))]]
    if k == 'iop':
        fast = q._rank_ == 0
        return [['iop', op['v'], fast, unsupported_iop(q, op['sym'])]]
    if k == 'setunits':
        return [['setunits', op['v'], op['u'], False if op['ov'] == 'default' else op['ov']]]
    if k == 'deld':
        return [['deld', op['v'], op['k'], False if op['ov'] == 'default' else op['ov']]]
    if k == 'delds':
        return [['delds', op['v'], False if op['ov'] == 'default' else op['ov']]]
    if k == 'insd':
        return [['insd', op['v'], op['k'], op['d'], True if op['ov'] == 'default' else op['ov']]]
    if k == 'insds':
        return [['insds', op['v'], [[kk, dd] for kk, dd in op['kds']], False if op['ov'] == 'default' else op['ov']]]
    if k == 'asro':
        return [['asro', op['v'], True if op['rec'] == 'default' else op['rec']]]
    if k == 'reqw':
        return [['reqw', op['v']]]
    if k == 'write':
        return [['write', op['u'], op['pos']]]
    return None


_GUARD_TABLE = None
IOP_NAMES = {'+=': '__iadd__', '-=': '__isub__', '*=': '__imul__', '/=': '__itruediv__', '//=': '__ifloordiv__',
             '%=': '__imod__', '&=': '__iand__', '|=': '__ior__', '^=': '__ixor__'}

def unsupported_iop(q, sym):
    """the operator is refused before require_writable() is reached: the class overrides it with an unconditional raise
    (read off the regenerated guard table: every path of the defining method starts with `raise`), or it is `/=` on an
    object that does not hold floats (qube.py `__itruediv__`, first statement)"""
    global _GUARD_TABLE
    if _GUARD_TABLE is None:
        _GUARD_TABLE = {(owner, name): paths for owner, name, f, line, paths in c08_py2lean.extract()}
    name = IOP_NAMES[sym]
    for klass in type(q).__mro__:
        if name in klass.__dict__:
            paths = _GUARD_TABLE.get((klass.__name__, name))
            if paths is not None and all(evs and evs[0][0] == 'raise' for evs, ov in paths):
                return True
            break
    return sym == '/=' and not q.is_float()


def modelled(R, op):
    """is the (successful) behaviour of this op on the current real state inside the modelled fragment?"""
    k = op['op']
    if k == 'const':
        return True
    if k in ('mkv', 'mkp', 'nm'):
        return False            # oracle only
    q = R.vars[op['v']] if 'v' in op and op['v'] < len(R.vars) else None
    if q is not None and q._derivs_ and any(p is not q and p._cache_.get('wod') is q for p in R.vars):
        return False        # a cached `wod` object that was given derivatives: its own cache points at itself
    if k == 'iop' and unsupported_iop(q, op['sym']):
        # the class (or the data type) refuses the operator before anything else: TypeError -- except that the helper
        # that raises it trips over an ndarray operand (ValueError from the truth value of an array; C19's subject)
        return op['arg'] != 'array'
    if q is not None and q._readonly_ and k in ('setitem', 'iop'):
        # rejected before the arguments are looked at: every argument kind is inside the model
        return True
    if k == 'setitem' and op['index'] in ('all', 'ell'):
        return op['arg'] == 'number' and isinstance(q._values_, np.ndarray) and bool(q._shape_) and not q.is_bool()
    if k == 'setitem':
        return op['arg'] == 'number' and op['index'] in ('i0', 'tail', 'neg1') and isinstance(q._values_, np.ndarray) \
            and bool(q._shape_) and not (q._derivs_ and getattr(R, 'derivs_zeroed', False)) \
            and q._values_.flags.writeable \
            and len(idx_list(lambda i: i[R.index_of(op)], np.empty(q._shape_))) > 0 and not q.is_bool()
    if k == 'iop':
        cname = type(q).__name__
        if op['sym'] not in ('+=', '-='):
            return False
        return (cname == 'Scalar' and op['arg'] in ('number', 'float') and q.is_float()) or \
               (cname in ('Vector3', 'Pair', 'Matrix') and op['arg'] == 'qube' and q.is_float())
    if k == 'insd' or k == 'insds':
        pairs = [(op['k'], op['d'])] if k == 'insd' else op['kds']
        for kk, dd in pairs:
            if dd >= len(R.vars):
                return False
            d = R.vars[dd]
            if type(d) is not type(q) or d._shape_ != q._shape_ or not d.is_float() or d is q:
                return False
            old = q._derivs_.get(KEYS[kk])
            if old is not None and core_snap(old) == core_snap(d) and not (old._values_ is d._values_ and old._mask_ is d._mask_):
                return False    # replaced by an equal derivative held in other arrays: the model's stamps cannot see
                                # that two different arrays have equal contents
        return True
    if k == 'setunits':
        return True
    return True


# ------------------------------------------------------------------ running a history
def _const_objects():
    res = []
    for n in CONSTS:
        c = getattr(CLASSES8[n.split('.')[0]][0], n.split('.')[1])
        res.append(c)
        res.extend(c._derivs_.values())
        w = c._cache_.get('wod')
        if isinstance(w, Qube):
            res.append(w)
    return res

class constants_restored:
    """The shared constants of the library (Scalar.ONE, Vector3.ZAXIS, ...) take part in histories as themselves, and the
    documented exceptions (override=True, insertion of a new derivative) do change them.  Whatever a history did to
    their attributes is undone afterwards, so that the next history of this process meets them as they were at import.
    (Their arrays are non-writeable; if a history manages to write into one, that is a violation reported on the spot,
    and the bytes are restored too.)"""
    def __enter__(self):
        self.saved = []
        for c in _const_objects():
            d = dict(c.__dict__)
            d['_derivs_'] = dict(c._derivs_)
            d['_cache_'] = dict(c._cache_)
            arrs = [(k, v.copy(), v.flags.writeable) for k, v in c.__dict__.items() if isinstance(v, np.ndarray)]
            self.saved.append((c, d, arrs))
        return self
    def __exit__(self, *exc):
        for c, d, arrs in self.saved:
            c.__dict__.clear()
            c.__dict__.update(d)
            c._derivs_ = dict(d['_derivs_'])
            c._cache_ = dict(d['_cache_'])
            for k, v, w in arrs:
                a = c.__dict__[k]
                if not np.array_equal(a, v):
                    a.flags.writeable = True
                    a[...] = v
                a.flags.writeable = w
        return False


def run_history(case, judge=False):
    with constants_restored():
        return _run_history(case, judge)


def _run_history(case, judge=False):
    """returns (observations, failures).  observations mirror the driver's output; failures = [(signature, what)]"""
    R = Real()
    obs, fails = [], []
    frozen_at = {}          # id(var object) -> (step, set of ids of writable outside aliases at that time, how)
    shallow = set()         # ids of objects frozen without their derivatives
    keep = []
    for t, op in enumerate(case['hist']):
        before = [snap(q) for q in R.vars]
        before_r = [snap_repr(q) for q in R.vars]
        before_ro = [bool(q._readonly_) for q in R.vars]
        tgt = target_arrays(R, op)
        tgt_writable = [a for a in tgt if a.flags.writeable]
        nv = len(R.vars)
        res = R.run(op)
        after = [snap(q) for q in R.vars]
        changed = [i < nv and before[i] != after[i] for i in range(len(R.vars))]
        # the change bit that is compared with the model also counts a change of the mask REPRESENTATION
        # (a bool vs an array): the model's masks are stamps, it cannot tell that an array is all False
        after_r = [snap_repr(q) for q in R.vars]
        changed_r = [i < nv and before_r[i] != after_r[i] for i in range(len(R.vars))]
        obs.append([res, [var_obs(q, changed_r[i]) for i, q in enumerate(R.vars)], [W(a) for a in R.users]])
        if not judge:
            continue
        k = op['op']
        # arrays that became part of a read-only object in this step (the object was frozen, or a derivative was
        # inserted into it and frozen): record whether a writable ndarray onto the same memory exists outside the object
        for i, q in enumerate(R.vars):
            if not q._readonly_:
                continue
            if id(q) not in frozen_at:
                frozen_at[id(q)] = (t, {}, k)
                keep.append(q)
                if (k == 'asro' and op['rec'] is False) or (k == 'derive' and op['how'] in BCAST_LEAD and i == op['v']
                                                            and not op['rec']):
                    shallow.add(id(q))
            known_arrays = frozen_at[id(q)][1]
            own = arrays_of(q)
            own_ids = {id(a) for a in own}
            # an operation that hands back a read-only object sharing memory with its SOURCE (broadcast_to, broadcast)
            # has the source in its hands and documents that it locks it: the source's own arrays are not "views the
            # operation cannot reach", so a later write through them is not the known finding
            reach_ids = set()
            if i >= nv and k in ('derive', 'wod', 'clone', 'copy') and op['v'] < len(R.vars):
                reach_ids = {id(a) for a in arrays_of(R.vars[op['v']])}
            for b in own:
                if id(b) in known_arrays:
                    continue
                outside = False
                for p_ in R.vars:
                    for a in arrays_of(p_):
                        if id(a) not in own_ids and id(a) not in reach_ids and a.flags.writeable and np.shares_memory(a, b):
                            outside = True
                for a in R.users:
                    if id(a) not in own_ids and a.flags.writeable and np.shares_memory(a, b):
                        outside = True
                known_arrays[id(b)] = outside
                keep.append(b)
        desc = '%s%s' % (k, ':' + str(op.get('how') or op.get('sym') or op.get('arg') or '') if k in ('derive', 'iop', 'setitem') else '')
        # (1) guarded mutators on a read-only target are rejected with ValueError and change nothing
        if k in MUT_KINDS and op['v'] < nv and before_ro[op['v']]:
            q = R.vars[op['v']]
            guarded = True
            if k in ('setunits', 'deld', 'delds') and op['ov'] is True:
                guarded = False
            if k == 'insd':
                guarded = (op['ov'] is False) and KEYS[op['k']] in dict(before[op['v']][1])
            if k == 'insds':
                guarded = (op['ov'] in (False, 'default')) and any(KEYS[kk] in dict(before[op['v']][1]) for kk, _ in op['kds'])
            if guarded:
                if res in ('ok', 'obj', 'usr'):
                    fails.append(('accepted:' + desc, 'step %d: %s on a read-only %s was accepted' % (t, desc, type(q).__name__)))
                elif res != 'ValueError' and not twin_raises(R, op, res):
                    fails.append(('wrong-exception:%s:%s' % (desc, res), 'step %d: %s on a read-only object raised %s, not ValueError'
                                  % (t, desc, res)))
                if changed[op['v']]:
                    fails.append(('rejected-but-changed:' + desc, 'step %d: rejected %s changed the read-only object' % (t, desc)))
        # (2) no step changes an object that was read-only before it, documented exceptions aside
        for i in range(nv):
            if not (before_ro[i] and changed[i]):
                continue
            q = R.vars[i]
            tq = R.vars[op['v']] if k in MUT_KINDS and op['v'] < len(R.vars) else None
            if tq is not None and (tq is q or any(tq is d for d in q._derivs_.values())) and not (k in ('setitem', 'iop')):
                if k in ('setunits', 'deld', 'delds', 'insd', 'insds') and (op['ov'] is True or op['ov'] == 'default' and k == 'insd'):
                    continue                    # override=True
                if k in ('insd', 'insds') and res == 'ok':
                    continue                    # only new keys can get here without override (checked under (1))
            if id(q) in shallow and before[i][0] == after[i][0]:
                continue                        # frozen with recursive=False: its derivatives were left writable on request
            fa = frozen_at.get(id(q))
            # NumPy: once every ndarray object of q is non-writeable, a writeable ndarray onto the same memory can only
            # descend from one that was writeable before q was frozen.  So: q had such outside aliases when it was frozen,
            # q's own arrays are all non-writeable, and the write went through a writeable array sharing q's memory.
            own = arrays_of(q)
            pre = fa is not None and k in ('setitem', 'iop', 'write') \
                and all(not a.flags.writeable for a in own) \
                and any(fa[1].get(id(b), False) and np.shares_memory(a, b) for a in tgt_writable for b in own)
            if pre:
                fails.append(('pre-freeze-alias:' + k, 'step %d: %s through an array object that existed and was writable before '
                              'the %s was frozen (step %d, %s) changed it' % (t, desc, type(q).__name__, fa[0], fa[2])))
            else:
                fails.append(('ro-changed:' + desc, 'step %d: %s changed read-only object #%d (%s)' % (t, desc, i, type(q).__name__)))
        # (3) flag and arrays agree; derivatives of a recursively frozen object are read-only
        for i, q in enumerate(R.vars):
            if q._readonly_:
                for nm, a in (('values', q._values_), ('mask', q._mask_)):
                    if isinstance(a, np.ndarray) and a.flags.writeable:
                        fails.append(('flag-array:%s:%s' % (frozen_at.get(id(q), (0, 0, k))[2] if i < nv else desc, nm),
                                      'step %d (%s): object #%d is read-only but its %s array is writeable' % (t, desc, i, nm)))
                # "objects that share its storage (... wod) are read-only too": the derivative-free view the object
                # hands out as `.wod` is cached inside it; as_readonly() reaches it whatever `recursive` says
                w = q._cache_.get('wod') if isinstance(getattr(q, '_cache_', None), dict) else None
                if isinstance(w, Qube) and w is not q and not w._readonly_:
                    fails.append(('wod-writable:' + desc, 'step %d (%s): object #%d is read-only but the wod it hands out '
                                  '(cached before it became read-only) is not; set_units / whole-object assignment on it go '
                                  'through and x.wod diverges from x' % (t, desc, i)))
                if id(q) not in shallow:
                    for kk, d in q._derivs_.items():
                        # "... and all its derivatives refuse direct writes as well"
                        for nm, a in (('values', d._values_), ('mask', d._mask_)):
                            if d._readonly_ and isinstance(a, np.ndarray) and a.flags.writeable:
                                fails.append(('flag-array:%s:deriv-%s' % (frozen_at.get(id(q), (0, 0, k))[2] if i < nv else desc, nm),
                                              'step %d (%s): derivative %s of read-only object #%d is flagged read-only but '
                                              'its %s array is writeable' % (t, desc, kk, i, nm)))
                        if not d._readonly_:
                            fails.append(('deriv-writable:' + desc, 'step %d (%s): derivative %s of read-only object #%d is not read-only'
                                          % (t, desc, kk, i)))
        # (4) non-mutating operations never fail because the operand is read-only
        if k in ('derive', 'wod', 'clone', 'copy', 'neg', 'pickle', 'getderiv') and op['v'] < nv and before_ro[op['v']] \
                and res not in ('obj',):
            if not twin_raises(R, op, res):
                fails.append(('nonmutating-failed:%s:%s' % (desc, res), 'step %d: %s failed with %s only because the operand is read-only'
                              % (t, desc, res)))
        # (4b) the inventory of non-mutating operations: a read-only operand and its writable twin fare alike
        if k == 'nm' and op['v'] < nv and before_ro[op['v']] and res != 'ok':
            if not twin_raises(R, op, res):
                fails.append(('nonmutating-failed:nm:%s:%s' % (op['name'], res), 'step %d: %s on read-only %s failed with %s, '
                              'the same call on a writable copy of the operand does not' % (t, op['name'],
                                                                                             type(R.vars[op['v']]).__name__, res)))
        # (5)-(7) what the new object must be
        if res == 'obj' and k in ('derive', 'wod', 'clone', 'copy', 'pickle') and before_ro[op['v']]:
            src, new = R.vars[op['v']], R.vars[-1]
            if k == 'copy' and not op['ro']:
                if new._readonly_ or any(not a.flags.writeable for a in arrays_of(new)):
                    fails.append(('copy-not-writable', 'step %d: copy() of a read-only object is not writable' % t))
                if any(np.shares_memory(a, b) for a in arrays_of(new) for b in arrays_of(src)):
                    fails.append(('copy-shares', 'step %d: copy() shares memory with its source' % t))
                if core_snap(new) != core_snap(src):
                    fails.append(('copy-differs', 'step %d: copy() is not equal to its source' % t))
            elif k == 'pickle':
                if not new._readonly_:
                    fails.append(('pickle-lost-readonly', 'step %d: the unpickled object is not read-only' % t))
            elif k in ('wod', 'clone') or (k == 'derive' and HOW[op['how']][4] != 'copy'
                                           and any(np.shares_memory(a, b) for a in arrays_of(new) for b in arrays_of(src))):
                if not new._readonly_:
                    fails.append(('derived-not-readonly:' + desc, 'step %d: %s of a read-only object shares its storage but is not '
                                  'read-only' % (t, desc)))
    return obs, fails


def twin_raises(R, op, res):
    """does the same call raise the same exception class on a writable, independent copy of the target?"""
    try:
        R2 = Real()
        R2.vars = list(R.vars); R2.users = list(R.users); R2.counter = R.counter
        R2.vars[op['v']] = R.vars[op['v']].copy()
        if 'd' in op:
            pass
        r = R2.run(op)
        return r == res
    except Exception:
        return False


# ------------------------------------------------------------------ check-module API
def impl(case):
    obs, _ = run_history(case)
    return obs

def oracle(case):
    _, fails = run_history(case, judge=True)
    if not fails:
        return None
    # report the first failure that is not the known pre-freeze alias, else that one
    for sig, what in fails:
        if not sig.startswith('pre-freeze-alias:'):
            return (sig, what + '   history: ' + brief(case))
    return (fails[0][0], fails[0][1] + '   history: ' + brief(case))

def brief(case):
    out = []
    for op in case['hist']:
        out.append(op['op'] + '(' + ','.join('%s=%s' % (k, v) for k, v in op.items() if k not in ('op', 'req')) + ')')
    return ' ; '.join(out)

def neighbours(case):
    """drop one step at a time (later steps first) as long as the handles stay meaningful"""
    h = case['hist']
    for i in range(len(h) - 1, 0, -1):
        if h[i]['op'] in ('mk', 'const', 'derive', 'wod', 'clone', 'copy', 'neg', 'pickle', 'getderiv', 'rawref', 'rawview'):
            continue            # creates a handle that later steps may use
        yield finish({'hist': h[:i] + h[i + 1:], 'kind': case.get('kind', '?')})


def finish(case):
    with constants_restored():
        return _finish(case)


def _finish(case):
    """compute the request from a real run of the history (input-side facts only) and the bookkeeping fields"""
    R = Real()
    reqs, ok = [], True
    nontrivial = False
    for op in case['hist']:
        if ok:
            if not modelled(R, op):
                ok = False
            else:
                try:
                    r = request_of(R, op)
                except Exception:
                    r = None
                if r is None:
                    ok = False
                else:
                    reqs += r
        if op['op'] in MUT_KINDS + ['write'] and any(q._readonly_ for q in R.vars):
            nontrivial = True
        before = R.derivs_zeroed if hasattr(R, 'derivs_zeroed') else False
        tgt = R.vars[op['v']] if op['op'] == 'setitem' and op['v'] < len(R.vars) else None
        res = R.run(op)
        if tgt is not None and res == 'ok' and (tgt._derivs_ or True):
            R.derivs_zeroed = True
    case['req'] = ['c08', 'hist', reqs] if ok else None
    case['nontrivial'] = nontrivial
    case['id'] = brief(case)
    return case


# ------------------------------------------------------------------ generation
def prefixes():
    """starting points: (name, ops).  Var 0 is always the principal object."""
    P = []
    for cls, shape, mask, nd in [('Scalar', [3], 'F', 0), ('Scalar', [2, 3], 'A', 1), ('Vector3', [2], 'A', 1),
                                 ('Scalar', [2, 2], 'T', 0), ('Matrix', [3], 'F', 0), ('Pair', [2, 2], 'A', 2),
                                 ('Scalar', [], 'F', 1), ('Vector3', [], 'F', 0), ('Boolean', [3], 'A', 0),
                                 ('Scalar', [1], 'A', 0)]:
        ops = [{'op': 'mk', 'cls': cls, 'shape': shape, 'mask': mask}]
        for j in range(nd):
            ops.append({'op': 'mk', 'cls': cls, 'shape': shape, 'mask': mask})
            ops.append({'op': 'insd', 'v': 0, 'k': j, 'd': j + 1, 'ov': 'default'})
        P.append(('%s%s%s%d' % (cls, shape, mask, nd), ops))
    return P


def applicable_hows(R, v):
    q = R.vars[v]
    return [h for h, spec in HOW.items() if spec[0](q._shape_, type(q).__name__)]


def symbol_ops(sym, R, rng):
    """expand one symbol of the breadth-first alphabet on the current real state (var 0 = principal, last = newest)"""
    last = len(R.vars) - 1
    lu = len(R.users) - 1
    b = R.vars[0]
    def first_how(v, names):
        a = applicable_hows(R, v)
        for n in names:
            if n in a:
                return n
        return None
    if sym == 'asro': return [{'op': 'asro', 'v': 0, 'rec': 'default'}]
    if sym in BCAST_LEAD: return [{'op': 'derive', 'v': 0, 'how': sym, 'rec': True}]
    if sym == 'view':
        h = first_how(0, ['i0', 'xnumer', 'tnumer'])
        return [{'op': 'derive', 'v': 0, 'how': h, 'rec': True}] if h else None
    if sym == 'view-last':
        h = first_how(last, ['swap', 'rev', 'reshape2', 'xnumer', 'tnumer'])
        return [{'op': 'derive', 'v': last, 'how': h, 'rec': True}] if h else None
    if sym == 'fancy':
        h = first_how(0, ['fancy'])
        return [{'op': 'derive', 'v': 0, 'how': h, 'rec': True}] if h else None
    if sym == 'wod': return [{'op': 'wod', 'v': 0}]
    if sym == 'copy': return [{'op': 'copy', 'v': 0, 'rec': True, 'ro': False}]
    if sym == 'pickle': return [{'op': 'pickle', 'v': 0}]
    if sym == 'setitem':
        return [{'op': 'setitem', 'v': 0, 'index': 'i0' if b._shape_ else 'ell', 'arg': 'number'}]
    if sym == 'setitem-last':
        q = R.vars[last]
        return [{'op': 'setitem', 'v': last, 'index': 'i0' if q._shape_ else 'ell', 'arg': 'number'}]
    if sym == 'iop':
        return [{'op': 'iop', 'v': 0, 'sym': '+=', 'arg': 'number' if type(b).__name__ in ('Scalar', 'Boolean') else 'qube'}]
    if sym == 'iop-last':
        q = R.vars[last]
        return [{'op': 'iop', 'v': last, 'sym': '-=', 'arg': 'number' if type(q).__name__ in ('Scalar', 'Boolean') else 'qube'}]
    if sym == 'rawwrite':
        if not isinstance(b._values_, np.ndarray) or b._values_.size == 0: return None
        return [{'op': 'rawref', 'v': 0, 'mask': False}, {'op': 'write', 'u': lu + 1, 'pos': [0]}]
    if sym == 'rawwrite-last':
        q = R.vars[last]
        if not isinstance(q._values_, np.ndarray) or q._values_.size == 0: return None
        return [{'op': 'rawview', 'v': last, 'mask': False}, {'op': 'write', 'u': lu + 1, 'pos': [0]}]
    if sym == 'maskwrite-last':
        q = R.vars[last]
        if not isinstance(q._mask_, np.ndarray) or q._mask_.size == 0: return None
        return [{'op': 'rawref', 'v': last, 'mask': True}, {'op': 'write', 'u': lu + 1, 'pos': [0]}]
    if sym == 'deld':
        return [{'op': 'deld', 'v': 0, 'k': 0, 'ov': 'default'}]
    if sym == 'deriv-setitem':
        if 't' not in b._derivs_ or not b._shape_: return None
        return [{'op': 'getderiv', 'v': 0, 'k': 0}, {'op': 'setitem', 'v': last + 1, 'index': 'i0', 'arg': 'number'}]
    raise KeyError(sym)

ALPHABET = ['asro', 'bcast', 'view', 'view-last', 'fancy', 'wod', 'copy', 'pickle', 'setitem', 'setitem-last', 'iop',
            'rawwrite', 'rawwrite-last', 'deld']
ALPHABET_X = ['iop-last', 'maskwrite-last', 'deriv-setitem', 'bcast1', 'bcastfn1']


def bfs_histories(depth, prefix_list, alphabet):
    for pname, pops in prefix_list:
        for n in range(1, depth + 1):
            for word in itertools.product(alphabet, repeat=n):
                # a word is interesting only if it freezes something or derives from something
                R = Real()
                hist = []
                for op in pops:
                    R.run(op); hist.append(op)
                ok = True
                for sym in word:
                    ops = symbol_ops(sym, R, None)
                    if ops is None:
                        ok = False; break
                    for op in ops:
                        R.run(op); hist.append(dict(op))
                if ok:
                    yield {'hist': hist, 'kind': 'bfs%d:%s' % (n, pname)}


def random_op(R, rng):
    """one random op on the current real state"""
    nv, nu = len(R.vars), len(R.users)
    v = rng.randrange(nv)
    # prefer read-only targets and recent objects
    ro = [i for i, q in enumerate(R.vars) if q._readonly_]
    if ro and rng.random() < 0.5:
        v = rng.choice(ro)
    elif rng.random() < 0.3:
        v = nv - 1
    q = R.vars[v]
    r = rng.random()
    if r < 0.22:
        hs = applicable_hows(R, v)
        if hs:
            h = rng.choice(hs)
            return {'op': 'derive', 'v': v, 'how': h, 'rec': True if not HOW[h][5] else rng.random() < 0.8}
    if r < 0.30:
        return rng.choice([{'op': 'wod', 'v': v}, {'op': 'clone', 'v': v, 'rec': rng.random() < 0.7},
                           {'op': 'copy', 'v': v, 'rec': rng.random() < 0.7, 'ro': rng.random() < 0.3},
                           {'op': 'neg', 'v': v}, {'op': 'pickle', 'v': v}])
    if r < 0.36:
        return {'op': 'asro', 'v': v, 'rec': rng.choice(['default', True, True, False])}
    if r < 0.40 and q._derivs_:
        return {'op': 'getderiv', 'v': v, 'k': KEYS.index(rng.choice(sorted(q._derivs_)))}
    if r < 0.50:
        m = rng.random() < 0.35
        if isinstance(q._mask_ if m else q._values_, np.ndarray):
            return {'op': rng.choice(['rawref', 'rawview']), 'v': v, 'mask': m}
    if r < 0.60 and nu:
        u = rng.randrange(nu) if rng.random() < 0.5 else nu - 1
        a = R.users[u]
        if a.size:
            n = min(a.size, rng.choice([1, 1, 2]))
            return {'op': 'write', 'u': u, 'pos': sorted(rng.sample(range(a.size), n))}
    if r < 0.70:
        return {'op': 'setitem', 'v': v, 'index': rng.choice(['i0', 'tail', 'all', 'neg1', 'ell'] if q._shape_ else ['ell']),
                'arg': rng.choice(SETITEM_ARGS) if (q._readonly_ or rng.random() < 0.3) else 'number'}
    if r < 0.80:
        if q._readonly_ or rng.random() < 0.3:
            return {'op': 'iop', 'v': v, 'sym': rng.choice(IOPS), 'arg': rng.choice(['number', 'float', 'qube', 'scalar', 'array', 'masked', 'string'])}
        return {'op': 'iop', 'v': v, 'sym': rng.choice(['+=', '-=']), 'arg': 'number' if type(q).__name__ == 'Scalar' else 'qube'}
    if r < 0.84:
        return {'op': 'setunits', 'v': v, 'u': rng.choice([0, 1, 2]), 'ov': rng.choice(['default', False, True])}
    if r < 0.88:
        return {'op': 'deld', 'v': v, 'k': rng.choice([0, 1, 2]), 'ov': rng.choice(['default', False, True])}
    if r < 0.90:
        return {'op': 'delds', 'v': v, 'ov': rng.choice(['default', False, True])}
    if r < 0.97:
        cands = [j for j, d in enumerate(R.vars) if type(d) is type(q) and d._shape_ == q._shape_ and j != v and d.is_float()]
        if cands:
            if rng.random() < 0.6:
                return {'op': 'insd', 'v': v, 'k': rng.choice([0, 1, 2]), 'd': rng.choice(cands), 'ov': rng.choice(['default', False, True])}
            return {'op': 'insds', 'v': v, 'kds': [[kk, rng.choice(cands)] for kk in rng.sample([0, 1, 2], rng.choice([1, 2]))],
                    'ov': rng.choice(['default', False, True])}
    return {'op': 'reqw', 'v': v}


def is_const(q):
    """a shared constant of the library, one of its derivative objects, or its cached wod"""
    for n in CONSTS:
        c = getattr(CLASSES8[n.split('.')[0]][0], n.split('.')[1])
        if q is c or any(q is d for d in c._derivs_.values()) or q is c._cache_.get('wod'):
            return True
    return False


def random_history(rng, depth, prefix_list):
    with constants_restored():
        return _random_history(rng, depth, prefix_list)


def _random_history(rng, depth, prefix_list):
    pname, pops = rng.choice(prefix_list)
    R = Real()
    hist = []
    for op in pops:
        R.run(op); hist.append(op)
    if rng.random() < 0.25:
        op = {'op': 'const', 'name': rng.choice(sorted(CONSTS))}
        R.run(op); hist.append(op)
    # make something read-only early
    n = rng.randint(2, depth)
    freeze_at = rng.randint(0, min(3, n - 1))
    for t in range(n):
        if t == freeze_at:
            op = rng.choice([{'op': 'asro', 'v': 0, 'rec': 'default'}, {'op': 'asro', 'v': 0, 'rec': 'default'},
                             {'op': 'derive', 'v': 0, 'how': 'bcast', 'rec': True},
                             {'op': 'pickle', 'v': 0}, {'op': 'copy', 'v': 0, 'rec': True, 'ro': True}])
        else:
            op = random_op(R, rng)
        R.derivs_zeroed = getattr(R, 'derivs_zeroed', False)
        R.run(op); hist.append(op)
        if len(R.vars) > 14:
            break
    return {'hist': hist, 'kind': 'random:' + pname}


def mutator_matrix(prefix_list):
    """every mutator with every argument kind on an object made read-only in every way"""
    ways = [('asro', [{'op': 'asro', 'v': 0, 'rec': 'default'}], 0),
            ('bcast-src', [{'op': 'derive', 'v': 0, 'how': 'bcast', 'rec': True}], 0),
            ('bcast-res', [{'op': 'derive', 'v': 0, 'how': 'bcast', 'rec': True}], -1),
            ('pickle', [{'op': 'asro', 'v': 0, 'rec': 'default'}, {'op': 'pickle', 'v': 0}], -1),
            ('view', [{'op': 'asro', 'v': 0, 'rec': 'default'}, {'op': 'derive', 'v': 0, 'how': 'rev', 'rec': True}], -1),
            ('fancy', [{'op': 'asro', 'v': 0, 'rec': 'default'}, {'op': 'derive', 'v': 0, 'how': 'fancy', 'rec': True}], -1),
            ('wod', [{'op': 'asro', 'v': 0, 'rec': 'default'}, {'op': 'wod', 'v': 0}], -1),
            ('swapcast', [{'op': 'asro', 'v': 0, 'rec': 'default'}, {'op': 'derive', 'v': 0, 'how': 'swapcast', 'rec': True}], -1),
            ('splitcast', [{'op': 'asro', 'v': 0, 'rec': 'default'}, {'op': 'derive', 'v': 0, 'how': 'splitcast', 'rec': True}], -1),
            ('xnumcast', [{'op': 'asro', 'v': 0, 'rec': 'default'}, {'op': 'derive', 'v': 0, 'how': 'xnumcast', 'rec': True}], -1),
            ('slicecast', [{'op': 'asro', 'v': 0, 'rec': 'default'}, {'op': 'derive', 'v': 0, 'how': 'slicecast', 'rec': True}], -1),
            ('copyro', [{'op': 'copy', 'v': 0, 'rec': True, 'ro': True}], -1)]
    for pname, pops in prefix_list:
        for wname, wops, tgt in ways:
            R = Real()
            hist = []
            okp = True
            for op in pops + wops:
                if op['op'] == 'derive' and (op['v'] >= len(R.vars) or op['how'] not in applicable_hows(R, op['v'])):
                    okp = False; break
                R.run(op); hist.append(op)
            if not okp:
                continue
            v = 0 if tgt == 0 else len(R.vars) - 1
            q = R.vars[v]
            muts = []
            for idx in (['i0', 'tail', 'all', 'neg1', 'ell'] if q._shape_ else ['ell']):
                for arg in SETITEM_ARGS:
                    muts.append({'op': 'setitem', 'v': v, 'index': idx, 'arg': arg})
            for sym in IOPS:
                for arg in ['number', 'float', 'qube', 'scalar', 'array', 'masked', 'string']:
                    muts.append({'op': 'iop', 'v': v, 'sym': sym, 'arg': arg})
            for ov in ['default', False, True]:
                for u in (0, 1, 2):
                    muts.append({'op': 'setunits', 'v': v, 'u': u, 'ov': ov})
                for k in (0, 1, 2):
                    muts.append({'op': 'deld', 'v': v, 'k': k, 'ov': ov})
                muts.append({'op': 'delds', 'v': v, 'ov': ov})
            yield wname, pname, hist, muts, v


def gen_cases(rng, tier):
    thorough = tier == 'thorough'
    P = prefixes()
    cases = []
    # 1. breadth-first over the alphabet
    depth = 4 if thorough else 2
    core = P[1:3] if thorough else P[:6]
    for c in bfs_histories(depth, core, ALPHABET):
        cases.append(c)
    if thorough:
        for c in bfs_histories(3, P[3:], ALPHABET):
            cases.append(c)
    for c in bfs_histories(2, P[:4], ALPHABET + ALPHABET_X):
        cases.append(c)
    # 2. every mutator x every argument kind x every way of being read-only; one history per group of mutators
    for wname, pname, hist, muts, v in mutator_matrix(P):
        group = 12
        for i in range(0, len(muts), group):
            extra = []
            # insert_deriv / insert_derivs with existing and new keys
            cases.append({'hist': hist + muts[i:i + group], 'kind': 'matrix:%s' % wname})
        R = Real()
        for op in hist:
            R.run(op)
        q = R.vars[v]
        d = {'op': 'copy', 'v': v, 'rec': False, 'ro': False}
        nd = len(R.vars)
        ins = [d]
        for ov in ['default', False, True]:
            for k in (0, 1, 2):
                ins.append({'op': 'insd', 'v': v, 'k': k, 'd': nd, 'ov': ov})
            ins.append({'op': 'insds', 'v': v, 'kds': [[0, nd], [2, nd]], 'ov': ov})
            ins.append({'op': 'insds', 'v': v, 'kds': [[2, nd]], 'ov': ov})
        cases.append({'hist': hist + ins, 'kind': 'matrix-derivs:%s' % wname})
    # 2b. the derivative-free view `wod`, queried and held BEFORE the object becomes read-only by each route
    #     (as_readonly with and without recursive, broadcast_to with and without recursive), then every kind of
    #     mutator and direct array write aimed at the held wod
    for pname, pops in P:
        R = Real()
        for op in pops:
            R.run(op)
        if not R.vars[0]._derivs_:
            continue
        w = len(R.vars)                         # the variable the wod will get
        routes = [[{'op': 'asro', 'v': 0, 'rec': 'default'}], [{'op': 'asro', 'v': 0, 'rec': False}],
                  [{'op': 'derive', 'v': 0, 'how': 'bcast', 'rec': True}], [{'op': 'derive', 'v': 0, 'how': 'bcast', 'rec': False}]]
        for route in routes:
            wv = w
            aims = [[{'op': 'setunits', 'v': wv, 'u': 1, 'ov': 'default'}],
                    [{'op': 'setitem', 'v': wv, 'index': 'ell', 'arg': 'number'}],
                    [{'op': 'setitem', 'v': wv, 'index': 'i0' if R.vars[0]._shape_ else 'ell', 'arg': 'number'}],
                    [{'op': 'iop', 'v': wv, 'sym': '+=', 'arg': 'number' if type(R.vars[0]).__name__ == 'Scalar' else 'qube'}],
                    [{'op': 'delds', 'v': wv, 'ov': 'default'}]]
            if isinstance(R.vars[0]._values_, np.ndarray) and R.vars[0]._values_.size:
                aims.append([{'op': 'rawref', 'v': wv, 'mask': False}, {'op': 'write', 'u': 0, 'pos': [0]}])
            if isinstance(R.vars[0]._mask_, np.ndarray) and R.vars[0]._mask_.size:
                aims.append([{'op': 'rawref', 'v': wv, 'mask': True}, {'op': 'write', 'u': 0, 'pos': [0]}])
            for aim in aims:
                cases.append({'hist': list(pops) + [{'op': 'wod', 'v': 0}] + route + aim + [{'op': 'wod', 'v': 0}],
                              'kind': 'held-wod:' + pname})
    # 2d. operations that hand back a read-only object sharing memory with their SOURCE: every broadcast variant
    #     (repeating, only adding unit axes, through Qube.broadcast), with and without derivatives, then a write history
    #     on the SOURCE -- item assignment, whole-object assignment, in-place operators, raw writes into .values / .mask
    #     and into the derivatives: each must raise ValueError or leave the read-only result as it was
    for pname, pops in P:
        R = Real()
        for op in pops:
            R.run(op)
        q0 = R.vars[0]
        if not isinstance(q0._values_, np.ndarray):
            continue
        num = 'number' if type(q0).__name__ in ('Scalar', 'Boolean') else 'qube'
        for how in BCAST_LEAD:
            for rec in (True, False):
                hist = list(pops) + [{'op': 'derive', 'v': 0, 'how': how, 'rec': rec}]
                w = [{'op': 'setitem', 'v': 0, 'index': 'i0' if q0._shape_ else 'ell', 'arg': 'number'},
                     {'op': 'iop', 'v': 0, 'sym': '+=', 'arg': num}, {'op': 'iop', 'v': 0, 'sym': '*=', 'arg': 'number'},
                     {'op': 'setitem', 'v': 0, 'index': 'ell', 'arg': 'number'},
                     {'op': 'setunits', 'v': 0, 'u': 1, 'ov': 'default'}, {'op': 'delds', 'v': 0, 'ov': 'default'}]
                nu = 0
                if q0._values_.size:
                    w += [{'op': 'rawref', 'v': 0, 'mask': False}, {'op': 'write', 'u': nu, 'pos': [0]}]; nu += 1
                if isinstance(q0._mask_, np.ndarray) and q0._mask_.size:
                    w += [{'op': 'rawref', 'v': 0, 'mask': True}, {'op': 'write', 'u': nu, 'pos': [0]}]; nu += 1
                dv = len(R.vars) + 1
                for kk in sorted(q0._derivs_):
                    w += [{'op': 'getderiv', 'v': 0, 'k': KEYS.index(kk)},
                          {'op': 'setitem', 'v': dv, 'index': 'i0' if q0._shape_ else 'ell', 'arg': 'number'},
                          {'op': 'rawref', 'v': dv, 'mask': False}, {'op': 'write', 'u': nu, 'pos': [0]}]
                    nu += 1; dv += 1
                cases.append({'hist': hist + w, 'kind': 'source-write:%s:%s' % (how, pname)})
    # 2e. the inventory of non-mutating operations at domain-boundary values, on read-only operands (the oracle runs
    #     the same call on a writable twin when one fails)
    for vals in (0., -2., 2., [0., -1., 2.], [0.5, 0., 4.]):
        for mask in (('F', 'T', 'A') if isinstance(vals, list) else ('F', 'T')):
            for route in ([{'op': 'asro', 'v': 0, 'rec': 'default'}], [{'op': 'copy', 'v': 0, 'rec': True, 'ro': True}],
                          []):
                v = 1 if route and route[0]['op'] == 'copy' else 0
                names = sorted(NONMUT)
                for i0 in range(0, len(names), 13):
                    cases.append({'hist': [{'op': 'mkv', 'cls': 'Scalar', 'vals': vals, 'mask': mask}] + route +
                                          [{'op': 'nm', 'v': v, 'name': n} for n in names[i0:i0 + 13]],
                                  'kind': 'nonmutating-inventory'})
    # 2f. constructor provenance: the caller's values / mask arrays pre-frozen or not, independently, for every class;
    #     then the flags of values, mask and slices, and direct writes through the caller's arrays, the object's arrays and
    #     the arrays of a slice
    for cls in CLASSES8:
        for shape in ([3], [2, 2]):
            for vfrozen in (False, True):
                for mfrozen in (None, False, True):
                    nu = 1 + (mfrozen is not None)
                    h = [{'op': 'mkp', 'cls': cls, 'shape': shape, 'vfrozen': vfrozen, 'mfrozen': mfrozen},
                         {'op': 'derive', 'v': 0, 'how': 'i0' if len(shape) == 2 else 'tail', 'rec': True},
                         {'op': 'write', 'u': 0, 'pos': [0]}]
                    if mfrozen is not None:
                        h += [{'op': 'write', 'u': 1, 'pos': [0]}, {'op': 'rawref', 'v': 0, 'mask': True},
                              {'op': 'write', 'u': nu, 'pos': [1]}, {'op': 'rawref', 'v': 1, 'mask': True},
                              {'op': 'write', 'u': nu + 1, 'pos': [0]}]
                        nu += 2
                    h += [{'op': 'rawref', 'v': 1, 'mask': False}, {'op': 'write', 'u': nu, 'pos': [0]},
                          {'op': 'asro', 'v': 0, 'rec': 'default'}, {'op': 'write', 'u': 0, 'pos': [1]}]
                    if mfrozen is not None:
                        h += [{'op': 'write', 'u': 1, 'pos': [1]}]
                    h += [{'op': 'setitem', 'v': 0, 'index': 'i0', 'arg': 'number'}]
                    cases.append({'hist': h, 'kind': 'provenance:' + cls})
    # 2c. pickle round trips: every mask kind x with / without derivatives x every route to read-only, then the flags of
    #     every array of the result and of its derivatives are looked at, and each of them is written through directly
    PP = []
    for cls, shape in (('Scalar', [2, 3]), ('Vector3', [2]), ('Scalar', [])):
        for mask in (('F', 'T', 'A') if shape else ('F', 'T')):
            for nd in (0, 1, 2):
                ops = [{'op': 'mk', 'cls': cls, 'shape': shape, 'mask': mask}]
                for j in range(nd):
                    ops.append({'op': 'mk', 'cls': cls, 'shape': shape, 'mask': mask if j == 0 else 'F'})
                    ops.append({'op': 'insd', 'v': 0, 'k': j, 'd': j + 1, 'ov': 'default'})
                PP.append(('%s%s%s%d' % (cls, shape, mask, nd), ops))
    for pname, pops in PP:
        R = Real()
        for op in pops:
            R.run(op)
        q0 = R.vars[0]
        nv0 = len(R.vars)
        routes = [('asro', [{'op': 'asro', 'v': 0, 'rec': 'default'}], 0),
                  ('asroF', [{'op': 'asro', 'v': 0, 'rec': False}], 0),
                  ('bcast-src', [{'op': 'derive', 'v': 0, 'how': 'bcast', 'rec': True}], 0),
                  ('bcast-res', [{'op': 'derive', 'v': 0, 'how': 'bcast', 'rec': True}], nv0),
                  ('copyro', [{'op': 'copy', 'v': 0, 'rec': True, 'ro': True}], nv0),
                  ('writable', [], 0)]
        for rname, route, src in routes:
            u = nv0 + (1 if src == nv0 or rname == 'bcast-src' else 0)      # the variable the unpickled object gets
            hist = list(pops) + route + [{'op': 'pickle', 'v': src}]
            nu = 0
            tail = []
            if isinstance(q0._values_, np.ndarray) and q0._values_.size:
                tail += [{'op': 'rawref', 'v': u, 'mask': False}, {'op': 'write', 'u': nu, 'pos': [0]}]; nu += 1
            if isinstance(q0._mask_, np.ndarray) and q0._mask_.size:
                tail += [{'op': 'rawref', 'v': u, 'mask': True}, {'op': 'write', 'u': nu, 'pos': [0]}]; nu += 1
            dv = u + 1
            for kk in sorted(q0._derivs_):
                tail += [{'op': 'getderiv', 'v': u, 'k': KEYS.index(kk)}]
                d = q0._derivs_[kk]
                if isinstance(d._values_, np.ndarray) and d._values_.size:
                    tail += [{'op': 'rawref', 'v': dv, 'mask': False}, {'op': 'write', 'u': nu, 'pos': [0]}]; nu += 1
                if isinstance(q0._mask_, np.ndarray) and q0._mask_.size:
                    tail += [{'op': 'rawref', 'v': dv, 'mask': True}, {'op': 'write', 'u': nu, 'pos': [0]}]; nu += 1
                tail += [{'op': 'setitem', 'v': dv, 'index': 'i0' if q0._shape_ else 'ell', 'arg': 'number'}]
                dv += 1
            cases.append({'hist': hist + tail, 'kind': 'pickle-stream:%s:%s' % (rname, pname)})
    # 3. random histories
    nrand = 6000 if thorough else 500
    dmax = 30 if thorough else 12
    for _ in range(nrand):
        cases.append(random_history(rng, dmax, P))
    return [finish(c) for c in cases]
