"""C16 development tool (not used by the check; the Lean kernel re-checks every certificate it prints).
Generates lean/PMV/Lemmas/AlgebraToEuler.lean and AlgebraToEulerGimbal.lean (written to the current directory); optional arguments: convention names.
Run with /venv/bin/python from any directory; output files are written to the current directory."""
import sys, os
sys.path.insert(0, os.path.dirname(os.path.abspath(__file__)))
from c16_cert import *
from fractions import Fraction
import c16_certso3 as so3
ROWS=[("sxyz",(0,0,0,0)),("sxyx",(0,0,1,0)),("sxzy",(0,1,0,0)),("sxzx",(0,1,1,0)),("syzx",(1,0,0,0)),("syzy",(1,0,1,0)),
 ("syxz",(1,1,0,0)),("syxy",(1,1,1,0)),("szxy",(2,0,0,0)),("szxz",(2,0,1,0)),("szyx",(2,1,0,0)),("szyz",(2,1,1,0)),
 ("rzyx",(0,0,0,1)),("rxyx",(0,0,1,1)),("ryzx",(0,1,0,1)),("rxzx",(0,1,1,1)),("rxzy",(1,0,0,1)),("ryzy",(1,0,1,1)),
 ("rzxy",(1,1,0,1)),("ryxy",(1,1,1,1)),("ryxz",(2,0,0,1)),("rzxz",(2,0,1,1)),("rxyz",(2,1,0,1)),("rzyz",(2,1,1,1))]
NEXT=[1,2,0,1]
N=9
M=so3.M; rels=so3.rels; hn=['h.'+x for x in so3.hn]
names=['m %d %d'%(i,j) for i in range(3) for j in range(3)]
def mm(a,b): return 'm %d %d'%(a,b)
def cert(target, deg=1):
    for d in range(0,deg+1):
        sol=solve(target,rels,N,deg=d)
        if sol is not None: return lean_cert(sol,hn,names)
    raise Exception('no cert')
def gen_row(name,t):
    fa,par,rep,fr=t
    i=fa; j=NEXT[i+par]; k=NEXT[i-par+1]
    out=''
    if rep:
        S=M[i][j]*M[i][j]+M[i][k]*M[i][k]; Sl='%s * %s + %s * %s'%(mm(i,j),mm(i,j),mm(i,k),mm(i,k))
        # SCs (numerators; divided by sy for x,z; by 1 for y)
        X=(M[i][j],M[i][k]); Z=(M[j][i],-M[k][i])
        xs=('(%s)'%mm(i,j), '(%s)'%mm(i,k)); zs=('(%s)'%mm(j,i), '(-%s)'%mm(k,i))
        # sqrt arg equalities
        argx = X[1]*X[1]+X[0]*X[0]      # x*x+y*y with y=first
        argz = Z[1]*Z[1]+Z[0]*Z[0]
        ex='atan2SC sqrt (%s) (%s) = ⟨%s / sy, %s / sy⟩'%(mm(i,j),mm(i,k),mm(i,j),mm(i,k))
        ey='atan2SC sqrt sy (%s) = ⟨sy / 1, %s / 1⟩'%(mm(i,i),mm(i,i))
        ez='atan2SC sqrt (%s) (-%s) = ⟨%s / sy, -%s / sy⟩'%(mm(j,i),mm(k,i),mm(j,i),mm(k,i))
        px='(congrArg sqrt (by linear_combination '+cert(argx-S)+')).trans hsy'
        # y: m_ii*m_ii + sy*sy = 1 : uses hS : sy*sy = S
        py='(congrArg sqrt (by linear_combination hS + '+cert(M[i][i]*M[i][i]+S-1)+')).trans h1'
        pz='(congrArg sqrt (by linear_combination '+cert(argz-S)+')).trans hsy'
        # local entries as numerators: classify
        # si=X0 t, ci=X1 t, sj=sy, cj=Mii, sk=Z0 t, ck=Z1 t ; u-type numerators (coefficient of t^2)
        si,ci,sk,ck=X[0],X[1],Z[0],Z[1]; cj=M[i][i]
        ent={ (j,j):(-1*cj*si*sk+ci*ck), (j,k):(-1*cj*ci*sk-si*ck), (k,j):(cj*si*ck+ci*sk), (k,k):(cj*ci*ck-si*sk)}
    else:
        S=M[i][i]*M[i][i]+M[j][i]*M[j][i]; Sl='%s * %s + %s * %s'%(mm(i,i),mm(i,i),mm(j,i),mm(j,i))
        X=(M[k][j],M[k][k]); Z=(M[j][i],M[i][i])
        argx=X[1]*X[1]+X[0]*X[0]; argz=Z[1]*Z[1]+Z[0]*Z[0]
        ex='atan2SC sqrt (%s) (%s) = ⟨%s / sy, %s / sy⟩'%(mm(k,j),mm(k,k),mm(k,j),mm(k,k))
        ey='atan2SC sqrt (-%s) sy = ⟨-%s / 1, sy / 1⟩'%(mm(k,i),mm(k,i))
        ez='atan2SC sqrt (%s) (%s) = ⟨%s / sy, %s / sy⟩'%(mm(j,i),mm(i,i),mm(j,i),mm(i,i))
        px='(congrArg sqrt (by linear_combination '+cert(argx-S)+')).trans hsy'
        py='(congrArg sqrt (by linear_combination hS + '+cert(S+M[k][i]*M[k][i]-1)+')).trans h1'
        pz='(congrArg sqrt (by linear_combination '+cert(argz-S)+')).trans hsy'
        si,ci,sk,ck=X[0],X[1],Z[0],Z[1]; sj=-1*M[k][i]
        ent={ (i,j):(sj*si*ck-ci*sk), (i,k):(sj*ci*ck+si*sk), (j,j):(sj*si*sk+ci*ck), (j,k):(sj*ci*sk-si*ck)}
    out+='''theorem to_euler_row_%s (sqrt : K → K) (small : K → Bool) (m : Mat K) (h : SO3 m) (m0 : Mat K)
    (hsq : ∀ x y : K, sqrt (x * x + y * y) * sqrt (x * x + y * y) = x * x + y * y) (h1 : sqrt 1 = 1)
    (hs : small (eulerPivot sqrt ⟨%d, %d, %d, %d⟩ m) = false) (hz : eulerPivot sqrt ⟨%d, %d, %d, %d⟩ m ≠ 0) :
    Eq3 (fromEuler ⟨%d, %d, %d, %d⟩ (toEuler sqrt small ⟨%d, %d, %d, %d⟩ m).1 (toEuler sqrt small ⟨%d, %d, %d, %d⟩ m).2.1
        (toEuler sqrt small ⟨%d, %d, %d, %d⟩ m).2.2 m0) m := by
''' % ((name,)+t*6)
    a,b=(mm(i,j),mm(i,k)) if rep else (mm(i,i),mm(j,i))
    out+='  change small (sqrt (%s)) = false at hs\n  change sqrt (%s) ≠ 0 at hz\n'%(Sl,Sl)
    out+='  have hS := hsq (%s) (%s)\n'%(a,b)
    out+='  generalize hsy : sqrt (%s) = sy at hs hz hS\n'%Sl
    out+='  have ex : %s :=\n    atan2SC_eq sqrt _ _ sy (%s) hz\n'%(ex,px)
    out+='  have ey : %s :=\n    atan2SC_eq sqrt _ _ 1 (%s) one_ne_zero\n'%(ey,py)
    out+='  have ez : %s :=\n    atan2SC_eq sqrt _ _ sy (%s) hz\n'%(ez,pz)
    for (r,c),A in sorted(ent.items()):
        out+='  have q%d%d : %s = %s * (sy * sy) := by\n    rw [hS]; linear_combination %s\n'%(r,c,lean_poly(A,names),mm(r,c),cert(A-M[r][c]*S,2))
    out+='  refine forall_lt3_2 ⟨?_, ?_, ?_, ?_, ?_, ?_, ?_, ?_, ?_⟩ <;>\n    simp [toEuler, fromEuler, eulerIJK, nextAxis, Mat.set, SC.neg, hsy, hs, ex, ey, ez] <;> (try field_simp)\n'
    out+='  all_goals first\n'
    for (r,c) in sorted(ent):
        out+='    | linear_combination q%d%d\n    | linear_combination -q%d%d\n'%(r,c,r,c)
    out+='\n'
    return out
if __name__=='__main__':
    sel=sys.argv[1:]
    hdr='''import PMV.Model.Algebra
import PMV.Lemmas.AlgebraMat3
import PMV.Lemmas.AlgebraSO3
import Mathlib.Tactic.Ring
import Mathlib.Tactic.LinearCombination
import Mathlib.Tactic.FieldSimp
/-
  C16 helper development: `from_euler (to_euler M) = M` away from gimbal lock, one lemma per convention.
  The arctan2 contract is `atan2SC` (sine and cosine of the returned angle are the normalised pair); `sqrt` is a
  function with `sqrt(x²+y²)² = x²+y²` and `sqrt 1 = 1`. Certificates generated with harness/c16_cert.py.
-/
namespace PMV.Algebra
variable {K : Type} [Field K] [DecidableEq K]

theorem atan2SC_eq (sqrt : K → K) (y x h : K) (hh : sqrt (x * x + y * y) = h) (hz : h ≠ 0) :
    atan2SC sqrt y x = ⟨y / h, x / h⟩ := by
  simp [atan2SC, hh, hz]

/-- the quantity whose smallness selects the gimbal-lock branch of `to_euler`: `sy` resp. `cy` -/
def eulerPivot (sqrt : K → K) (cv : Conv) (m : Mat K) : K :=
  let (i, j, _) := eulerIJK cv
  if cv.repetition ≠ 0 then sqrt (m i j * m i j + m i (eulerIJK cv).2.2 * m i (eulerIJK cv).2.2)
  else sqrt (m i i * m i i + m j i * m j i)

'''
    body=''
    for n,t in ROWS:
        if sel and n not in sel: continue
        body+=gen_row(n,t)
    open('AlgebraToEuler.lean','w').write(hdr+body+'end PMV.Algebra\n')

def certz(target, extra, extranames, deg=2):
    R=rels+extra; H=hn+extranames
    for d in range(0,deg+1):
        sol=solve(target,R,N,deg=d)
        if sol is not None: return lean_cert(sol,H,names)
    raise Exception('no cert')

def gen_gimbal(name,t):
    fa,par,rep,fr=t
    i=fa; j=NEXT[i+par]; k=NEXT[i-par+1]
    if rep:
        za,zb=(i,j),(i,k)
    else:
        za,zb=(i,i),(j,i)
    Z=[M[za[0]][za[1]], M[zb[0]][zb[1]]]; ZN=['z1','z2']
    Sl='%s * %s + %s * %s'%(mm(*za),mm(*za),mm(*zb),mm(*zb))
    out='''theorem to_euler_gimbal_row_%s (sqrt : K → K) (small : K → Bool) (m : Mat K) (h : SO3 m) (m0 : Mat K)
    (hsq : ∀ x y : K, sqrt (x * x + y * y) * sqrt (x * x + y * y) = x * x + y * y) (h1 : sqrt 1 = 1)
    (hs : small (eulerPivot sqrt ⟨%d, %d, %d, %d⟩ m) = true) (z1 : %s = 0) (z2 : %s = 0) :
    Eq3 (fromEuler ⟨%d, %d, %d, %d⟩ (toEuler sqrt small ⟨%d, %d, %d, %d⟩ m).1 (toEuler sqrt small ⟨%d, %d, %d, %d⟩ m).2.1
        (toEuler sqrt small ⟨%d, %d, %d, %d⟩ m).2.2 m0) m := by
''' % ((name,)+t+(mm(*za),mm(*zb))+t*4)
    out+='  change small (sqrt (%s)) = true at hs\n'%Sl
    out+='  have hS := hsq (%s) (%s)\n'%(mm(*za),mm(*zb))
    out+='  generalize hsy : sqrt (%s) = sy at hs hS\n'%Sl
    out+='  have sy0 : sy = 0 := by\n    have : sy * sy = 0 := by rw [hS, z1, z2]; ring\n    exact mul_self_eq_zero.mp this\n'
    out+='  subst sy0\n  have s0 : sqrt 0 = 0 := by\n    have := hsy; rw [z1, z2] at this; simpa using this\n'
    if rep:
        ex='atan2SC sqrt (-%s) (%s) = ⟨-%s / 1, %s / 1⟩'%(mm(j,k),mm(j,j),mm(j,k),mm(j,j))
        px='(congrArg sqrt (by linear_combination '+certz(M[j][j]*M[j][j]+M[j][k]*M[j][k]-1,Z,ZN)+')).trans h1'
        ey='atan2SC sqrt 0 (%s) = ⟨0 / 1, %s / 1⟩'%(mm(i,i),mm(i,i))
        py='(congrArg sqrt (by linear_combination '+certz(M[i][i]*M[i][i]-1,Z,ZN)+')).trans h1'
        derived={(j,i):M[j][i],(k,i):M[k][i],(k,j):-1*M[i][i]*M[j][k]-M[k][j],(k,k):M[i][i]*M[j][j]-M[k][k]}
    else:
        ex='atan2SC sqrt (-%s) (%s) = ⟨-%s / 1, %s / 1⟩'%(mm(j,k),mm(j,j),mm(j,k),mm(j,j))
        px='(congrArg sqrt (by linear_combination '+certz(M[j][j]*M[j][j]+M[j][k]*M[j][k]-1,Z,ZN)+')).trans h1'
        ey='atan2SC sqrt (-%s) 0 = ⟨-%s / 1, 0 / 1⟩'%(mm(k,i),mm(k,i))
        py='(congrArg sqrt (by linear_combination '+certz(M[k][i]*M[k][i]-1,Z,ZN)+')).trans h1'
        derived={(i,j):M[k][i]*M[j][k]-M[i][j],(i,k):-1*M[k][i]*M[j][j]-M[i][k],(k,j):M[k][j],(k,k):M[k][k]}
    out+='  have ex : %s :=\n    atan2SC_eq sqrt _ _ 1 (%s) one_ne_zero\n'%(ex,px)
    out+='  have ey : %s :=\n    atan2SC_eq sqrt _ _ 1 (%s) one_ne_zero\n'%(ey,py)
    for (r,c),T in sorted(derived.items()):
        out+='  have d%d%d : %s = 0 := by\n    linear_combination %s\n'%(r,c,lean_poly(T,names),certz(T,Z,ZN))
    out+='  refine forall_lt3_2 ⟨?_, ?_, ?_, ?_, ?_, ?_, ?_, ?_, ?_⟩ <;>\n    simp [toEuler, fromEuler, eulerIJK, nextAxis, Mat.set, SC.neg, hsy, s0, hs, ex, ey, z1, z2]\n'
    out+='  all_goals first\n'
    for (r,c) in sorted(derived):
        out+='    | linear_combination d%d%d\n    | linear_combination -d%d%d\n'%(r,c,r,c)
    out+='\n'
    return out

if __name__=='__main__' and True:
    sel=sys.argv[1:]
    body=''
    for n,t in ROWS:
        if sel and n not in sel: continue
        body+=gen_gimbal(n,t)
    hdr2='''import PMV.Lemmas.AlgebraToEuler
/-
  C16 helper development: `from_euler (to_euler M) = M` AT exact gimbal lock (the branch `sy <= EPSILON` resp.
  `cy <= EPSILON` of Matrix3.to_euler with the two pivot entries exactly 0), one lemma per convention.
-/
namespace PMV.Algebra
variable {K : Type} [Field K] [DecidableEq K]

'''
    open('AlgebraToEulerGimbal.lean','w').write(hdr2+body+'end PMV.Algebra\n')
