"""C16 development tool (not used by the check; the Lean kernel re-checks every certificate it prints).
Generates lean/PMV/Lemmas/AlgebraSO3.lean (written to ./AlgebraSO3.lean).
Run with /venv/bin/python from any directory; output files are written to the current directory."""
import sys, os
sys.path.insert(0, os.path.dirname(os.path.abspath(__file__)))
from c16_certso3 import *
def eqn(expr_terms, rhs): return ' + '.join(expr_terms)+' = '+rhs
fields=[]
for i in range(3):
    for j in range(i,3):
        fields.append(('r%d%d'%(i,j), ' + '.join('m %d %d * m %d %d'%(i,t,j,t) for t in range(3))+' = %d'%d(i,j)))
for i in range(3):
    for j in range(i,3):
        fields.append(('c%d%d'%(i,j), ' + '.join('m %d %d * m %d %d'%(t,i,t,j) for t in range(3))+' = %d'%d(i,j)))
def cofs(i,j):
    i1,i2=(i+1)%3,(i+2)%3; j1,j2=(j+1)%3,(j+2)%3
    return 'm %d %d * m %d %d - m %d %d * m %d %d'%(i1,j1,i2,j2,i1,j2,i2,j1)
for i in range(3):
    for j in range(3):
        fields.append(('f%d%d'%(i,j), cofs(i,j)+' = m %d %d'%(i,j)))
fields.append(('hdet','m 0 0 * (%s) + m 0 1 * (%s) + m 0 2 * (%s) = 1'%(cofs(0,0),cofs(0,1),cofs(0,2))))
out='''import PMV.Model.Algebra
import PMV.Lemmas.AlgebraMat3
import PMV.Lemmas.AlgebraMat3T
import Mathlib.Tactic.Ring
import Mathlib.Tactic.LinearCombination
/-
  C16 helper development: the polynomial relations of a 3×3 rotation matrix (rows and columns
  orthonormal, every entry equals its cofactor, determinant 1), derived from `M Mᵀ = 1` and `det M = 1`.
  They generate the ideal of SO(3); the round-trip theorems of Props/C16.lean are `linear_combination`s of
  them (certificates found by exact linear algebra with harness/c16_cert.py and re-checked here by the kernel).
-/
namespace PMV.Algebra
variable {K : Type} [CommRing K]

structure SO3 (m : Mat K) : Prop where
'''
for n,e in fields: out+='  %s : %s\n'%(n,e)
out+='''
theorem SO3.of {m : Mat K} (h : Orthonormal3 m) (hd : det3 m = 1) : SO3 m := by
  have ht := h.transpose
'''
for i in range(3):
    for j in range(i,3):
        out+='  have r%d%d := h %d %d (by omega) (by omega)\n'%(i,j,i,j)
        out+='  have c%d%d := ht %d %d (by omega) (by omega)\n'%(i,j,i,j)
out+='  simp [Mat.mul, Mat.T, sumRange, Mat.ident] at r00 r01 r02 r11 r12 r22 c00 c01 c02 c11 c12 c22\n'
out+='  simp only [det3] at hd\n'
out+='  refine ⟨by linear_combination r00, by linear_combination r01, by linear_combination r02, by linear_combination r11, by linear_combination r12, by linear_combination r22,\n    by linear_combination c00, by linear_combination c01, by linear_combination c02, by linear_combination c11, by linear_combination c12, by linear_combination c22,\n    ?_, ?_, ?_, ?_, ?_, ?_, ?_, ?_, ?_, by linear_combination hd⟩\n'
names2=['m %d %d'%(i,j) for i in range(3) for j in range(3)]
for i in range(3):
    for j in range(3):
        sol=solve(cof(i,j)-M[i][j], rels, N, deg=2, only=[0,1,2,3,4,5,21])
        hn2=list(hn); hn2[21]='hd'
        out+='  · linear_combination '+lean_cert(sol,hn2,names2)+'\n'
out+='\nend PMV.Algebra\n'
open('AlgebraSO3.lean','w').write(out)
