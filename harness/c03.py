"""C03 — masked values do not exist: hidden numbers never influence any observable result."""
import itertools, json, math
import numpy as np
from absn import *
import common as C
import c03_ops as O
import c03_model as M

PROP = 'C03'
LEAN_MODULES = ['PMV.Props.C03']
PARALLEL = True
MANIFEST = {
    'text': 'Kernel-checked non-interference theorems (PMV/Props/C03.lean) over a code-shaped model (Model/NI.lean) in which '
            'every element carries its hidden value explicitly: low-equivalent operands (same shape and expanded mask, equal '
            'values and derivative values at unmasked elements, ARBITRARY numbers underneath the masks) give equal '
            'observations, including the error outcome, for every modelled element-wise operation and math function with '
            'its zero-replacement/domain guards, comparisons, reductions, sort, indexing by masked index objects, stack, '
            'shrink/unshrink and pickling, and - by induction, because low-equivalence is a congruence - for every '
            'expression tree of any depth over them.  Tied to /repo on every run: each generated expression tree is run '
            'twice on the real code (as generated / with the storage under every mask overwritten by adversarial numbers), '
            'the two canonical observations of every node are compared (the model-independent oracle), and the compiled '
            'model is run on both variants and diffed against the implementation.',
    'design': 'DESIGN.md §3 C03, DESIGN.d/C03.md',
    'technique': 'Lean 4 proof (relational / non-interference, induction over lanes and expression trees) + two-run '
                 'differential oracle + model/code correspondence',
    'note': 'Trusted: Lean kernel; hand-written model Model/NI.lean (checked against the code by the correspondence run); '
            'NumPy kernels (sort, argmax, advanced indexing) enter the model as code-shaped list functions. The numeric '
            'primitives are parameters of the theorems (any functions), the driver instantiates IEEE doubles.',
}
RULE = ('a case is one expression tree (depth 0-3) over the catalogue with an environment of leaf operands in TWO storage '
        'variants that agree at unmasked elements and differ arbitrarily (adversarially) underneath the masks; every node of '
        'the tree is observed in both runs; non-trivial = at least one leaf has a masked element whose two hidden values '
        'differ; distinct = distinct (tree, environment) line')
ASSUMPTIONS = [
    'hidden numbers of Scalar/Vector operands are finite (NaN-free, inf-free) and of magnitude <= 1024; the linear-algebra stream '
    '(Matrix inverse/reciprocal/division/powers, Polynomial.roots) additionally hides huge (to 3e307), tiny, NaN and +-inf '
    'entries; warnings that NumPy merely emits (not raised) '
    'are not observables of the property and are not compared - only results and raised exceptions are',
    'a derivative is an operand of its own: its hidden storage is what lies under ITS OWN mask; derivative observations are '
    'taken where neither the result nor the derivative is masked',
    'units are carried through the real code and observed by the oracle; the Lean model covers unitless operands',
    'the numeric primitives (IEEE +,-,*,/,sqrt, libm functions) are parameters of the model; the theorems hold for all '
    'functions in their place; the driver receives transcendental values as a table computed by NumPy',
]
TRUSTED_EXTRA = ['NumPy kernels np.sort/np.argmax/np.argmin/np.median/advanced indexing as transcribed into list functions '
                 'of Model/NI.lean (exercised by the correspondence run)',
                 'libm / NumPy transcendental functions: value tables supplied by the harness, functions are theorem parameters']

# ------------------------------------------------------------------ value pools
F_VIS = [-2., -1.5, -1., -0.5, -0.25, 0., 0., 0.25, 0.5, 0.75, 1., 1., 1.5, 2., 3., 4.]
F_HID_BENIGN = [0.5, 1., 2., 0.25, 3.]
F_HID_ADV = [0., -1., 1024., -1024., 800., 2., -2., 1.5, -0.5, 710., 1. / 1024, -3., 1e-3, 0., -0.0, 1., 0.5,
             709.782712893384, 709.7827128933841, -1.0000000000000002, 1.0000000000000002, 0., -0.0, 2.5, -7.5]
I_HID_ADV = [0, -1, 10 ** 6, -10 ** 6, 7, -7, 3, 2 ** 40, -2 ** 40, 1, 2, -2, -3, 2 ** 63 - 1, -2 ** 63, 0, -1, 63, 64]
SHAPES = [[], [1], [2], [3], [4], [2, 3], [3, 2], [1, 3], [2, 1], [3, 3], [0], [2, 0], [2, 2, 2], [5]]


def rand_mask(rng, shape):
    n = int(np.prod(shape, dtype=int))
    mode = rng.random()
    if mode < 0.12:
        bits = [False] * n
    elif mode < 0.24:
        bits = [True] * n
    else:
        p = rng.choice([0.2, 0.4, 0.7])
        bits = [rng.random() < p for _ in range(n)]
    return bits, rng.choice(mask_reps(bits, shape))


# hidden-value classes for the linear-algebra paths (Matrix.inverse / reciprocal / division / ** -n, Polynomial.roots):
# besides zeros and negatives also HUGE finite numbers (products and determinants overflow), tiny ones, NaN and +-inf
X_HID = [1e150, -1e150, 1e200, -1e200, 1e300, -3e307, 1e-300, -1e-300, 5e-324, float('nan'), float('inf'), float('-inf'),
         0., 0., -1., 1., 2., -0.5, 1e155, 1e103, 1024., 800.]


def gen_leaf(rng, t, shape, derivs=True, axis_len=3, mask=None, nonneg=False):
    n = int(np.prod(shape, dtype=int))
    isz = int(np.prod(O.ITEM[t], dtype=int))
    bits, rep = rand_mask(rng, shape) if mask is None else mask
    vals, alt = [], []
    for i in range(n):
        for _ in range(isz):
            if t == 'Q':
                vis = rng.choice(F_VIS)
                a = rng.choice(F_HID_BENIGN + F_HID_ADV)
                b = rng.choice(F_HID_ADV)
            elif t in ('M2', 'M3', 'Y'):
                vis = rng.choice(F_VIS)
                a = rng.choice(F_HID_BENIGN + [0., -1.])
                b = rng.choice(X_HID)
            elif t in ('F', 'V'):
                vis = rng.choice(F_VIS)
                a = rng.choice(F_HID_BENIGN + F_HID_ADV)
                b = rng.choice(F_HID_ADV)
            elif t in ('I', 'P'):
                vis = rng.randint(-axis_len, axis_len - 1) if rng.random() < 0.85 else rng.choice([axis_len, -axis_len - 1, 5])
                if nonneg:
                    vis = abs(vis)
                a = rng.randint(0, max(axis_len - 1, 0))
                b = rng.choice(I_HID_ADV) if rng.random() < 0.5 else rng.randint(-axis_len, max(axis_len - 1, 0))
                if not shape and abs(b) >= 2 ** 62:
                    # a SHAPELESS integer object holds a Python int: arithmetic on an int64 extreme leaves the int64 range
                    # silently and NumPy ufuncs then raise TypeError/OverflowError - a finite-precision artefact (like float
                    # overflow), not judged; the int64 extremes are generated for array operands only
                    b = rng.choice([2 ** 40, -2 ** 40, -1, 0])
            else:
                vis = rng.random() < 0.5
                a = rng.random() < 0.5
                b = rng.random() < 0.5
            if bits[i]:
                vals.append(a); alt.append(b)
            else:
                vals.append(vis); alt.append(vis)
    leaf = {'t': t, 'shape': list(shape), 'vals': vals, 'alt': alt, 'mask': rep, 'derivs': {}, 'units': None}
    if derivs and t == 'F' and rng.random() < 0.35:
        for key in (['t'] if rng.random() < 0.7 else ['t', 'u']):
            # a derivative operand carries its parent's mask (possibly in another representation)
            drep = rep if rng.random() < 0.6 else rng.choice(mask_reps(bits, shape))
            leaf['derivs'][key] = gen_leaf(rng, 'F', shape, derivs=False, mask=(bits, drep))
    if t == 'F' and rng.random() < 0.08 and not leaf['derivs']:
        leaf['units'] = rng.choice(['km', 's', 'rad'])
    return leaf


def differs(leaf):
    return leaf['vals'] != leaf['alt'] or any(differs(d) for d in leaf.get('derivs', {}).values())


# ------------------------------------------------------------------ tree generation (typed, shapes tracked approximately)
U_FF = ['neg', 'abs', 'sqrt', 'sqrt_nc', 'log', 'log_nc', 'exp', 'exp_c', 'sin', 'cos', 'tan', 'arcsin', 'arcsin_nc',
        'arccos', 'arccos_nc', 'arctan', 'sign', 'recip', 'recip_nz', 'wod', 'copy', 'pickle', 'frac', 'pos']
POWS = [0, 1, 2, 3, 4, -1, 0.5, -0.5, 1.5, -2, 5]
CONSTS = [0., 1., -1., 2., 0.5, -0.5, 3.]
B_FF = ['add', 'sub', 'mul', 'div', 'arctan2', 'maximum', 'minimum', 'powS', 'floordiv', 'mod']
B_FB = ['eq', 'ne', 'lt', 'le', 'gt', 'ge', 'tvl_eq', 'tvl_ne', 'tvl_lt', 'tvl_le', 'tvl_gt', 'tvl_ge']
B_BB = ['and', 'or', 'xor', 'tvl_and', 'tvl_or']
RED_F = ['sum', 'mean', 'max', 'min', 'median']
RED_B = ['any', 'all', 'tvl_any', 'tvl_all']
MW_FAMILY = {'mw_lt', 'mw_le', 'mw_gt', 'mw_ge', 'mw_eq', 'mw_ne', 'mw_between', 'mw_outside', 'mask_where_eq_o', 'mw_between_o',
             'mw_outside_o'}
MW = ['mw_lt', 'mw_le', 'mw_gt', 'mw_ge', 'mw_eq', 'mw_ne']


def rand_axis(rng, rank, allow_tuple=True, allow_none=True):
    opts = []
    if allow_none: opts.append(None)
    opts += list(range(-rank, rank))
    if allow_tuple and rank >= 2:
        opts += [[0, 1], [-1, 0]] + ([[0, 2], [0, 1, 2]] if rank >= 3 else [])
    return rng.choice(opts) if opts else None


def red_shape(shape, ax):
    if ax is None:
        return []
    axes = [ax] if isinstance(ax, int) else ax
    axes = {a % len(shape) for a in axes}
    return [s for k, s in enumerate(shape) if k not in axes]


class Gen:
    def __init__(self, rng, base, derivs=True, vectors=False, ints=0.0):
        self.rng, self.base, self.env, self.derivs, self.vectors, self.ints = rng, list(base), [], derivs, vectors, ints

    def leaf_shape(self):
        r = self.rng.random()
        b = self.base
        if r < 0.6 or not b:
            return list(b)
        if r < 0.75:
            return []
        if r < 0.9:
            k = self.rng.randrange(len(b))
            return [1 if i == k else s for i, s in enumerate(b)]
        return list(b[-1:])

    def leaf(self, t, shape=None, axis_len=3):
        rng = self.rng
        shape = self.leaf_shape() if shape is None else shape
        # reuse an existing variable sometimes (x - x, x == x ...)
        if t == 'F' and self.ints and rng.random() < self.ints:
            t = 'I'                     # an INTEGER Scalar in a numeric position
        cands = [i for i, l in enumerate(self.env) if l['t'] == t and l['shape'] == list(shape)]
        if cands and rng.random() < 0.25:
            return (['v', rng.choice(cands)], t, list(shape))
        self.env.append(gen_leaf(rng, t, shape, derivs=self.derivs, axis_len=axis_len))
        return (['v', len(self.env) - 1], t, list(shape))

    def gen(self, depth, want='F'):
        """returns (tree, type, shape)"""
        rng = self.rng
        if depth == 0:
            return self.leaf(want)
        d1 = depth - 1
        d2 = rng.randint(0, depth - 1)
        if want == 'F':
            r = rng.random()
            if r < 0.30:
                x, _, s = self.gen(d1, 'F')
                return ([rng.choice(U_FF), [], x], 'F', s)
            if r < 0.40:
                x, _, s = self.gen(d1, 'F')
                k = rng.random()
                if k < 0.4:
                    return (['pow', [rng.choice(POWS)], x], 'F', s)
                if k < 0.8:
                    return ([rng.choice(['mulc', 'rmulc', 'addc', 'subc', 'rsubc', 'divc', 'rdivc', 'floordivc', 'modc']),
                             [rng.choice(CONSTS)], x], 'F', s)
                if k < 0.9:
                    return (['clip', [rng.choice([-1., 0.]), rng.choice([0.5, 1.]), rng.random() < 0.5], x], 'F', s)
                return ([rng.choice(MW), [rng.choice(CONSTS), rng.choice([None, 0., 1., 7.]), rng.random() < 0.6], x], 'F', s)
            if r < 0.62:
                a, _, sa = self.gen(d1, 'F')
                b, _, sb = self.gen(d2, 'F')
                if rng.random() < 0.5:
                    a, sa, b, sb = b, sb, a, sa
                out = np_bcast(sa, sb)
                return ([rng.choice(B_FF), [], a, b], 'F', out if out is not None else sa)
            if r < 0.76:
                x, _, s = self.gen(d1, 'F')
                if not s:
                    return ([rng.choice(RED_F), [None], x], 'F', [])
                if rng.random() < 0.2:
                    ax = rand_axis(rng, len(s), allow_tuple=False, allow_none=False)
                    return (['sort', [ax], x], 'F', s)
                ax = rand_axis(rng, len(s))
                return ([rng.choice(RED_F), [ax], x], 'F', red_shape(s, ax))
            if r < 0.86:
                return self.gen_index(d1, 'F')
            if r < 0.90:
                a, _, sa = self.gen(d1, 'F')
                b, _, sb = self.gen(d2, 'F')
                out = np_bcast(sa, sb)
                return (['stack', [], a, b], 'F', [2] + (out if out is not None else sa))
            if r < 0.96:
                x, _, s = self.gen(d1, 'F')
                if s:
                    k = rng.randint(1, len(s))
                    sh = s[len(s) - k:]
                    n = int(np.prod(sh, dtype=int))
                    bits = [rng.random() < 0.6 for _ in range(n)]
                    if rng.random() < 0.5:
                        return (['shrink_unshrink', [bits, sh], x], 'F', s)
                    # an operation on the shrunken object, then unshrink
                    inner = ['shrink', [bits, sh], x]
                    inner = [rng.choice(['sqrt', 'recip', 'neg', 'log', 'exp']), [], inner]
                    return (['unshrink', [bits, sh], inner], 'F', s)
                return (['pickle', [], x], 'F', s)
            a, _, sa = self.gen(d1, 'F')
            b, _, sb = self.gen(d2, 'B')
            return ([rng.choice(['mask_where', 'remask_or']), [], a, b], 'F', sa)
        if want == 'B':
            r = rng.random()
            if r < 0.45:
                a, _, sa = self.gen(d1, 'F')
                b, _, sb = self.gen(d2, 'F')
                out = np_bcast(sa, sb)
                return ([rng.choice(B_FB), [], a, b], 'B', out if out is not None else sa)
            if r < 0.55:
                x, _, s = self.gen(d1, 'F')
                return ([rng.choice(['ltc', 'gec', 'eqc', 'nec']), [rng.choice(CONSTS)], x], 'B', s)
            if r < 0.75:
                a, _, sa = self.gen(d1, 'B')
                b, _, sb = self.gen(d2, 'B')
                out = np_bcast(sa, sb)
                return ([rng.choice(B_BB), [], a, b], 'B', out if out is not None else sa)
            if r < 0.83:
                x, _, s = self.gen(d1, 'B')
                return ([rng.choice(['not', 'logical_not', 'pickle', 'copy']), [], x], 'B', s)
            if r < 0.93:
                x, _, s = self.gen(d1, 'B')
                ax = rand_axis(rng, len(s)) if s else None
                return ([rng.choice(RED_B), [ax], x], 'B', red_shape(s, ax) if s else [])
            return self.gen_index(d1, 'B')
        if want == 'I':
            r = rng.random()
            x, _, s = self.gen(d1, 'F')
            if s and r < 0.8:
                ax = rand_axis(rng, len(s), allow_tuple=False)
                return ([rng.choice(['argmax', 'argmin']), [ax], x], 'I', red_shape(s, ax))
            return self.leaf('I')
        return self.leaf(want)

    def gen_index(self, depth, t):
        """x[idx] with idx a (possibly masked) index object"""
        rng = self.rng
        x, _, s = self.gen(depth, t)
        if not s:
            b, _, _ = self.leaf('B', [])
            return (['getitem', ['i'], x, b], t, [])
        r = rng.random()
        if r < 0.5:
            # integer Scalar index (leaf, or an argmax/argmin subtree)
            ishape = rng.choice([[], [2], [3], [2, 2], [1]])
            pattern = rng.choice(['i', 'i', 'i', '...i', ':i', 'i:', '0i', 'ni', 'sl_i', 'i...'])
            if len(s) < 2 and pattern in (':i', 'i:', '0i', 'sl_i'):
                pattern = 'i'
            axis = 0 if pattern in ('i', 'i:', 'i...', 'ni') else (len(s) - 1 if pattern == '...i' else 1)
            if rng.random() < 0.2 and depth >= 1 and pattern == 'i':
                i, _, ishape = self.gen(rng.randint(1, depth), 'I')
            else:
                i, _, _ = self.leaf('I', ishape, axis_len=max(s[axis], 1))
            rest = s[1:] if pattern in ('i', 'i...', 'i:') else s
            return (['getitem', [pattern], x, i], t, list(ishape) + list(rest))
        if r < 0.8:
            k = rng.randint(1, len(s))
            b, _, _ = self.leaf('B', s[:k])
            pattern = 'i' if k == len(s) or rng.random() < 0.7 else 'i...'
            return (['getitem', [pattern], x, b], t, [2] + s[k:])
        if len(s) >= 2:
            ishape = rng.choice([[], [2], [3]])
            p, _, _ = self.leaf('P', ishape, axis_len=max(min(s[0], s[1]), 1))
            return (['getitem', ['i'], x, p], t, list(ishape) + s[2:])
        b, _, _ = self.leaf('B', [])
        return (['getitem', ['i'], x, b], t, [1] + s)


QUERIES = [lambda v: ['sum', [None], v], lambda v: ['mean', [None], v], lambda v: ['sum', [0], v], lambda v: ['ltc', [1.], v],
           lambda v: ['gec', [0.], v], lambda v: ['max', [None], v], lambda v: ['min', [None], v], lambda v: ['median', [None], v],
           lambda v: ['count_masked', [], v], lambda v: ['maximum', [], v, v], lambda v: ['eq', [], v, v],
           lambda v: ['argmax', [None], v], lambda v: ['sort', [0], v]]
BQUERIES = [lambda v: ['any', [None], v], lambda v: ['all', [None], v], lambda v: ['tvl_any', [None], v],
            lambda v: ['count_masked', [], v], lambda v: ['not', [], v], lambda v: ['eq', [], v, v]]
QUERIES_M = [lambda v: ['sum', [None], v], lambda v: ['mean', [None], v], lambda v: ['sum', [0], v], lambda v: ['max', [None], v],
             lambda v: ['min', [0], v], lambda v: ['median', [None], v], lambda v: ['argmax', [None], v], lambda v: ['sort', [0], v],
             lambda v: ['neg', [], v], lambda v: ['sqrt', [], v], lambda v: ['pickle', [], v]]
IOPS_F = ['iadd', 'isub', 'imul', 'itruediv', 'ifloordiv', 'imod', 'ipow']
IOPS_B = ['iand', 'ior', 'ixor']


def mk_prog(prog, env, kind):
    case = {'prog': prog, 'env': env, 'kind': kind, 'variant': 'A', 'req': None}
    case['nontrivial'] = any(differs(l) for l in env)
    case['id'] = json.dumps([prog, env], sort_keys=True)[:400]
    return case


def gen_setitem(rng, shape):
    """x[idx] = rhs through a (possibly masked) Scalar / Boolean / Pair index object, then queries on x"""
    g = Gen(rng, shape, derivs=rng.random() < 0.3)
    x, _, s = g.leaf('F', list(shape))
    r = rng.random()
    if r < 0.6:
        ishape = rng.choice([[], [2], [3], [3], [4], [2, 2]])
        pattern = rng.choice(['i', 'i', 'i', '...i', ':i']) if len(s) >= 2 else 'i'
        axis = 0 if pattern == 'i' else len(s) - 1 if pattern == '...i' else 1
        i, _, _ = g.leaf('I', ishape, axis_len=max(s[axis], 1))
        rest = s[1:] if pattern == 'i' else s[:-1]
        sel = list(ishape) + rest if pattern == 'i' else rest + list(ishape)
    elif r < 0.85 or len(s) < 2:
        k = rng.randint(1, len(s))
        i, _, _ = g.leaf('B', s[:k])
        pattern, sel = 'i', None
    else:
        ishape = rng.choice([[], [2], [3]])
        i, _, _ = g.leaf('P', ishape, axis_len=max(min(s[0], s[1]), 1))
        pattern, sel = 'i', list(ishape) + s[2:]
    q = rng.random()
    if q < 0.3:
        rhs = rng.choice([99., 0., -7.])
    elif q < 0.6 or sel is None:
        rhs, _, _ = g.leaf('F', [])
    else:
        rhs, _, _ = g.leaf('F', sel)
    prog = [['query', rng.choice(QUERIES)(x)], ['set', x[1], pattern, i, rhs],
            ['query', rng.choice(QUERIES)(x)], ['query', ['getitem', [pattern], x, i]]]
    return mk_prog(prog, g.env, 'setitem:' + env_t(g.env, i))


def env_t(env, node):
    return env[node[1]]['t'] if node[0] == 'v' else 'tree'


def gen_history(rng, shape):
    """cached queries -> in-place operator with a masked operand -> the same kind of queries again"""
    modelled = rng.random() < 0.5          # restrict to the statement forms of the Lean model (tied via ni_stmts)
    boolean = (not modelled) and rng.random() < 0.3
    g = Gen(rng, shape, derivs=(not boolean) and rng.random() < 0.3)
    t = 'B' if boolean else 'F'
    x, _, s = g.leaf(t, list(shape))
    qs = BQUERIES if boolean else (QUERIES_M if modelled else QUERIES)
    prog = [['query', rng.choice(qs)(x)] for _ in range(rng.randint(1, 3))]
    if rng.random() < 0.3 and not modelled:
        prog.append(['query', ['as_mask_where_zero_or_masked', [], x]])
    for _ in range(rng.randint(1, 2)):
        op = rng.choice(IOPS_B if boolean else (IOPS_F[:4] if modelled else IOPS_F))
        r = rng.random()
        if modelled:
            y, _, _ = g.leaf('F', rng.choice([list(s), []]))
            while y == x:
                g.env.append(gen_leaf(rng, 'F', [], derivs=g.derivs))
                y = ['v', len(g.env) - 1]
        elif r < 0.15 and not boolean:
            y = rng.choice([2., 0., -0.5, 3.])
        elif op == 'ipow':
            y = rng.choice([2, 3, 0.5, -1, 1.5]) if rng.random() < 0.6 else g.leaf('F', [])[0]
        else:
            y, _, _ = g.leaf(t, rng.choice([list(s), [], list(s)]))
            if y == x:
                y, _, _ = g.leaf(t, [])
        prog.append(['iop', op, x[1], y])
        for _ in range(rng.randint(1, 3)):
            prog.append(['query', rng.choice(qs)(x)])
    return mk_prog(prog, g.env, 'history:' + ('B' if boolean else 'F'))


def mk_case(tree, env, kind):
    case = {'tree': tree, 'env': env, 'kind': kind, 'variant': 'A'}
    case['nontrivial'] = any(differs(l) for l in env)
    case['id'] = json.dumps([tree, env], sort_keys=True)[:400]
    return case


def finish(cases):
    """each generated pair becomes two cases: variant A carries the two-run oracle; both variants are tied to the model"""
    out = []
    for c in cases:
        if 'prog' in c:
            c['req'] = M.request_prog(c['prog'], c['env'], 'A')
            out.append(c)
            if c['req'] is not None and c['nontrivial']:
                b = dict(c, variant='B', kind=c['kind'] + '/B')
                b['req'] = M.request_prog(c['prog'], c['env'], 'B')
                out.append(b)
            continue
        req_a = M.request(c['tree'], c['env'], 'A')
        c['req'] = req_a
        out.append(c)
        if req_a is not None and c['nontrivial']:
            b = dict(c, variant='B', kind=c['kind'] + '/B')
            b['req'] = M.request(c['tree'], c['env'], 'B')
            out.append(b)
    return out


SINGLE_OPS = ([(n, []) for n in U_FF] + [('pow', [e]) for e in POWS]
              + [(n, [c]) for n in ('mulc', 'addc', 'subc', 'rsubc', 'divc', 'rdivc', 'floordivc', 'modc') for c in (0., 2., -0.5)]
              + [(n, [lim, rep, rm]) for n in MW for lim in (0., 1.) for rep in (None, 7.) for rm in (True, False)]
              + [('clip', [-1., 1., True]), ('clip', [0., 0.5, False])])


def opt_ops(rng):
    """public element-wise / reducing methods with their OPTION values"""
    tf = lambda: rng.random() < 0.5
    return [('sign_o', [tf(), tf()]), ('sign_o', [False, False]), ('sign_o', [False, True]),
            ('int_o', [rng.choice([None, 2, 3]), tf(), tf(), tf()]), ('round', [rng.choice([0, 1])]),
            ('red_o', [rng.choice(['max', 'min', 'argmax', 'argmin', 'median', 'sum', 'mean']), None, tf(), rng.choice([None, -99.])]),
            ('red_o', [rng.choice(['max', 'min', 'median', 'sum', 'mean']), 0, tf(), rng.choice([None, -99.])]),
            ('fn_nr', [rng.choice(['abs', 'sin', 'cos', 'tan', 'sqrt', 'log', 'exp', 'arcsin', 'arccos', 'arctan', 'reciprocal'])]),
            ('as_builtin', [rng.choice([None, -99.])]), ('as_int', []), ('as_float', []), ('as_numeric', []), ('frac', []),
            ('int', []), ('masked_single', []), ('zero', []), ('identity', []), ('without_derivs', []), ('unmasked_count', []),
            ('mask_where_eq_o', [rng.choice([0., 1., -1.]), rng.choice([None, 7.]), tf()]),
            ('mw_between_o', [rng.choice([-1., 0.]), rng.choice([0.5, 1.]), tf(), rng.choice([None, 7.]), tf()]),
            ('mw_outside_o', [rng.choice([-1., 0.]), rng.choice([0.5, 1.]), tf(), rng.choice([None, 7.]), tf()]),
            ('clip_o', [rng.choice([-1., 0., None]), rng.choice([0.5, 1., None]), tf(), tf()])]


DERIVE = [lambda v, r: ['addc', [r.choice([1., 0., -2.])], v], lambda v, r: ['subc', [1.], v], lambda v, r: ['mulc', [r.choice([3., 1., -1.])], v],
          lambda v, r: ['rmulc', [2.], v], lambda v, r: ['divc', [2.], v], lambda v, r: ['neg', [], v], lambda v, r: ['pos', [], v],
          lambda v, r: ['abs', [], v], lambda v, r: ['sin', [], v], lambda v, r: ['cos', [], v], lambda v, r: ['wod', [], v],
          lambda v, r: ['sqrt', [], v], lambda v, r: ['copy', [], v], lambda v, r: ['as_float', [], v], lambda v, r: ['sign', [], v],
          lambda v, r: ['expand_mask', [], v], lambda v, r: ['reshape', [None], v], lambda v, r: ['frac', [], v]]


def gen_twonames(rng, shape):
    """b = f(a) (not in place); assign into / operate in place on ONE of the two names; observe the OTHER (and both)"""
    g = Gen(rng, shape, derivs=rng.random() < 0.3)
    a, _, s = g.leaf('F', list(shape))
    n = len(g.env)
    f = rng.choice(DERIVE)(a, rng)
    if f[0] == 'reshape':
        f = ['reshape', [list(s)], a]
    prog = []
    if rng.random() < 0.4:
        prog.append(['query', rng.choice(QUERIES)(a)])
    prog.append(['let', f])
    leaves = len(g.env)

    def finish_env():
        return g.env

    # the index / right-hand side / operand leaves must be created BEFORE the derived slot number is known
    i, _, _ = g.leaf('I', rng.choice([[], [2], [3]]), axis_len=max(s[0], 1))
    bidx, _, _ = g.leaf('B', s[:1])
    rhs_leaf, _, _ = g.leaf('F', [])
    y, _, _ = g.leaf('F', rng.choice([list(s), []]))
    b = ['v', len(g.env)]                      # slot of the derived object (after all leaves)
    target, other = (b, a) if rng.random() < 0.6 else (a, b)
    for _ in range(rng.randint(1, 2)):
        r = rng.random()
        if r < 0.6:
            idx = i if rng.random() < 0.6 else bidx
            rhs = rng.choice([99., 0.5, rhs_leaf, rhs_leaf])
            prog.append(['set', target[1], 'i', idx, rhs])
        else:
            prog.append(['iop', rng.choice(IOPS_F[:4]), target[1], rng.choice([y, 2., y])])
        for _ in range(rng.randint(1, 3)):
            prog.append(['query', rng.choice(QUERIES)(rng.choice([other, other, target]))])
    return mk_prog(prog, g.env, 'twonames:' + f[0])


def gen_cases(rng, tier):
    thorough = tier == 'thorough'
    cases = []
    # 1c. INTEGER operands (int64 Scalars) in numeric positions: **, //, %, /, arithmetic, comparisons, reductions, sort,
    #     int(); hidden values special for integers (negative exponents, zero divisors, -1, int64 min / max, shifts 63 / 64)
    for _ in range(10 if thorough else 2):
        for shape in SHAPES:
            for name in ['powS', 'floordiv', 'mod', 'div', 'add', 'sub', 'mul', 'eq', 'ne', 'lt', 'ge', 'tvl_lt', 'maximum',
                         'minimum', 'stack']:
                for kinds in (('I', 'I'), ('I', 'F'), ('F', 'I')):
                    if name != 'powS' and kinds != ('I', 'I') and rng.random() < 0.5:
                        continue
                    g = Gen(rng, shape, derivs=False)
                    a, _, _ = g.leaf(kinds[0])
                    sb = g.leaf_shape()
                    g.env.append(gen_leaf(rng, kinds[1], sb, derivs=False, axis_len=3, nonneg=(name == 'powS')))
                    b = ['v', len(g.env) - 1]
                    cases.append(mk_case([name, [], a, b], g.env, 'int:' + name))
            for name, params in ([('pow', [e]) for e in (0, 1, 2, 3, -1, -2, 0.5, 5)] + [('neg', []), ('abs', []), ('sign', []),
                                 ('int', []), ('as_float', []), ('sqrt', []), ('recip', []), ('sum', [None]), ('mean', [None]),
                                 ('max', [None]), ('min', [None]), ('median', [None]), ('argmax', [None]), ('sum', [0]),
                                 ('max', [0]), ('sort', [0]), ('floordivc', [2]), ('modc', [2]), ('mulc', [3]), ('divc', [2]),
                                 ('rdivc', [1]), ('ltc', [1]), ('eqc', [0]), ('pickle', []), ('copy', [])]):
                if name in ('sum', 'max', 'sort') and params == [0] and not shape:
                    continue
                g = Gen(rng, shape, derivs=False)
                x, _, _ = g.leaf('I', list(shape))
                cases.append(mk_case([name, params, x], g.env, 'int:' + name))
    # 1d. linear-algebra paths: Matrix.inverse / reciprocal / M / M / M ** -n / unitary, Polynomial.roots, with hidden entries
    #     that are huge, tiny, NaN or infinite (the hidden block of a matrix is sometimes uniformly extreme, sometimes mixed)
    for _ in range(8 if thorough else 2):
        for shape in SHAPES:
            for t in ('M2', 'M3'):
                for name, params in (('inverse', []), ('inverse_nz', []), ('mrecip', []), ('mrecip_nz', []), ('pow', [-1]), ('pow', [-2]),
                                     ('pow', [2]), ('transpose', []), ('unitary', []), ('pickle', []), ('neg', []),
                                     ('is_diagonal', []), ('row_vector', [0]), ('m_to_scalar', [0, 1])):
                    g = Gen(rng, shape, derivs=False)
                    x, _, _ = g.leaf(t, list(shape))
                    if rng.random() < 0.4:          # a uniformly extreme hidden block
                        l = g.env[x[1]]
                        isz = int(np.prod(O.ITEM[t], dtype=int))
                        bits_ = mask_bits(l['mask'], l['shape'])
                        h = rng.choice(X_HID)
                        l['alt'] = [h if bits_[k // isz] else v for k, v in enumerate(l['alt'])]
                    cases.append(mk_case([name, params, x], g.env, 'lin:' + name))
                for name in ('div', 'mul', 'add', 'sub', 'eq', 'ne'):
                    g = Gen(rng, shape, derivs=False)
                    a, _, _ = g.leaf(t)
                    b, _, _ = g.leaf(t)
                    cases.append(mk_case([name, [], a, b], g.env, 'lin:' + name))
                g = Gen(rng, shape, derivs=False)
                a, _, _ = g.leaf(t)
                f, _, _ = g.leaf('F')
                cases.append(mk_case(['mul', [], a, f], g.env, 'lin:mulF'))
                cases.append(mk_case(['div', [], a, f], g.env, 'lin:divF'))
            for name, params in (('roots', []), ('poly_eval', [0.5]), ('poly_deriv', []), ('pickle', [])):
                g = Gen(rng, shape, derivs=False)
                x, _, _ = g.leaf('Y', list(shape))
                cases.append(mk_case([name, params, x], g.env, 'lin:Y' + name))
    # 1e. pickling with a requested precision (set_pickle_digits: lossy encodings scaled by 'largest' / 'mean' / 'logmean' /
    #     'smallest' / a number) of LARGE smooth arrays with a SPARSE mask (1-2 masked elements in 64 ... 500) whose hidden
    #     numbers are huge: the values restored at the unmasked elements must not depend on them
    for _ in range(4 if thorough else 1):
        for shape in ([64], [200], [20, 25], [8, 8], [3, 40]):
            for t in ('F', 'V'):
                for digits, ref in ((6, 'largest'), (6, 'mean'), (8, 'logmean'), (6, 1.0), (10, 'smallest'), (4, 'median'),
                                    ('single', 'fpzip'), ('double', 'fpzip'), ([6, 5], ['largest', 'mean'])):
                    n = int(np.prod(shape))
                    isz = int(np.prod(O.ITEM[t], dtype=int))
                    bits_ = [False] * n
                    for k in rng.sample(range(n), rng.choice([1, 1, 2])):
                        bits_[k] = True
                    def smooth(lo, hi, phase):
                        return [lo + (hi - lo) * ((i * isz + j + phase) / (n * isz)) for i in range(n) for j in range(isz)]
                    def leaf_of(vis, mask):
                        vals = [rng.choice([1.5, 1., 0.5]) if bits_[k // isz] else v for k, v in enumerate(vis)]
                        h = rng.choice([1e12, -1e15, 1e300, 1e9, -1e6, 1e-300, 0.])
                        alt = [h if bits_[k // isz] else v for k, v in enumerate(vis)]
                        return {'t': t, 'shape': list(shape), 'vals': vals, 'alt': alt, 'mask': mask, 'derivs': {}, 'units': None}
                    leaf = leaf_of(smooth(1., 2., 0), list(bits_))
                    if t == 'F' and rng.random() < 0.4:
                        leaf['derivs']['t'] = leaf_of(smooth(-1., 3., 1), list(bits_))
                    cases.append(mk_case(['pickle_d', [digits, ref], ['v', 0]], [leaf], 'pickle_d:%s' % (ref if isinstance(ref, str) else 'num')))
    # 1f. operations whose LIMITS / COEFFICIENTS are masked operands themselves: Vector.clip_component, Pair.clip2d, Scalar.clip
    #     with Scalar limits (entirely masked by the single value True, by an array, or partially; hidden limits on both sides
    #     of the data), mask_where_between/outside/ge with Scalar limits, and the multi-output Scalar.solve_quadratic with and
    #     without include_antimask (all returned items are observed)
    def limit(g, shape, t='F'):
        r = rng.random()
        sh = [] if rng.random() < 0.5 else list(shape)
        n = int(np.prod(sh, dtype=int))
        if r < 0.4:
            m = ([True] * n, 'T')
        elif r < 0.6:
            m = ([True] * n, [True] * n if sh else 'T')
        else:
            m = None
        g.env.append(gen_leaf(rng, t, sh, derivs=False, mask=m))
        return ['v', len(g.env) - 1]
    for _ in range(10 if thorough else 2):
        for shape in SHAPES:
            for t in ('V', 'Q'):
                for name in ('clipc_lu', 'clipc_l', 'clipc_u'):
                    g = Gen(rng, shape, derivs=False)
                    x, _, _ = g.leaf(t, list(shape))
                    ops = [x] + [limit(g, shape) for _ in range(2 if name == 'clipc_lu' else 1)]
                    cases.append(mk_case([name, [rng.randrange(O.ITEM[t][0]), rng.random() < 0.5]] + ops, g.env, 'lim:' + name))
            for name in ('clip2d_lu', 'clip2d_l', 'clip2d_u'):
                g = Gen(rng, shape, derivs=False)
                x, _, _ = g.leaf('Q', list(shape))
                ops = [x] + [limit(g, shape, 'Q') for _ in range(2 if name == 'clip2d_lu' else 1)]
                cases.append(mk_case([name, [rng.random() < 0.5]] + ops, g.env, 'lim:' + name))
            for name, nlim, params in (('clip_lu', 2, [rng.random() < 0.5, rng.random() < 0.5]), ('clip_l', 1, [rng.random() < 0.5]),
                                       ('clip_u', 1, [rng.random() < 0.5, rng.random() < 0.5]),
                                       ('mw_between_q', 2, [rng.random() < 0.5, rng.random() < 0.5]),
                                       ('mw_outside_q', 2, [rng.random() < 0.5, rng.random() < 0.5]), ('mw_ge_q', 1, [rng.random() < 0.5])):
                g = Gen(rng, shape)
                x, _, _ = g.leaf('F', list(shape))
                ops = [x] + [limit(g, shape) for _ in range(nlim)]
                cases.append(mk_case([name, params] + ops, g.env, 'lim:' + name))
            for name in ('solve_quadratic_am', 'solve_quadratic_am', 'solve_quadratic_all'):
                g = Gen(rng, shape, derivs=rng.random() < 0.3)
                ops = [g.leaf('F')[0] for _ in range(3)]
                cases.append(mk_case([name, []] + ops, g.env, 'multi:' + name))
    # 1b. the option values of the public element-wise and reducing methods
    for _ in range(8 if thorough else 2):
        for shape in SHAPES:
            for name, params in opt_ops(rng):
                g = Gen(rng, shape)
                x, _, _ = g.leaf('F', list(shape))
                cases.append(mk_case([name, params, x], g.env, 'o:' + name))
            for name, params in (('to_scalar', [rng.randint(0, 2)]), ('vint', []), ('as_int', []), ('fn_nr', ['norm'])):
                g = Gen(rng, shape, derivs=False)
                x, _, _ = g.leaf('V', list(shape))
                cases.append(mk_case([name, params, x], g.env, 'o:V' + name))
    # 1. every unary operation on every shape family, leaves with/without derivatives
    reps = 6 if thorough else 1
    for _ in range(reps):
        for shape in SHAPES:
            for name, params in SINGLE_OPS:
                g = Gen(rng, shape)
                x, _, _ = g.leaf('F', list(shape))
                cases.append(mk_case([name, params, x], g.env, 'u:' + name))
    # 2. binary operations and comparisons on broadcast pairs
    for _ in range(12 if thorough else 2):
        for shape in SHAPES:
            for name in B_FF + B_FB + ['stack']:
                g = Gen(rng, shape)
                a, _, _ = g.leaf('F')
                b, _, _ = g.leaf('F')
                cases.append(mk_case([name, [], a, b], g.env, 'b:' + name))
            for name in B_BB:
                g = Gen(rng, shape)
                a, _, _ = g.leaf('B')
                b, _, _ = g.leaf('B')
                cases.append(mk_case([name, [], a, b], g.env, 'b:' + name))
    # 3. reductions, sort, argmax/argmin with every axis form
    for _ in range(10 if thorough else 2):
        for shape in SHAPES:
            rank = len(shape)
            axes = [None] + list(range(-rank, rank)) + ([[0, 1]] if rank >= 2 else []) + ([[0, 2], [0, 1, 2]] if rank >= 3 else [])
            for ax in axes:
                for name in RED_F + ['argmax', 'argmin', 'sort']:
                    if name in ('argmax', 'argmin', 'sort') and isinstance(ax, list):
                        continue
                    if name == 'sort' and ax is None:
                        continue
                    g = Gen(rng, shape)
                    x, _, _ = g.leaf('F', list(shape))
                    cases.append(mk_case([name, [ax], x], g.env, 'r:' + name))
                for name in RED_B:
                    g = Gen(rng, shape)
                    x, _, _ = g.leaf('B', list(shape))
                    cases.append(mk_case([name, [ax], x], g.env, 'r:' + name))
    # 4. indexing by masked index objects, shrink/unshrink, pickling, mask_where
    for _ in range(150 if thorough else 25):
        for shape in SHAPES:
            g = Gen(rng, shape)
            t, _, _ = g.gen_index(0, rng.choice(['F', 'F', 'B']))
            cases.append(mk_case(t, g.env, 'index'))
    for _ in range(40 if thorough else 6):
        for shape in SHAPES:
            if not shape:
                continue
            g = Gen(rng, shape)
            x, _, s = g.leaf('F', list(shape))
            k = rng.randint(1, len(s))
            sh = s[len(s) - k:]
            bits = [rng.random() < 0.6 for _ in range(int(np.prod(sh, dtype=int)))]
            cases.append(mk_case(['shrink_unshrink', [bits, sh], x], g.env, 'shrink'))
            cases.append(mk_case(['shrink', [bits, sh], x], g.env, 'shrink'))
            inner = [rng.choice(['sqrt_nc', 'recip_nz', 'log_nc', 'exp', 'neg', 'sqrt']), [], ['shrink', [bits, sh], x]]
            cases.append(mk_case(['unshrink', [bits, sh], inner], g.env, 'shrink'))
            g2 = Gen(rng, shape)
            a, _, _ = g2.leaf('F', list(shape))
            b, _, _ = g2.leaf('B', list(shape))
            cases.append(mk_case([rng.choice(['mask_where', 'remask_or']), [], a, b], g2.env, 'mask_where'))
    # 5. vectors (oracle only)
    for _ in range(20 if thorough else 3):
        for shape in SHAPES[:10]:
            g = Gen(rng, shape, derivs=False)
            a, _, _ = g.leaf('V')
            b, _, _ = g.leaf('V')
            f, _, _ = g.leaf('F')
            for t in (['dot', [], a, b], ['cross', [], a, b], ['norm', [], a], ['unit', [], a], ['add', [], a, b],
                      ['mul', [], a, f], ['div', [], a, f], ['eq', [], a, b], ['ne', [], a, b], ['sep', [], a, b],
                      ['pickle', [], a], ['norm_sq', [], a]):
                cases.append(mk_case(t, g.env, 'vec:' + t[0]))
    # 5b. statement-level programs on a shared object (oracle only): item ASSIGNMENT through masked index objects, and
    #     histories  cached queries -> in-place operator with a masked operand -> queries again
    for _ in range(400 if thorough else 45):
        for shape in SHAPES:
            if shape:
                cases.append(gen_setitem(rng, shape))
            cases.append(gen_history(rng, shape))
            if shape and 0 not in shape:
                cases.append(gen_twonames(rng, shape))
                cases.append(gen_twonames(rng, shape))
    # 6. compositions: expression trees to depth 3
    ntrees = 40000 if thorough else 9000
    for k in range(ntrees):
        g = Gen(rng, rng.choice(SHAPES), ints=rng.choice([0.0, 0.0, 0.0, 0.25, 0.6]))
        depth = rng.choice([2, 2, 3, 3, 1])
        t, _, _ = g.gen(depth, rng.choice(['F', 'F', 'F', 'B']))
        cases.append(mk_case(t, g.env, 'tree:d%d' % O.tree_depth(t)))
    return finish(cases)


# ------------------------------------------------------------------ real code
def impl(case):
    """canonical observation of every node of the tree (post-order) on the real code, for this case's variant"""
    if 'prog' in case:
        return M.canon([o for _, o in O.run_prog(case['prog'], case['env'], case.get('variant', 'A'))], case)
    nodes, ws = O.eval_nodes(case['tree'], case['env'], case.get('variant', 'A'))
    res = [o for _, _, o in nodes]
    return M.canon(res, case)


def field_diff(a, b):
    if isinstance(a, str) or isinstance(b, str):
        return 'exc'
    if a[0] != b[0] or len(a) != len(b):
        return 'class'
    if a[0] in ('pybool', 'pyint', 'pyfloat'):
        return 'value'
    if a[0] in ('tuple', 'other'):
        return 'value'
    for k, nm in ((1, 'kind'), (2, 'shape'), (3, 'item'), (4, 'mask'), (5, 'units'), (6, 'values')):
        if a[k] != b[k]:
            return nm
    if [d[0] for d in a[7]] != [d[0] for d in b[7]]:
        return 'derivkeys'
    for da, db in zip(a[7], b[7]):
        if da != db:
            return 'deriv-' + field_diff(da[1], db[1])
    return '?'


def oracle(case):
    """the property itself: two runs that differ only underneath the masks give the same observation at every node"""
    if case.get('variant', 'A') != 'A':
        return None
    if 'prog' in case:
        ra = O.run_prog(case['prog'], case['env'], 'A')
        rb = O.run_prog(case['prog'], case['env'], 'B')
        prev = 'start'
        for k, ((la, oa), (lb, ob)) in enumerate(zip(ra, rb)):
            if oa != ob:
                after = [l for l, _ in ra[:k] if not l.startswith('query') and not l.startswith('let')]
                lets = [l[4:] for l, _ in ra if l.startswith('let:')]
                head = 'leak:prog2:%s' % lets[0] if lets else 'leak:prog'
                sig = '%s:%s:after-%s:%s' % (head, la, after[-1] if after else 'none', field_diff(oa, ob))
                return (sig, 'hidden values change what statement %d (%s) of the program %s shows: run A gives %s, run B (storage '
                        'under the masks overwritten) gives %s' % (k, la, C.sx(sxable(case['prog']))[:400],
                                                                 C.sx(sxable(oa))[:300], C.sx(sxable(ob))[:300]))
        return None
    na, wa = O.eval_nodes(case['tree'], case['env'], 'A')
    nb, wb = O.eval_nodes(case['tree'], case['env'], 'B')
    if any(w.startswith('bigint:') for w in wa + wb):
        return None         # a shapeless integer object outgrew int64 (Python int): finite-precision artefact, not judged
    # warnings that NumPy merely EMITS are not among the property's observables (class, shape, mask, units, unmasked
    # values and derivative values, truth values, whether an exception is raised): they are recorded but not compared
    for (pa, opa, oa), (pb, opb, ob) in zip(na, nb):
        if pa != pb or opa != opb:
            return ('leak:%s:exc' % opa, 'evaluation order diverged: %s vs %s' % (opa, opb))
        if oa != ob:
            sub = subtree(case['tree'], pa)
            inner = [c[0] for c in sub[2:] if c[0] != 'v']
            sig = 'leak:%s:%s' % (opa, field_diff(oa, ob))
            below = O.tree_ops(sub)[1:]
            if any(o in ('clip', 'clip_o') for o in below):
                sig += '@clip'          # the difference is the consequence of a clip() below this node
            elif any(o in MW_FAMILY for o in below):
                sig += '@mw'            # ... of a mask_where_xx() below this node
            return (sig, 'hidden values change the observable result of %s (params %s, inner ops %s): run A gives %s, run B '
                    '(storage under the masks overwritten) gives %s' % (opa, sub[1], inner, C.sx(sxable(oa))[:300], C.sx(sxable(ob))[:300]))
    if len(na) != len(nb):
        return ('leak:?:exc', 'the two runs evaluated different numbers of nodes')
    return None


def subtree(tree, path):
    for k in path:
        tree = tree[2 + k]
    return tree


def sxable(o):
    if o is None:
        return 'None'
    if isinstance(o, float):
        return repr(o)
    if isinstance(o, (list, tuple)):
        return [sxable(x) for x in o]
    return o


def neighbours(case):
    """smaller cases near a mismatching one: every proper subtree, and the same tree with single leaves un-scrambled"""
    if 'prog' in case:
        return
    tree, env = case['tree'], case['env']
    seen = []

    def subs(t):
        if t[0] == 'v':
            return
        for ch in t[2:]:
            if ch[0] != 'v':
                seen.append(ch)
                subs(ch)
    subs(tree)
    for t in seen:
        yield mk_case(t, env, 'nb')
    for i in range(len(env)):
        env2 = [dict(l, alt=l['vals']) if j != i else l for j, l in enumerate(env)]
        yield mk_case(tree, env2, 'nb')
