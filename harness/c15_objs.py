"""C15 helpers: identifier-tagged polymath objects, their canonical observation, wire form for the model.

An object description (JSON-able dict):
    {'cls': 'Vector', 'kind': 'float'|'int'|'bool', 'shape': [..], 'numer': [..], 'denom': [..],
     'mask': 'T'|'F'|[bits]|{'view': srcshape, 'bits': [...]},
     'base': int,                       # tag offset: value at ravelled position p is base + p
     'derivs': [{'key': 't', 'denom': [..], 'mask': rep, 'base': int, 'view': bool}, ...]}
Values are identifier tags: element p (C order over shape+numer+denom) holds base+p (bool kind: a fixed
pseudo-random bit of p), so every output element names the input element it came from.
"""
import numpy as np
from absn import mk_mask, mask_bits, mask_sx, expanded_mask
import polymath
from polymath import Qube, Scalar, Boolean, Vector, Vector3, Pair, Matrix, Matrix3, Quaternion

CLS = {'Qube': Qube, 'Scalar': Scalar, 'Boolean': Boolean, 'Vector': Vector, 'Vector3': Vector3, 'Pair': Pair,
       'Matrix': Matrix, 'Matrix3': Matrix3, 'Quaternion': Quaternion}
# (NRANK, NUMER) as in the class attributes; None = unconstrained.  Checked against the classes at import.
CLS_TABLE = {'Qube': (None, None), 'Scalar': (0, ()), 'Boolean': (0, ()), 'Vector': (1, None), 'Vector3': (1, (3,)),
             'Pair': (1, (2,)), 'Matrix': (2, None), 'Matrix3': (2, (3, 3)), 'Quaternion': (1, (4,))}
for _n, (_r, _s) in CLS_TABLE.items():
    assert CLS[_n].NRANK == _r and CLS[_n].NUMER == _s, (_n, CLS[_n].NRANK, CLS[_n].NUMER)


def prod(s):
    return int(np.prod(s, dtype=int))


def bool_tag(p):
    return ((p * 7 + 3) % 5) < 2


def tags_int(kind, base, shape, item, view=False):
    """identifier tags as an int64 array over shape+item (bool kind: the tag's fixed bit); `view` = the first row
    repeated along the first leading axis (what a broadcast produces)"""
    full = list(shape) + list(item)
    n = prod(full)
    if kind == 'bool':
        V = np.array([int(bool_tag(base + p)) for p in range(n)], dtype='int64').reshape(full)
    else:
        V = (np.arange(n, dtype='int64') + base).reshape(full)
    if view and len(shape) >= 1 and shape[0] > 1:
        V = np.broadcast_to(V[:1], tuple(full)).copy()
    return V


def typed(V, kind):
    return V.astype({'bool': bool, 'float': 'float64', 'int': 'int64'}[kind])


# ------------------------------------------------------------------------------------------ operand provenance
# 'layout' of an object description says HOW the arrays handed to polymath came about; the logical content (and the
# request line for the model) never depends on it:
#   None / {'kind': 'C'}   fresh C-contiguous arrays
#   {'kind': 'F'}          np.asfortranarray copies
#   {'kind': 'T'}          transposed views of C-contiguous bases (Fortran-ordered, not owning their data)
#   {'kind': 'step'} / {'kind': 'step0'}   every second element of a wider base along the last / first axis
#   {'kind': 'hist', 'op': 'swap_axes'|'move_axis'|'roll_axis'|'broadcast_to', 'args': [...]}
#                          the object is the RESULT of that polymath operation on a C-contiguous pre-image
def lay(arr, layout):
    kind = (layout or {}).get('kind', 'C')
    if not isinstance(arr, np.ndarray) or arr.ndim == 0 or kind in ('C', 'hist'):
        return arr
    if kind == 'F':
        return np.asfortranarray(arr)
    if kind == 'T':
        return np.ascontiguousarray(arr.transpose()).transpose()
    if kind in ('step', 'step0'):
        ax = arr.ndim - 1 if kind == 'step' else 0
        wide = list(arr.shape); wide[ax] = 2 * wide[ax]
        base = np.zeros(wide, dtype=arr.dtype)
        idx = [slice(None)] * arr.ndim; idx[ax] = slice(None, None, 2)
        base[tuple(idx)] = arr
        return base[tuple(idx)]
    raise KeyError(kind)


def make(cls, vals, m, shape, numer, denom):
    c = CLS[cls]
    if c is Qube:
        return Qube(vals, m, nrank=len(numer), drank=len(denom))
    if not shape and not numer and not denom and isinstance(vals, np.ndarray):
        vals = vals[()]
    return c(vals, m, drank=len(denom))


def parts(o):
    """the intended arrays: (vals, mask, [(key, denom, dvals, dmask)])"""
    shape = list(o['shape'])
    vals = typed(tags_int(o['kind'], o.get('base', 0), shape, list(o['numer']) + list(o['denom']), o.get('bview', False)),
                 o['kind'])
    ds = []
    for d in o.get('derivs', []):
        dv = typed(tags_int('float', d['base'], shape, list(o['numer']) + list(d['denom']), d.get('view', False)), 'float')
        ds.append((d['key'], list(d['denom']), dv, mk_mask(d['mask'], shape), d.get('view', False)))
    return vals, mk_mask(o['mask'], shape), ds


def assemble(o, vals, m, ds, shape, layout=None, views=True):
    def vw(x, isview):
        # a stride-0 broadcast view along the first axis, as insert_deriv / broadcast_to produce
        if views and isview and len(shape) >= 1 and shape[0] > 1:
            return np.broadcast_to(x[:1], x.shape)
        return lay(x, layout)
    def lm(x):
        return lay(x, layout) if isinstance(x, np.ndarray) and x.flags.writeable else x
    q = make(o['cls'], vw(vals, o.get('bview', False)), lm(m), shape, o['numer'], o['denom'])
    dcls = o['cls'] if o['cls'] != 'Boolean' else 'Scalar'
    for key, dk, dv, dm, isview in ds:
        q.insert_deriv(key, make(dcls, vw(dv, isview), lm(dm), shape, o['numer'], dk))
    return q


def build_plain(o, layout=None):
    vals, m, ds = parts(o)
    return assemble(o, vals, m, ds, list(o['shape']), layout)


WARMERS = ('antimask', 'wod', 'corners', 'slicer')


def warm(q, names):
    """query cached accessors BEFORE the operation under test (results must not inherit stale cache entries)"""
    for nme in names or ():
        try:
            getattr(q, nme)
            for d in q._derivs_.values():
                getattr(d, nme)
        except Exception:
            pass
    return q


def cache_problem(r):
    """None, or a description of a cached accessor of a RESULT that disagrees with its arrays"""
    objs = list(r) if isinstance(r, (tuple, list)) else [r]
    for q in objs:
        if not isinstance(q, Qube):
            continue
        for x in [q] + list(q._derivs_.values()):
            m = expanded_mask(x)
            try:
                am = np.broadcast_to(np.asarray(x.antimask), x._shape_)
            except Exception as e:
                return 'antimask raised %s' % type(e).__name__
            if not np.array_equal(am, ~m):
                return 'antimask disagrees with the mask'
            w = x.wod
            if w._derivs_ or tuple(w._shape_) != tuple(x._shape_) or not np.array_equal(expanded_mask(w), m) \
                    or not np.array_equal(np.asarray(w._values_), np.asarray(x._values_)):
                return 'wod disagrees with the object'
            try:
                fresh = x.clone(recursive=False)
                a, b = x.corners, fresh.corners
                if a != b:
                    return 'corners disagree with a fresh clone: %s vs %s' % (a, b)
            except Exception:
                pass
    return None


def build(o):
    return warm(build_cold(o), o.get('warm'))


def build_cold(o):
    layout = o.get('layout')
    if not layout or layout.get('kind') != 'hist':
        return build_plain(o, layout)
    # the object is the result of a previous shaping operation applied to a C-contiguous pre-image
    try:
        shape = list(o['shape'])
        L = len(shape)
        vals, m, ds = parts(o)
        op, a = layout['op'], layout['args']
        if op == 'swap_axes':
            inv = lambda X: np.swapaxes(X, a[0], a[1])
            fwd = lambda q: q.swap_axes(a[0], a[1])
        elif op == 'move_axis':
            inv = lambda X: np.moveaxis(X, a[1], a[0])
            fwd = lambda q: q.move_axis(a[0], a[1])
        elif op == 'roll_axis':
            inv = lambda X: np.moveaxis(X, 0, a[0])
            fwd = lambda q: q.roll_axis(a[0], 0)
        elif op == 'broadcast_to':
            inv = lambda X: X[:1]
            fwd = lambda q: q.broadcast_to(tuple(shape))
        else:
            raise KeyError(op)
        pre = lambda X: np.ascontiguousarray(inv(X)) if isinstance(X, np.ndarray) and X.ndim >= L and L else X
        pshape = list(pre(np.zeros(shape)).shape)
        q0 = assemble(o, pre(vals), pre(m), [(k, dk, pre(dv), pre(dm), v) for k, dk, dv, dm, v in ds], pshape, views=False)
        q = fwd(q0)
        if observe(q) == observe(build_plain(o)):
            return q
    except Exception:
        pass
    return build_plain(o)        # the history itself went wrong (judged by its own cases): plain operand


# ---------------------------------------------------------------------------------- tagged reference arrays
def ref_arrays(o):
    """(V, M, [(key, denom, V_k, M_k)]) as plain integer / bool NumPy arrays (views expanded)"""
    shape = list(o['shape'])
    M = np.array(mask_bits(o['mask'], shape), dtype=bool).reshape(shape)
    V = tags_int(o['kind'], o.get('base', 0), shape, list(o['numer']) + list(o['denom']), o.get('bview', False))
    ds = []
    for d in o.get('derivs', []):
        Vk = tags_int('float', d['base'], shape, list(o['numer']) + list(d['denom']), d.get('view', False))
        Mk = np.array(mask_bits(d['mask'], shape), dtype=bool).reshape(shape)
        ds.append((d['key'], list(d['denom']), Vk, Mk))
    return V, M, ds


# ---------------------------------------------------------------------------------- canonical observation
def render0(shape, isz, V, M):
    """values (hidden ones as 'x') and expanded mask bits, row-major"""
    n = prod(shape)
    Vf = np.asarray(V).reshape(n, isz)
    Mf = np.asarray(M).reshape(n)
    vals = []
    for i in range(n):
        if Mf[i]:
            vals += ['x'] * isz
        else:
            vals += [int(round(float(x))) for x in Vf[i]]
    return vals, [bool(b) for b in Mf]


def render(cls, shape, numer, denom, V, M, derivs):
    """derivs: iterable of (key, denom_k, V_k, M_k)"""
    vals, bits = render0(shape, prod(numer) * prod(denom), V, M)
    ds = []
    for key, dk, Vk, Mk in sorted(derivs, key=lambda t: t[0]):
        v, b = render0(shape, prod(numer) * prod(dk), Vk, Mk)
        ds.append([key, list(dk), v, b])
    return [cls, list(shape), list(numer), list(denom), vals, bits, ds]


def observe(q):
    """canonical observation of a result of the real code"""
    if isinstance(q, (tuple, list)):
        return ['tuple'] + [observe(x) for x in q]
    assert isinstance(q, Qube), type(q)
    shape = list(q._shape_)
    def arrs(x):
        full = tuple(x._shape_) + tuple(x._numer_) + tuple(x._denom_)
        V = np.broadcast_to(np.asarray(x._values_), full)
        return V, expanded_mask(x)
    V, M = arrs(q)
    ds = []
    for key, d in q._derivs_.items():
        assert tuple(d._shape_) == tuple(q._shape_), ('deriv shape', d._shape_, q._shape_)
        assert tuple(d._numer_) == tuple(q._numer_), ('deriv numer', d._numer_, q._numer_)
        Vk, Mk = arrs(d)
        ds.append((key, list(d._denom_), Vk, Mk))
    return render(type(q).__name__, shape, list(q._numer_), list(q._denom_), V, M, ds)


# ---------------------------------------------------------------------------------- wire form for the model
def obj_sx(o):
    """wire form: logical content only (provenance / memory layout is invisible to the model)"""
    shape = list(o['shape'])
    V, M, ds = ref_arrays(o)
    out = []
    for (key, dk, Vk, Mk), d in zip(ds, o.get('derivs', [])):
        out.append([key, list(dk), [int(x) for x in Vk.ravel()], mask_sx(d['mask'], shape)])
    return [o['cls'], shape, list(o['numer']), list(o['denom']), [int(x) for x in V.ravel()], mask_sx(o['mask'], shape), out]
