"""C15 helpers: identifier-tagged polymath objects, their canonical observation, wire form for the model.

An object description (JSON-able dict):
    {'cls': 'Vector', 'kind': 'float'|'int'|'bool', 'shape': [..], 'numer': [..], 'denom': [..],
     'mask': 'T'|'F'|[bits]|{'view': srcshape, 'bits': [...]},
     'base': int,                       # tag offset: value at ravelled position p is base + p
     'derivs': [{'key': 't', 'denom': [..], 'mask': rep, 'base': int, 'view': bool}, ...]}
Values are identifier tags: element p (C order over shape+numer+denom) holds base+p (bool kind: a fixed
pseudo-random bit of p), so every output element names the input element it came from.
"""
import numpy as np
from absn import mk_mask, mask_bits, mask_sx, expanded_mask
import polymath
from polymath import Qube, Scalar, Boolean, Vector, Vector3, Pair, Matrix, Matrix3, Quaternion

CLS = {'Qube': Qube, 'Scalar': Scalar, 'Boolean': Boolean, 'Vector': Vector, 'Vector3': Vector3, 'Pair': Pair,
       'Matrix': Matrix, 'Matrix3': Matrix3, 'Quaternion': Quaternion}
# (NRANK, NUMER) as in the class attributes; None = unconstrained.  Checked against the classes at import.
CLS_TABLE = {'Qube': (None, None), 'Scalar': (0, ()), 'Boolean': (0, ()), 'Vector': (1, None), 'Vector3': (1, (3,)),
             'Pair': (1, (2,)), 'Matrix': (2, None), 'Matrix3': (2, (3, 3)), 'Quaternion': (1, (4,))}
for _n, (_r, _s) in CLS_TABLE.items():
    assert CLS[_n].NRANK == _r and CLS[_n].NUMER == _s, (_n, CLS[_n].NRANK, CLS[_n].NUMER)


def prod(s):
    return int(np.prod(s, dtype=int))


def bool_tag(p):
    return ((p * 7 + 3) % 5) < 2


def tag_array(kind, base, full):
    n = prod(full)
    if kind == 'bool':
        return np.array([bool_tag(base + p) for p in range(n)], dtype=bool).reshape(full)
    return (np.arange(n, dtype='int64') + base).reshape(full).astype('float64' if kind == 'float' else 'int64')


def wire_vals(kind, base, full):
    n = prod(full)
    if kind == 'bool':
        return [int(bool_tag(base + p)) for p in range(n)]
    return [base + p for p in range(n)]


def build0(cls, kind, shape, numer, denom, mask, base, view=False):
    full = list(shape) + list(numer) + list(denom)
    vals = tag_array(kind, base, full)
    if view and len(shape) >= 1 and shape[0] > 1:
        # values that are a stride-0 broadcast view along the first axis (as insert_deriv produces)
        vals = np.broadcast_to(vals[:1], tuple(full))
    c = CLS[cls]
    m = mk_mask(mask, shape)
    if c is Qube:
        return Qube(vals, m, nrank=len(numer), drank=len(denom))
    if not shape and not numer and not denom:
        vals = vals[()]
    return c(vals, m, drank=len(denom))


def build(o):
    q = build0(o['cls'], o['kind'], o['shape'], o['numer'], o['denom'], o['mask'], o.get('base', 0))
    for d in o.get('derivs', []):
        dq = build0(o['cls'] if o['cls'] != 'Boolean' else 'Scalar', 'float', o['shape'], o['numer'], d['denom'],
                    d['mask'], d['base'], d.get('view', False))
        q.insert_deriv(d['key'], dq)
    return q


# ---------------------------------------------------------------------------------- tagged reference arrays
def ref_arrays(o):
    """(V, M, [(key, denom, V_k, M_k)]) as plain integer / bool NumPy arrays (view derivs expanded)"""
    shape = list(o['shape'])
    def one(kind, base, numer, denom, mask, view):
        full = shape + list(numer) + list(denom)
        if kind == 'bool':
            V = np.array(wire_vals(kind, base, full), dtype='int64').reshape(full)
        else:
            V = (np.arange(prod(full), dtype='int64') + base).reshape(full)
        if view and len(shape) >= 1 and shape[0] > 1:
            V = np.broadcast_to(V[:1], tuple(full)).copy()
        M = np.array(mask_bits(mask, shape), dtype=bool).reshape(shape)
        return V, M
    V, M = one(o['kind'], o.get('base', 0), o['numer'], o['denom'], o['mask'], False)
    ds = []
    for d in o.get('derivs', []):
        Vk, Mk = one('float', d['base'], o['numer'], d['denom'], d['mask'], d.get('view', False))
        ds.append((d['key'], list(d['denom']), Vk, Mk))
    return V, M, ds


# ---------------------------------------------------------------------------------- canonical observation
def render0(shape, isz, V, M):
    """values (hidden ones as 'x') and expanded mask bits, row-major"""
    n = prod(shape)
    Vf = np.asarray(V).reshape(n, isz)
    Mf = np.asarray(M).reshape(n)
    vals = []
    for i in range(n):
        if Mf[i]:
            vals += ['x'] * isz
        else:
            vals += [int(round(float(x))) for x in Vf[i]]
    return vals, [bool(b) for b in Mf]


def render(cls, shape, numer, denom, V, M, derivs):
    """derivs: iterable of (key, denom_k, V_k, M_k)"""
    vals, bits = render0(shape, prod(numer) * prod(denom), V, M)
    ds = []
    for key, dk, Vk, Mk in sorted(derivs, key=lambda t: t[0]):
        v, b = render0(shape, prod(numer) * prod(dk), Vk, Mk)
        ds.append([key, list(dk), v, b])
    return [cls, list(shape), list(numer), list(denom), vals, bits, ds]


def observe(q):
    """canonical observation of a result of the real code"""
    if isinstance(q, (tuple, list)):
        return ['tuple'] + [observe(x) for x in q]
    assert isinstance(q, Qube), type(q)
    shape = list(q._shape_)
    def arrs(x):
        full = tuple(x._shape_) + tuple(x._numer_) + tuple(x._denom_)
        V = np.broadcast_to(np.asarray(x._values_), full)
        return V, expanded_mask(x)
    V, M = arrs(q)
    ds = []
    for key, d in q._derivs_.items():
        assert tuple(d._shape_) == tuple(q._shape_), ('deriv shape', d._shape_, q._shape_)
        assert tuple(d._numer_) == tuple(q._numer_), ('deriv numer', d._numer_, q._numer_)
        Vk, Mk = arrs(d)
        ds.append((key, list(d._denom_), Vk, Mk))
    return render(type(q).__name__, shape, list(q._numer_), list(q._denom_), V, M, ds)


# ---------------------------------------------------------------------------------- wire form for the model
def obj_sx(o):
    shape = list(o['shape'])
    full = shape + list(o['numer']) + list(o['denom'])
    ds = []
    for d in o.get('derivs', []):
        fk = shape + list(o['numer']) + list(d['denom'])
        Vk = (np.arange(prod(fk), dtype='int64') + d['base']).reshape(fk)
        if d.get('view') and len(shape) >= 1 and shape[0] > 1:
            Vk = np.broadcast_to(Vk[:1], tuple(fk))
        ds.append([d['key'], list(d['denom']), [int(x) for x in Vk.ravel()], mask_sx(d['mask'], shape)])
    return [o['cls'], shape, list(o['numer']), list(o['denom']), wire_vals(o['kind'], o.get('base', 0), full),
            mask_sx(o['mask'], shape), ds]
