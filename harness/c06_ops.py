"""C06 helpers: expression trees over polymath's differentiable API.

A tree node is a JSON-serialisable dict {'op', 't' (item type tag), 'args': [...], 'p': {...}}.
For every node three things are defined here:
  * real(objs, p)      : the call on the real polymath objects,
  * guard(objs, p)     : is the point comfortably inside the smooth domain of the operation,
  * sym(progs, p, ts)  : the item-level program sent to the Lean model for ONE array element
                         (None: the operation is swept by the finite-difference oracle only).
Array structure (broadcasting, sum/mean over array axes, indexing, reshaping, stacking) is applied to
NumPy object arrays of per-element programs, i.e. by NumPy itself and not by polymath.
"""
import struct
import numpy as np
from polymath import Qube, Scalar, Vector, Vector3, Pair, Matrix, Matrix3, Quaternion

ITEM = {'S': (), 'V2': (2,), 'V3': (3,), 'M2': (2, 2), 'M3': (3, 3), 'R3': (3, 3), 'Q': (4,)}
LEAFCLS = {'S': Scalar, 'V2': Vector, 'V3': Vector3, 'M2': Matrix, 'M3': Matrix, 'Q': Quaternion}
CLSNAME = {'Scalar': Scalar, 'Vector': Vector, 'Vector3': Vector3, 'Pair': Pair, 'Matrix': Matrix, 'Quaternion': Quaternion}
# classes an operand of an item type may have (subclass / base class), objects and derivatives alike
ALTCLS = {'V2': ['Vector', 'Pair'], 'V3': ['Vector3', 'Vector'], 'S': ['Scalar'], 'M2': ['Matrix'], 'M3': ['Matrix'], 'Q': ['Quaternion']}
VN = {'V2': 2, 'V3': 3}
MN = {'M2': 2, 'M3': 3, 'R3': 3}


def bits(x):
    return struct.unpack('<Q', struct.pack('<d', float(x)))[0]


def unbits(n):
    return struct.unpack('<d', struct.pack('<Q', int(n)))[0]


class Bad(Exception):
    """the point is not comfortably smooth for the tree (generator rejects it)"""


def vals(q):
    return np.asarray(q._values_, dtype=float)


def need(cond):
    if not np.all(cond):
        raise Bad()


def vnorm(q):
    return np.sqrt(np.sum(vals(q) ** 2, axis=-1))


# --------------------------------------------------------------------------- catalogue
# name -> (signatures, real, guard, sym)
OPS = {}


def op(name, sigs, real, sym=None, guard=None):
    OPS[name] = {'sigs': sigs, 'real': real, 'sym': sym, 'guard': guard}


ALLT = ['S', 'V2', 'V3', 'M2', 'M3', 'Q']
S1 = [(('S',), 'S')]
S2 = [(('S', 'S'), 'S')]


def u(name):
    return lambda a, p, ts: ['u', name, a[0]]


def cnum(p):
    return float(p['c'])


# generic arithmetic
op('add', [((t, t), t) for t in ALLT], lambda o, p: o[0] + o[1], lambda a, p, ts: ['add', a[0], a[1]])
op('sub', [((t, t), t) for t in ALLT], lambda o, p: o[0] - o[1], lambda a, p, ts: ['sub', a[0], a[1]])
op('neg', [((t,), t) for t in ALLT], lambda o, p: -o[0], lambda a, p, ts: ['neg', a[0]])
op('smul', [((t, 'S'), t) for t in ALLT], lambda o, p: (o[0] * o[1]) if p.get('side', 'r') == 'r' else (o[1] * o[0]),
   lambda a, p, ts: ['smul', a[0], a[1]])
op('sdiv', [((t, 'S'), t) for t in ALLT], lambda o, p: o[0] / o[1], lambda a, p, ts: ['sdiv', a[0], a[1]],
   lambda o, p: need(np.abs(vals(o[1])) > 0.2))
op('nscale', [((t,), t) for t in ALLT], lambda o, p: (o[0] * cnum(p)) if p.get('side', 'r') == 'r' else (cnum(p) * o[0]),
   lambda a, p, ts: ['nscale', bits(cnum(p)), a[0]])
op('ndiv', [((t,), t) for t in ALLT], lambda o, p: o[0] / cnum(p), lambda a, p, ts: ['ndiv', a[0], bits(cnum(p))])
op('nadd', S1, lambda o, p: (o[0] + cnum(p)) if p.get('side', 'r') == 'r' else (cnum(p) + o[0]),
   lambda a, p, ts: ['add', a[0], ['lit', bits(cnum(p))]])
op('nsub', S1, lambda o, p: o[0] - cnum(p), lambda a, p, ts: ['sub', a[0], ['lit', bits(cnum(p))]])
op('rsub', S1, lambda o, p: cnum(p) - o[0], lambda a, p, ts: ['sub', ['lit', bits(cnum(p))], a[0]])
op('rdiv', S1, lambda o, p: cnum(p) / o[0], lambda a, p, ts: ['nscale', bits(cnum(p)), ['u', 'recip', a[0]]],
   lambda o, p: need(np.abs(vals(o[0])) > 0.2))

# scalar functions
op('abs', S1, lambda o, p: abs(o[0]) if p.get('form') == 'op' else o[0].abs(), u('abs'),
   lambda o, p: need(np.abs(vals(o[0])) > 0.1))
op('recip', S1, lambda o, p: o[0].reciprocal(), u('recip'), lambda o, p: need(np.abs(vals(o[0])) > 0.2))
for k in (0, 2, 3, 4):
    op('pow%d' % k, S1, (lambda k: lambda o, p: o[0] ** k)(k), u('pow%d' % k))
op('pow1', S1, lambda o, p: o[0] ** 1, lambda a, p, ts: a[0])
op('pown1', S1, lambda o, p: o[0] ** -1, u('recip'), lambda o, p: need(np.abs(vals(o[0])) > 0.2))
op('powh', S1, lambda o, p: o[0] ** 0.5, u('sqrt'), lambda o, p: need(vals(o[0]) > 0.2))
op('pownh', S1, lambda o, p: o[0] ** -0.5, u('pownh'), lambda o, p: need(vals(o[0]) > 0.2))
op('powi', S1, lambda o, p: o[0] ** int(p['n']), lambda a, p, ts: ['powi', int(p['n']), a[0]],
   lambda o, p: need(np.abs(vals(o[0])) > 0.3))
op('powg', S1, lambda o, p: o[0] ** float(p['e']), lambda a, p, ts: ['powg', bits(p['e']), a[0]],
   lambda o, p: need(vals(o[0]) > 0.2))
op('sin', S1, lambda o, p: o[0].sin(), u('sin'))
op('cos', S1, lambda o, p: o[0].cos(), u('cos'))
op('tan', S1, lambda o, p: o[0].tan(), u('tan'), lambda o, p: need(np.abs(np.cos(vals(o[0]))) > 0.25))
op('asin', S1, lambda o, p: o[0].arcsin(), u('asin'), lambda o, p: need(np.abs(vals(o[0])) < 0.9))
op('acos', S1, lambda o, p: o[0].arccos(), u('acos'), lambda o, p: need(np.abs(vals(o[0])) < 0.9))
op('atan', S1, lambda o, p: o[0].arctan(), u('atan'))
op('exp', S1, lambda o, p: o[0].exp(), u('exp'), lambda o, p: need(vals(o[0]) < 5))
op('log', S1, lambda o, p: o[0].log(), u('log'), lambda o, p: need(vals(o[0]) > 0.2))
op('sqrt', S1, lambda o, p: o[0].sqrt(), u('sqrt'), lambda o, p: need(vals(o[0]) > 0.2))
op('atan2', S2, lambda o, p: o[0].arctan2(o[1]), lambda a, p, ts: ['atan2', a[0], a[1]],
   lambda o, p: need(((vals(o[1]) > 0.15) | (np.abs(vals(o[0])) > 0.15))))

# vectors
VV_S = [(('V2', 'V2'), 'S'), (('V3', 'V3'), 'S')]
VV_V = [(('V2', 'V2'), 'V2'), (('V3', 'V3'), 'V3')]
V_S = [(('V2',), 'S'), (('V3',), 'S')]
V_V = [(('V2',), 'V2'), (('V3',), 'V3')]
op('dot', VV_S, lambda o, p: o[0].dot(o[1]), lambda a, p, ts: ['dot', a[0], a[1]])
op('norm', V_S + [(('Q',), 'S')], lambda o, p: o[0].norm(), lambda a, p, ts: ['norm', a[0]],
   lambda o, p: need(vnorm(o[0]) > 0.2))
op('normsq', V_S + [(('Q',), 'S')], lambda o, p: o[0].norm_sq(), lambda a, p, ts: ['normsq', a[0]])
op('cross', [(('V3', 'V3'), 'V3'), (('V2', 'V2'), 'S')], lambda o, p: o[0].cross(o[1]),
   lambda a, p, ts: ['cross3' if ts[0] == 'V3' else 'cross2', a[0], a[1]])
op('outer', [(('V2', 'V2'), 'M2'), (('V3', 'V3'), 'M3')], lambda o, p: o[0].outer(o[1]),
   lambda a, p, ts: ['outer', a[0], a[1]])
op('unit', V_V, lambda o, p: o[0].unit(), lambda a, p, ts: ['unit', a[0]], lambda o, p: need(vnorm(o[0]) > 0.2))
op('perp', VV_V, lambda o, p: o[0].perp(o[1]), lambda a, p, ts: ['perp', a[0], a[1]],
   lambda o, p: need(vnorm(o[1]) > 0.2))
op('proj', VV_V, lambda o, p: o[0].proj(o[1]), lambda a, p, ts: ['proj', a[0], a[1]],
   lambda o, p: need(vnorm(o[1]) > 0.2))
op('ucross', [(('V3', 'V3'), 'V3')], lambda o, p: o[0].ucross(o[1]), lambda a, p, ts: ['ucross', a[0], a[1]],
   lambda o, p: need(np.sqrt(np.sum(np.cross(vals(o[0]), vals(o[1])) ** 2, axis=-1)) > 0.2))
op('withnorm', [(('V2', 'S'), 'V2'), (('V3', 'S'), 'V3')], lambda o, p: o[0].with_norm(o[1]),
   lambda a, p, ts: ['withnorm', a[0], a[1]], lambda o, p: need(vnorm(o[0]) > 0.2))


def _sep_guard(o, p):
    a, b = vals(o[0]), vals(o[1])
    na, nb = vnorm(o[0]), vnorm(o[1])
    need(na > 0.2); need(nb > 0.2)
    c = np.sum(a * b, axis=-1) / (na * nb)
    need(np.abs(c) < 0.95)          # away from parallel / antiparallel
    need(np.abs(c) > 0.05)          # the formula switches branch at a.b = 0 (same function, but keep clear)


op('sep', VV_S, lambda o, p: o[0].sep(o[1]), lambda a, p, ts: ['sep', a[0], a[1]], _sep_guard)
op('emul', VV_V, lambda o, p: o[0].element_mul(o[1]), lambda a, p, ts: ['emul', a[0], a[1]])
op('ediv', VV_V, lambda o, p: o[0].element_div(o[1]), lambda a, p, ts: ['ediv', a[0], a[1]],
   lambda o, p: need(np.abs(vals(o[1])) > 0.2))
op('to_scalar', V_S, lambda o, p: o[0].to_scalar(int(p['i'])), lambda a, p, ts: ['comp', int(p['i']), a[0]])
op('from_scalars2', [(('S', 'S'), 'V2')], lambda o, p: Vector.from_scalars(o[0], o[1]),
   lambda a, p, ts: ['cat', a[0], a[1]])
op('from_scalars3', [(('S', 'S', 'S'), 'V3')], lambda o, p: Vector3.from_scalars(o[0], o[1], o[2]),
   lambda a, p, ts: ['cat', ['cat', a[0], a[1]], a[2]])

# constructor-like class methods of Vector3 (each argument carries its own keys)
S3V = [(('S', 'S', 'S'), 'V3')]


def _radec2_real(o, p):
    form = p.get('len', 'none')
    if form == 'none':
        return Vector3.from_ra_dec_length(o[0], o[1])
    if form == 'one':
        return Vector3.from_ra_dec_length(o[0], o[1], 1.)
    return Vector3.from_ra_dec_length(o[0], o[1], float(p['c']))


def _radec2_sym(a, p, ts):
    if p.get('len', 'none') in ('none', 'one') or (p.get('len') == 'num' and float(p['c']) == 1.0):
        return ['fromradec', a[0], a[1]]
    return ['fromradeclen', a[0], a[1], ['lit', bits(float(p['c']))]]


op('from_ra_dec_length', S3V, lambda o, p: Vector3.from_ra_dec_length(o[0], o[1], o[2]),
   lambda a, p, ts: ['fromradeclen', a[0], a[1], a[2]])
op('from_ra_dec', [(('S', 'S'), 'V3')], _radec2_real, _radec2_sym)
op('from_cylindrical', S3V, lambda o, p: Vector3.from_cylindrical(o[0], o[1], o[2]), lambda a, p, ts: ['fromcyl', a[0], a[1], a[2]])
op('from_cylindrical2', [(('S', 'S'), 'V3')], lambda o, p: Vector3.from_cylindrical(o[0], o[1]),
   lambda a, p, ts: ['fromcyl', a[0], a[1], ['lit', bits(0.0)]])


def _radec_guard(o, p):
    need(isinstance(o[0], Vector3))                    # a Vector3 method (operands may be base-class Vectors)
    v = vals(o[0])
    n = vnorm(o[0])
    need(n > 0.3)
    i = int(p['i'])
    if i == 0:
        need(np.abs(v[..., 1]) > 0.15)                 # away from the arctan2 cut and the wrap of `% 2pi`
    if i == 1:
        need(np.abs(v[..., 2] / n) < 0.9)


op('to_ra_dec_length', [(('V3',), 'S')], lambda o, p: o[0].to_ra_dec_length()[int(p['i'])], None, _radec_guard)


def _cyl_guard(o, p):
    need(isinstance(o[0], Vector3))
    v = vals(o[0])
    i = int(p['i'])
    if i == 0:
        need(v[..., 0] ** 2 + v[..., 1] ** 2 > 0.1)
    if i == 1:
        need(np.abs(v[..., 1]) > 0.15)


op('to_cylindrical', [(('V3',), 'S')], lambda o, p: o[0].to_cylindrical()[int(p['i'])], None, _cyl_guard)

# matrices
MM = [(('M2', 'M2'), 'M2'), (('M3', 'M3'), 'M3')]
op('matmul', MM, lambda o, p: o[0] * o[1], lambda a, p, ts: ['matmul', MN[ts[0]], MN[ts[0]], MN[ts[0]], a[0], a[1]])
op('matvec', [(('M2', 'V2'), 'V2'), (('M3', 'V3'), 'V3')], lambda o, p: o[0] * o[1],
   lambda a, p, ts: ['matmul', MN[ts[0]], MN[ts[0]], 1, a[0], a[1]])
op('transpose', [(('M2',), 'M2'), (('M3',), 'M3')], lambda o, p: o[0].transpose() if p.get('form') != 'T' else o[0].T,
   lambda a, p, ts: ['transpose', MN[ts[0]], MN[ts[0]], a[0]])
op('inverse', [(('M2',), 'M2'), (('M3',), 'M3')], lambda o, p: o[0].inverse() if p.get('form') != 'recip' else o[0].reciprocal(),
   lambda a, p, ts: ['inverse', MN[ts[0]], a[0]], lambda o, p: need(np.abs(np.linalg.det(vals(o[0]))) > 0.3))
op('m_to_scalar', [(('M2',), 'S'), (('M3',), 'S')], lambda o, p: o[0].to_scalar(int(p['i']), int(p['j'])),
   lambda a, p, ts: ['comp', int(p['i']) * MN[ts[0]] + int(p['j']), a[0]])
op('row_vector', [(('M2',), 'V2'), (('M3',), 'V3')], lambda o, p: o[0].row_vector(int(p['i'])),
   lambda a, p, ts: ['slice', int(p['i']) * MN[ts[0]], (int(p['i']) + 1) * MN[ts[0]], a[0]])
op('mdiv', MM, lambda o, p: o[0] / o[1], lambda a, p, ts: ['mdiv', MN[ts[0]], a[0], a[1]],
   lambda o, p: need(np.abs(np.linalg.det(vals(o[1]))) > 0.3))

# rotations
ROTF = [Matrix3.x_rotation, Matrix3.y_rotation, Matrix3.z_rotation]
op('rot', [(('S',), 'R3')], lambda o, p: ROTF[int(p['axis'])](o[0]) if p.get('form') != 'axis' else Matrix3.axis_rotation(o[0], int(p['axis'])),
   lambda a, p, ts: ['rot', int(p['axis']), a[0]])
op('rotate', [(('R3', 'V3'), 'V3')], lambda o, p: o[0].rotate(o[1]) if p.get('form') != 'mul' else o[0] * o[1],
   lambda a, p, ts: ['matmul', 3, 3, 1, a[0], a[1]])
def _tr(n, x, t):
    return ['transpose', n, n, x] if t else x


# Matrix3.unrotate = Qube.dot(self, arg, -2, 0): the transposed matrix times the vector / matrix
op('unrotate', [(('R3', 'V3'), 'V3')], lambda o, p: o[0].unrotate(o[1]), lambda a, p, ts: ['matmul', 3, 3, 1, ['transpose', 3, 3, a[0]], a[1]])
op('unrotate_m', [(('R3', 'M3'), 'M3')], lambda o, p: o[0].unrotate(o[1]), lambda a, p, ts: ['matmul', 3, 3, 3, ['transpose', 3, 3, a[0]], a[1]])
# Qube.dot with explicit numerator axes: matrix . vector and matrix . matrix, every axis pair
op('mdot', [(('M3', 'V3'), 'V3'), (('M2', 'V2'), 'V2'), (('R3', 'V3'), 'V3')],
   lambda o, p: Qube.dot(o[0], o[1], int(p['a1']), int(p['a2']), (Vector3, Vector)),
   lambda a, p, ts: ['matmul', MN[ts[0]], MN[ts[0]], 1, _tr(MN[ts[0]], a[0], int(p['a1']) % 2 == 0), a[1]])
op('mmdot', [(('M3', 'M3'), 'M3'), (('M2', 'M2'), 'M2'), (('R3', 'M3'), 'M3')],
   lambda o, p: Qube.dot(o[0], o[1], int(p['a1']), int(p['a2']), (Matrix,)),
   lambda a, p, ts: ['matmul', MN[ts[0]], MN[ts[0]], MN[ts[0]], _tr(MN[ts[0]], a[0], int(p['a1']) % 2 == 0),
                     _tr(MN[ts[0]], a[1], int(p['a2']) % 2 == 1)])
op('rmul', [(('R3', 'R3'), 'R3')], lambda o, p: o[0] * o[1], lambda a, p, ts: ['matmul', 3, 3, 3, a[0], a[1]])
op('rT', [(('R3',), 'R3')], lambda o, p: o[0].reciprocal() if p.get('form') == 'recip' else o[0].T,
   lambda a, p, ts: ['transpose', 3, 3, a[0]])
op('r_to_scalar', [(('R3',), 'S')], lambda o, p: o[0].to_scalar(int(p['i']), int(p['j'])),
   lambda a, p, ts: ['comp', int(p['i']) * 3 + int(p['j']), a[0]])


def _twovec_guard(o, p):
    a, b = vals(o[0]), vals(o[1])
    need(vnorm(o[0]) > 0.3); need(vnorm(o[1]) > 0.3)
    cr = np.cross(a, b)
    need(np.sqrt(np.sum(cr ** 2, axis=-1)) > 0.3 * vnorm(o[0]) * vnorm(o[1]))


op('twovec', [(('V3', 'V3'), 'R3')], lambda o, p: Matrix3.twovec(o[0], int(p['a1']), o[1], int(p['a2'])),
   lambda a, p, ts: ['twovec', int(p['a1']), int(p['a2']), a[0], a[1]], _twovec_guard)

# quaternions
op('qmul', [(('Q', 'Q'), 'Q')], lambda o, p: o[0] * o[1], lambda a, p, ts: ['qmul', a[0], a[1]])
op('qconj', [(('Q',), 'Q')], lambda o, p: o[0].conj(), lambda a, p, ts: ['qconj', a[0]])
op('qrecip', [(('Q',), 'Q')], lambda o, p: o[0].reciprocal(), lambda a, p, ts: ['qrecip', a[0]],
   lambda o, p: need(vnorm(o[0]) > 0.3))
op('from_parts', [(('S', 'V3'), 'Q')], lambda o, p: Quaternion.from_parts(o[0], o[1]), lambda a, p, ts: ['cat', a[0], a[1]])
op('to_parts0', [(('Q',), 'S')], lambda o, p: o[0].to_parts()[0], lambda a, p, ts: ['comp', 0, a[0]])
op('to_parts1', [(('Q',), 'V3')], lambda o, p: o[0].to_parts()[1], lambda a, p, ts: ['slice', 1, 4, a[0]])
op('to_matrix3', [(('Q',), 'R3')], lambda o, p: o[0].to_matrix3(), lambda a, p, ts: ['tomatrix3', a[0]], lambda o, p: need(vnorm(o[0]) > 0.3))
op('from_rotation', [(('S', 'V3'), 'Q')], lambda o, p: Quaternion.from_rotation(o[0], o[1]),
   lambda a, p, ts: ['fromrotation', a[0], a[1]],
   lambda o, p: need(vnorm(o[1]) > 0.3))


def _torot_guard(o, p):
    v = vals(o[0])
    need(np.sqrt(np.sum(v[..., 1:] ** 2, axis=-1)) > 0.3)


op('to_rotation0', [(('Q',), 'S')], lambda o, p: o[0].to_rotation()[0],
   lambda a, p, ts: ['torotation0', a[0]], _torot_guard)
op('to_rotation1', [(('Q',), 'V3')], lambda o, p: o[0].to_rotation()[1],
   lambda a, p, ts: ['torotation1', a[0]], _torot_guard)

STRUCT = ('sum', 'mean', 'getitem', 'reshape', 'swap_axes', 'stack', 'flatten', 'bcast')


# --------------------------------------------------------------------------- leaves
def leaf_shapes(node):
    return tuple(node['shape']), ITEM[node['t']]


def warm_up(obj, node):
    """touch cached views / use the operand before the tree does (leaf reuse with a warm cache)"""
    for w in node.get('warm', []):
        if w == 'wod':
            obj.wod
        elif w == 'antimask':
            obj.antimask
        elif w == 'mul2':
            obj * 2
        elif w == 'self_mul':
            if node['t'] == 'S':
                obj * obj
        elif w == 'func':
            if node['t'] == 'S':
                obj.sin()
            elif node['t'] in ('V2', 'V3', 'Q'):
                obj.norm_sq()
            else:
                obj.transpose()
        elif w == 'without_derivs':
            obj.without_derivs()
        elif w == 'add0':
            obj + obj
    return obj


def make_leaf(node, keys, mode, disp=None):
    return warm_up(_make_leaf(node, keys, mode, disp), node)


def _make_leaf(node, keys, mode, disp=None):
    """mode 'full': with derivatives; 'plain': values only, displaced by disp = (key, j, h) along the
    leaf's own derivative"""
    shape, item = leaf_shapes(node)
    oden = tuple(node.get('den', []))        # the operand's OWN denominator (keys then have denominator ())
    v = np.array(node['vals'], dtype=float).reshape(shape + item + oden)
    mask = False
    if node.get('mask') is not None:
        mask = np.array(node['mask'], dtype=bool).reshape(shape)
    cls = CLSNAME[node['cls']] if node.get('cls') else LEAFCLS[node['t']]
    dcls = CLSNAME[node['dcls']] if node.get('dcls') else cls
    if mode == 'plain':
        if disp is not None and disp[0] in node['derivs']:
            key, j, h = disp
            den = tuple(keys[key])
            d = np.array(node['derivs'][key], dtype=float).reshape(shape + item + oden + den)
            d = d.reshape(shape + item + oden + (-1,))[..., j] if den else d
            v = v + h * d
        return cls(v, mask, drank=len(oden))
    obj = cls(v, mask, drank=len(oden))
    for key, dv in node['derivs'].items():
        den = tuple(keys[key])
        d = np.array(dv, dtype=float).reshape(shape + item + oden + den)
        obj.insert_deriv(key, dcls(d, drank=len(oden) + len(den)))
    return obj


# --------------------------------------------------------------------------- real evaluation
def ev(node, keys, mode='full', disp=None, check=False, peak=None, memo=None):
    """evaluate on the real code; `check` applies the smoothness guards (raises Bad).
    Nodes carrying the same 'nid' are ONE object (the tree is a DAG): built once, used several times."""
    if memo is None:
        memo = {}
    nid = node.get('nid')
    if nid is not None and nid in memo:
        return memo[nid]
    q = _ev(node, keys, mode, disp, check, peak, memo)
    if nid is not None:
        memo[nid] = q
    return q


def _ev(node, keys, mode, disp, check, peak, memo):
    o = node['op']
    if o == 'leaf':
        q = make_leaf(node, keys, mode, disp)
    else:
        args = [ev(a, keys, mode, disp, check, peak, memo) for a in node['args']]
        p = node.get('p', {})
        if o in STRUCT:
            q = struct_real(o, args, p)
        else:
            spec = OPS[o]
            if check and spec['guard'] is not None:
                spec['guard'](args, p)
            q = spec['real'](args, p)
    if check:
        v = vals(q)
        need(np.isfinite(v)); need(np.abs(v) < 1e3)
        if peak is not None:
            peak[0] = max(peak[0], float(np.max(np.abs(v))) if v.size else 0.0)
            for d in getattr(q, '_derivs_', {}).values():
                dv = vals(d)
                need(np.isfinite(dv)); need(np.abs(dv) < 1e4)
                peak[0] = max(peak[0], float(np.max(np.abs(dv))) if dv.size else 0.0)
    return q


def struct_real(o, args, p):
    x = args[0]
    if o in ('sum', 'mean'):
        ax = p['axis']
        if isinstance(ax, list):
            ax = tuple(ax) if p.get('axform') != 'list' else list(ax)
        return x.sum(axis=ax) if o == 'sum' else x.mean(axis=ax)
    if o == 'getitem':
        return x[index_of(p['index'])]
    if o == 'reshape':
        return x.reshape(tuple(p['shape']))
    if o == 'flatten':
        return x.flatten()
    if o == 'swap_axes':
        return x.swap_axes(p['a1'], p['a2'])
    if o == 'stack':
        return Qube.stack(*args)
    if o == 'bcast':
        return x.broadcast_to(tuple(p['shape']))
    raise KeyError(o)


def index_of(ix):
    res = []
    for e in ix:
        if isinstance(e, list):
            res.append(slice(*e))
        elif e == '...':
            res.append(Ellipsis)
        else:
            res.append(int(e))
    return tuple(res)


# --------------------------------------------------------------------------- symbolic evaluation
class Env:
    def __init__(self, keys):
        self.keys = keys
        self.dirs = [(k, j) for k in sorted(keys) for j in range(int(np.prod(keys[k], dtype=int)))]
        self.env, self.um = [], []
        self.denv = {d: [] for d in self.dirs}
        self.memo = {}


def obj_array(shape, items):
    a = np.empty(int(np.prod(shape, dtype=int)), dtype=object)
    for i, it in enumerate(items):
        a[i] = it
    return a.reshape(shape)


class SA:
    """symbolic array: object ndarray of item programs with shape = array shape + denominator shape"""
    def __init__(self, arr, dr=0):
        self.arr, self.dr = arr, dr

    @property
    def rank(self):
        return self.arr.ndim - self.dr


def sym(node, E):
    """SA (array shape + denominator shape) of item-level programs, or None if some operation of the tree
    has no model; shared nodes ('nid') are expanded (the model is a pure function of the tree).  A
    denominator axis of an OPERAND is handled like an array axis: each denominator index is its own item."""
    nid = node.get('nid')
    if nid is not None and nid in E.memo:
        return E.memo[nid]
    r = _sym(node, E)
    if nid is not None:
        E.memo[nid] = r
    return r


def align(args):
    """broadcast operands: array axes lead, denominator axes trail (at most one distinct denominator)"""
    dr = max(a.dr for a in args)
    arrs = []
    rank = max(a.rank for a in args)
    for a in args:
        x = a.arr
        den = x.shape[x.ndim - a.dr:] if a.dr else ()
        lead = x.shape[:x.ndim - a.dr]
        x = x.reshape((1,) * (rank - len(lead)) + lead + (den if a.dr else (1,) * dr))
        arrs.append(x)
    return np.broadcast_arrays(*arrs), dr


def _sym(node, E):
    o = node['op']
    if o == 'leaf':
        shape, item = leaf_shapes(node)
        oden = tuple(node.get('den', []))
        isz = int(np.prod(item, dtype=int))
        n = int(np.prod(shape, dtype=int))
        nD = int(np.prod(oden, dtype=int))
        v = np.array(node['vals'], dtype=float).reshape(n, isz, nD)
        m = np.zeros(n, dtype=bool) if node.get('mask') is None else np.array(node['mask'], dtype=bool).reshape(n)
        base = len(E.env)
        for e in range(n):
            for jd in range(nD):
                for c in range(isz):
                    E.env.append(bits(v[e, c, jd])); E.um.append(not bool(m[e]))
        for (k, j) in E.dirs:
            if k in node['derivs']:
                nd = int(np.prod(E.keys[k], dtype=int))
                d = np.array(node['derivs'][k], dtype=float).reshape(n, isz, nD, nd)
                E.denv[(k, j)] += [bits(d[e, c, jd, j]) for e in range(n) for jd in range(nD) for c in range(isz)]
            else:
                E.denv[(k, j)] += ['n'] * (n * isz * nD)
        items = [['opd', node['t']] + [base + (e * nD + jd) * isz + c for c in range(isz)] for e in range(n) for jd in range(nD)]
        return SA(obj_array(shape + oden, items), len(oden))
    args = [sym(a, E) for a in node['args']]
    if any(a is None for a in args):
        return None
    p = node.get('p', {})
    if o in STRUCT:
        return struct_sym(o, args, p)
    f = OPS[o]['sym']
    if f is None:
        return None
    ts = [a['t'] for a in node['args']]
    bc, dr = align(args)
    shape = bc[0].shape
    flat = [b.reshape(-1) for b in bc]
    return SA(obj_array(shape, [f([fl[i] for fl in flat], p, ts) for i in range(int(np.prod(shape, dtype=int)))]), dr)


def chain_add(items):
    r = items[0]
    for it in items[1:]:
        r = ['add', r, it]
    return r


def struct_sym(o, args, p):
    X = args[0]
    x, dr, rank = X.arr, X.dr, X.rank
    den = x.shape[rank:]
    if o in ('sum', 'mean'):
        ax = p['axis']
        axes = tuple(range(rank)) if ax is None else ((ax % rank,) if isinstance(ax, int) else tuple(a % rank for a in ax))
        keep = [k for k in range(x.ndim) if k not in axes]
        moved = np.transpose(x, keep + list(axes))
        out_shape = tuple(x.shape[k] for k in keep)
        lane = int(np.prod([x.shape[k] for k in axes], dtype=int))
        moved = moved.reshape(int(np.prod(out_shape, dtype=int)), lane)
        items = []
        for row in moved:
            s = chain_add(list(row))
            if o == 'mean':
                s = ['ndiv', s, bits(float(lane))]
            items.append(s)
        return SA(obj_array(out_shape, items), dr)
    if o == 'getitem':
        r = x[index_of(p['index'])]
        if not isinstance(r, np.ndarray):
            r = obj_array((), [r])
        return SA(r, dr)
    if o == 'reshape':
        return SA(x.reshape(tuple(p['shape']) + den), dr)
    if o == 'flatten':
        return SA(x.reshape((-1,) + den), dr)
    if o == 'swap_axes':
        return SA(np.swapaxes(x, p['a1'] % rank, p['a2'] % rank), dr)
    if o == 'stack':
        bc, dr = align(args)
        wide = []
        for i, b in enumerate(bc):
            w = b.reshape(-1).copy()
            for j, other in enumerate(bc):
                if j != i:
                    of = other.reshape(-1)
                    for e in range(len(w)):
                        w[e] = ['widen', w[e], of[e]]
            wide.append(w.reshape(b.shape))
        return SA(np.stack(wide, axis=0), dr)
    if o == 'bcast':
        return SA(np.broadcast_to(x, tuple(p['shape']) + den), dr)
    raise KeyError(o)
