"""C16 development tool (not used by the check; the Lean kernel re-checks every certificate it prints).
Prints the certificates quoted in twovec_rows_rotation and pole_rotation_rotation (Props/C16.lean).
Run with /venv/bin/python from any directory; output files are written to the current directory."""
import sys, os
sys.path.insert(0, os.path.dirname(os.path.abspath(__file__)))
from c16_cert import *
N=6; P.nvars=N
names=['u1 0','u1 1','u1 2','u3 0','u3 1','u3 2']
u1=[P.var(i,N) for i in range(3)]; u3=[P.var(3+i,N) for i in range(3)]
def dot(a,b): return a[0]*b[0]+a[1]*b[1]+a[2]*b[2]
def cross(a,b): return [a[1]*b[2]-a[2]*b[1], a[2]*b[0]-a[0]*b[2], a[0]*b[1]-a[1]*b[0]]
rels=[dot(u1,u1)-1, dot(u3,u3)-1, dot(u1,u3)]; hn=['e1','e3','e13']
def det(r0,r1,r2): return dot(r0,cross(r1,r2))
out={}
for br,u2 in (('A',cross(u3,u1)),('B',cross(u1,u3))):
    T={'n2':dot(u2,u2)-1,'u2u1':dot(u2,u1),'u2u3':dot(u2,u3)}
    # det for the axis placements
    for a1 in range(3):
        for a2 in range(3):
            if a1==a2: continue
            cyc=(3+a2-a1)%3==1
            if cyc != (br=='A'): continue
            a3=3-a1-a2
            rows=[None]*3; rows[a1]=u1; rows[a2]=u2; rows[a3]=u3
            T['det%d%d'%(a1,a2)]=det(*rows)-1
    for k,t in T.items():
        sol=solve(t,rels,N,deg=2)
        out[(br,k)]=lean_cert(sol,hn,names)
        print(br,k,out[(br,k)])

N=4; P.nvars=N
names=['ra.s','ra.c','dec.s','dec.c']
sr,cr,sd,cd=[P.var(i,N) for i in range(4)]
M=[[-sr,cr,P()],[-1*cr*sd,-1*sr*sd,cd],[cr*cd,sr*cd,sd]]
rels=[sr*sr+cr*cr-1, sd*sd+cd*cd-1]; hn=['hr','hd']
certs=set()
for i in range(3):
    for j in range(3):
        t=sum((M[i][k]*M[j][k] for k in range(3)),P())-(1 if i==j else 0)
        sol=solve(t,rels,N,deg=2); c=lean_cert(sol,hn,names); certs.add(c); print(i,j,c)
def cof(i,j):
    i1,i2=(i+1)%3,(i+2)%3; j1,j2=(j+1)%3,(j+2)%3
    return M[i1][j1]*M[i2][j2]-M[i1][j2]*M[i2][j1]
det=M[0][0]*cof(0,0)+M[0][1]*cof(0,1)+M[0][2]*cof(0,2)
print('det',lean_cert(solve(det-1,rels,N,deg=2),hn,names))
print(' | '.join('linear_combination '+c for c in sorted(certs)))
