"""C16 development tool (not used by the check; the Lean kernel re-checks every certificate it prints).
Polynomial relations of SO(3) in the nine matrix entries (rows, columns, cofactors, det) used by the other c16_cert*.py scripts.
Run with /venv/bin/python from any directory; output files are written to the current directory."""
import sys, os
sys.path.insert(0, os.path.dirname(os.path.abspath(__file__)))
from c16_cert import *
from fractions import Fraction
N=9; P.nvars=N
names=['m %d %d'%(i,j) for i in range(3) for j in range(3)]
names=['(m %d %d)'%(i,j) for i in range(3) for j in range(3)]
M=[[P.var(3*i+j,N) for j in range(3)] for i in range(3)]
d=lambda i,j: 1 if i==j else 0
rels=[];hn=[]
for i in range(3):
    for j in range(i,3):
        rels.append(sum((M[i][t]*M[j][t] for t in range(3)),P())-d(i,j)); hn.append('r%d%d'%(i,j))
for i in range(3):
    for j in range(i,3):
        rels.append(sum((M[t][i]*M[t][j] for t in range(3)),P())-d(i,j)); hn.append('c%d%d'%(i,j))
def cof(i,j):
    i1,i2=(i+1)%3,(i+2)%3; j1,j2=(j+1)%3,(j+2)%3
    return M[i1][j1]*M[i2][j2]-M[i1][j2]*M[i2][j1]
for i in range(3):
    for j in range(3):
        rels.append(cof(i,j)-M[i][j]); hn.append('f%d%d'%(i,j))
det=M[0][0]*cof(0,0)+M[0][1]*cof(0,1)+M[0][2]*cof(0,2)
rels.append(det-1); hn.append('hdet')
if __name__=='__main__':
    # cofactor from rows + det: polynomial multipliers deg<=2 from rows(0..5) and det(21)
    for i in range(3):
        for j in range(3):
            sol=solve(cof(i,j)-M[i][j], rels, N, deg=2, only=[0,1,2,3,4,5,21])
            print(i,j, lean_cert(sol,hn,names) if sol else None)
