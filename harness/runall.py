"""Development tool: run every claimed check for several seeds and summarise.
    python3 harness/runall.py quick 0,1,2,7 [C01 C02 …]"""
import json, os, subprocess, sys, time
VERIF = os.path.dirname(os.path.dirname(os.path.abspath(__file__)))
tier = sys.argv[1] if len(sys.argv) > 1 else 'quick'
seeds = [int(x) for x in (sys.argv[2] if len(sys.argv) > 2 else '0').split(',')]
props = sys.argv[3:] or [c['property_id'] for c in json.load(open(os.path.join(VERIF, 'MANIFEST.json')))['checks']]
bad = 0
for p in props:
    for s in seeds:
        t0 = time.time()
        r = subprocess.run([os.path.join(VERIF, 'check'), p, '--tier', tier], cwd=VERIF, capture_output=True, text=True,
                           env=dict(os.environ, VERIF_SEED=str(s)))
        lines = r.stdout.strip().splitlines()
        viol = [l for l in lines if l.startswith('VIOLATION')]
        status = 'ok' if r.returncode == 0 and not viol else 'FAIL(exit %d, %d violations)' % (r.returncode, len(viol))
        if status != 'ok':
            bad += 1
        print('%s seed=%d %s %.0fs | %s' % (p, s, status, time.time() - t0, (lines[-1] if lines else r.stderr[-200:])[:160]), flush=True)
        for v in viol[:3]:
            print('    ', v, flush=True)
print('TOTAL failing runs:', bad)
