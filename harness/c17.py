"""C17 — shrinking to an antimask and unshrinking afterwards does not change any result."""
import struct, warnings
import numpy as np
from absn import *
import common as C

PROP = 'C17'
LEAN_MODULES = ['PMV.Props.C17']
PARALLEL = True
MANIFEST = {
    'text': 'Kernel-checked theorems (PMV/Props/C17.lean) about a code-shaped Lean model of Qube.shrink/unshrink '
            '(PMV/Model/Shrink.lean): gathering by an antimask is natural w.r.t. every element-wise operation lifted with '
            'NumPy broadcasting (gather_map2); the fully-masked stand-in is absorbed by every operator of the catalogue; '
            'unshrink(shrink(x)) reproduces x on the antimask (unshrink_shrink); for EVERY element-wise expression tree of any '
            'depth, every array antimask, all operands that broadcast into the grid (shape (), fewer or more axes than the '
            'antimask, unit axes, any mask representation, with derivatives) and all four switch settings, evaluating on '
            'shrunken operands and unshrinking agrees with direct evaluation at every selected element (shrink_commutes), '
            'hence any two switch settings agree (switches_agree); the cached path for a HELD shrunken object is correct '
            'exactly when the original is unmodified since it was shrunk (unshrink_held_unmodified; counterexample otherwise '
            '= KF-C18-1). The model is tied to /repo on every run: the same operands, antimask, tree and switches go to the '
            'real code and to the compiled model under all four switch settings and the canonical observations are diffed; '
            'the model-independent oracle evaluates every case both ways on the real code.',
    'design': 'DESIGN.md §3 C17, DESIGN.d/C17.md',
    'technique': 'Lean 4 proof (index algebra of broadcasting by induction over shapes, congruence by induction over '
                 'expression trees) + model/code correspondence on IEEE doubles',
    'note': 'Trusted: Lean kernel; hand-written model (checked against the code by the correspondence run); NumPy boolean '
            'indexing and broadcasting as modelled in Model/Shrink.lean. The cached path assumes the back-pointer is '
            'current (C18).',
}
RULE = ('operand tuples (1-3 Scalars) with broadcast-compatible shapes from a table that over-represents shape (), unit '
        'axes, operands with fewer/more axes than the antimask and fully masked operands, in every mask representation; '
        'antimasks: True, False, arrays all True / all False / single True / random over the grid, a suffix of it, or with '
        'one more axis; element-wise trees of depth 0-3; the four switch settings; operands with 0-2 derivatives (own masks '
        'sometimes); histories: operand and antimask memory layout (C, Fortran, strided view, negative stride, read-only), '
        'caches warmed before use (antimask, wod, corners, slicer, an earlier shrink) on operands and on shrunken operands, '
        'the two computations on the SAME operand objects in either order, unshrink called twice; a wide oracle-only '
        'catalogue of 75 element-wise operations (arithmetic incl. // % **, int/frac/sign, math functions, n-ary '
        'maximum/minimum, mask_where*, clip, comparisons, tvl_ comparisons, logical and three-valued operators) with every '
        'mixture of Boolean / integer / float operands and each argument position in turn masked at every selected '
        'element. Non-trivial = array '
        'antimask selecting some but not all positions, or operands that broadcast. Distinct = distinct request line.')
ASSUMPTIONS = ['the antimask is not stretched: on the axes it covers, its lengths are those of the broadcast result '
               '(an antimask with a unit axis where an operand is longer is outside the property: the shrunk operands '
               'no longer agree on the length of the gathered axis); in Lean: hypothesis Fits',
               'derivatives are compared where the element itself is unmasked (a masked element has no observable '
               'derivative); an absent derivative key is read as a zero derivative',
               'operands are not modified between shrink and unshrink (the property does not quantify over such histories); '
               'for a held shrunken object the cached path needs the C18 invariant "the cached back-pointer is current" '
               '(BackCurrent / unshrink_held_unmodified; its failure is KF-C18-1, proved as unshrink_held_counterexample)',
               'element-wise operations are modelled by their per-element code lifted with broadcasting (operator dispatch '
               'and the mask representation of operator results are not modelled)']
TRUSTED_EXTRA = ['IEEE-754 double arithmetic: + - * / sqrt are correctly rounded both in NumPy and in Lean\'s Float, so the '
                 'model and the code agree bit for bit when they apply the same formulas in the same order']

CFGS = [(False, False, False), (False, True, False), (True, False, False), (False, False, True)]
CFG_NAMES = {(False, False, False): 'default', (False, True, False): 'ignore-cached', (True, False, False): 'disabled',
             (False, False, True): 'no-cache'}
OPS1 = {'neg': lambda a: -a, 'abs': lambda a: abs(a), 'sqrt': lambda a: a.sqrt(), 'recip': lambda a: a.reciprocal(),
        'wod': lambda a: a.wod}
OPS2 = {'add': lambda a, b: a + b, 'sub': lambda a, b: a - b, 'mul': lambda a, b: a * b, 'div': lambda a, b: a / b,
        'lt': lambda a, b: a < b, 'le': lambda a, b: a <= b, 'gt': lambda a, b: a > b, 'ge': lambda a, b: a >= b,
        'eq': lambda a, b: a == b, 'ne': lambda a, b: a != b}
# operations outside the Lean catalogue: judged by the both-ways oracle only
XOPS1 = {'pos': lambda a: +a, 'addc': lambda a: a + 1.5, 'mulc': lambda a: a * 2., 'divc': lambda a: a / 4., 'rsubc': lambda a: 1. - a,
         'rdivc': lambda a: 2. / a, 'sq': lambda a: a ** 2, 'sin': lambda a: a.sin(), 'exp': lambda a: a.exp(),
         'div0': lambda a: a / 0., 'wodabs': lambda a: a.abs(recursive=False), 'sign': lambda a: a.sign()}
XOPS2 = {'max': lambda a, b: Scalar.maximum(a, b), 'min': lambda a, b: Scalar.minimum(a, b),
         'atan2': lambda a, b: a.arctan2(b), 'mod': lambda a, b: a % b}
CMP = ('lt', 'le', 'gt', 'ge', 'eq', 'ne')

# The wide element-wise catalogue (oracle only): name -> (argument kinds, result kind, callable).
# kinds: 'n' = Scalar holding ints or floats, 'b' = Boolean, 'a' = either.
def _b(x):
    return Boolean.as_boolean(x)
WIDE = {
    # arithmetic, all kind mixtures
    'w.add': ('aa', 'n', lambda a, b: a + b), 'w.sub': ('aa', 'n', lambda a, b: a - b), 'w.mul': ('aa', 'n', lambda a, b: a * b),
    'w.div': ('aa', 'n', lambda a, b: a / b), 'w.floordiv': ('nn', 'n', lambda a, b: a // b), 'w.mod': ('nn', 'n', lambda a, b: a % b),
    'w.pow2': ('n', 'n', lambda a: a ** 2), 'w.pow3': ('n', 'n', lambda a: a ** 3), 'w.powhalf': ('n', 'n', lambda a: a ** 0.5),
    'w.powm1': ('n', 'n', lambda a: a ** -1), 'w.pow1p5': ('n', 'n', lambda a: a ** 1.5), 'w.powm2': ('n', 'n', lambda a: a ** -2),
    'w.pow5': ('n', 'n', lambda a: a ** 5), 'w.powm1p5': ('n', 'n', lambda a: a ** -1.5), 'w.pow0': ('n', 'n', lambda a: a ** 0), 'w.powS': ('nn', 'n', lambda a, b: a ** b),
    'w.neg': ('a', 'n', lambda a: -a), 'w.pos': ('a', 'n', lambda a: +a), 'w.abs': ('a', 'n', lambda a: abs(a)),
    'w.sign': ('n', 'n', lambda a: a.sign()), 'w.int': ('n', 'n', lambda a: a.int()), 'w.frac': ('n', 'n', lambda a: a.frac()),
    'w.recip': ('n', 'n', lambda a: a.reciprocal()), 'w.sqrt': ('n', 'n', lambda a: a.sqrt()),
    'w.sin': ('n', 'n', lambda a: a.sin()), 'w.cos': ('n', 'n', lambda a: a.cos()), 'w.tan': ('n', 'n', lambda a: a.tan()),
    'w.arcsin': ('n', 'n', lambda a: a.arcsin()), 'w.arccos': ('n', 'n', lambda a: a.arccos()), 'w.arctan': ('n', 'n', lambda a: a.arctan()),
    'w.arctan2': ('nn', 'n', lambda a, b: a.arctan2(b)), 'w.exp': ('n', 'n', lambda a: a.exp()), 'w.log': ('n', 'n', lambda a: a.log()),
    'w.as_float': ('a', 'n', lambda a: a.as_float()), 'w.as_int': ('a', 'n', lambda a: a.as_int()), 'w.wod': ('n', 'n', lambda a: a.wod),
    'w.numc': ('n', 'n', lambda a: 2 * a - 1), 'w.rdivc': ('n', 'n', lambda a: 3 / a), 'w.rmodc': ('n', 'n', lambda a: a % 2),
    # n-ary extremes, mixed int / float
    'w.max2': ('nn', 'n', lambda a, b: Scalar.maximum(a, b)), 'w.min2': ('nn', 'n', lambda a, b: Scalar.minimum(a, b)),
    'w.max3': ('nnn', 'n', lambda a, b, c: Scalar.maximum(a, b, c)), 'w.min3': ('nnn', 'n', lambda a, b, c: Scalar.minimum(a, b, c)),
    'w.maxc': ('n', 'n', lambda a: Scalar.maximum(a, 0.5)), 'w.minc': ('n', 'n', lambda a: Scalar.minimum(1, a)),
    # masking operations
    'w.mw': ('ab', 'n', lambda a, m: a.mask_where(m.as_mask_where_nonzero_or_masked())),
    'w.mw_rep': ('nb', 'n', lambda a, m: a.mask_where(m.as_mask_where_nonzero(), replace=7, remask=False)),
    'w.mw_eq': ('n', 'n', lambda a: a.mask_where_eq(0)), 'w.mw_ne': ('n', 'n', lambda a: a.mask_where_ne(1)),
    'w.mw_lt': ('n', 'n', lambda a: a.mask_where_lt(0)), 'w.mw_le': ('n', 'n', lambda a: a.mask_where_le(0, replace=5)),
    'w.mw_gt': ('n', 'n', lambda a: a.mask_where_gt(1)), 'w.mw_ge': ('n', 'n', lambda a: a.mask_where_ge(1, replace=-1, remask=False)),
    'w.mw_ltS': ('nn', 'n', lambda a, b: a.mask_where_lt(b)), 'w.mw_between': ('n', 'n', lambda a: a.mask_where_between(-1, 1)),
    'w.mw_outside': ('n', 'n', lambda a: a.mask_where_outside(-1, 1)), 'w.clip': ('n', 'n', lambda a: a.clip(-1, 1.5)),
    'w.clip_nomask': ('n', 'n', lambda a: a.clip(-1, 1, remask=False)), 'w.clipS': ('nnn', 'n', lambda a, b, c: a.clip(b, c, remask=False)),
    'w.remask_or': ('ab', 'n', lambda a, m: a.remask_or(m.as_mask_where_nonzero())),
    # comparisons
    'w.eq': ('aa', 'b', lambda a, b: _b(a == b)), 'w.ne': ('aa', 'b', lambda a, b: _b(a != b)),
    'w.lt': ('nn', 'b', lambda a, b: _b(a < b)), 'w.le': ('nn', 'b', lambda a, b: _b(a <= b)),
    'w.gt': ('nn', 'b', lambda a, b: _b(a > b)), 'w.ge': ('nn', 'b', lambda a, b: _b(a >= b)),
    'w.ltc': ('n', 'b', lambda a: _b(a < 0.5)), 'w.eqc': ('n', 'b', lambda a: _b(a == 1)),
    'w.tvl_eq': ('aa', 'b', lambda a, b: a.tvl_eq(b, builtins=False)), 'w.tvl_ne': ('aa', 'b', lambda a, b: a.tvl_ne(b, builtins=False)),
    'w.tvl_lt': ('nn', 'b', lambda a, b: a.tvl_lt(b, builtins=False)), 'w.tvl_le': ('nn', 'b', lambda a, b: a.tvl_le(b, builtins=False)),
    'w.tvl_gt': ('nn', 'b', lambda a, b: a.tvl_gt(b, builtins=False)), 'w.tvl_ge': ('nn', 'b', lambda a, b: a.tvl_ge(b, builtins=False)),
    'w.is_masked': ('a', 'b', lambda a: Boolean(a.mask) if hasattr(a, 'mask') else a),
    # logical and three-valued operators
    'w.and': ('bb', 'b', lambda a, b: a & b), 'w.or': ('bb', 'b', lambda a, b: a | b), 'w.xor': ('bb', 'b', lambda a, b: a ^ b),
    'w.not': ('b', 'b', lambda a: ~a), 'w.logical_not': ('a', 'b', lambda a: a.logical_not()),
    'w.tvl_and': ('bb', 'b', lambda a, b: a.tvl_and(b, builtins=False)), 'w.tvl_or': ('bb', 'b', lambda a, b: a.tvl_or(b, builtins=False)),
    'w.tvl_and_n': ('an', 'b', lambda a, b: _b(a).tvl_and(_b(b), builtins=False)),
    'w.andc': ('b', 'b', lambda a: a & True), 'w.orc': ('b', 'b', lambda a: False | a),
}
del WIDE['w.is_masked']          # the mask of an object outside the antimask is not an element-wise observable


# ------------------------------------------------------------------ building / observing
def bits(f):
    return struct.unpack('<Q', struct.pack('<d', float(f) + 0.0))[0]


def with_prov(a, prov):
    """the same array content with another memory layout: Fortran order, a strided view of a larger buffer,
    a negative-stride view, or a read-only array"""
    a = np.asarray(a)
    if a.ndim == 0 or prov in (None, 'c'):
        return a
    if prov == 'f':
        return np.asfortranarray(a)
    if prov == 'view':
        big = np.zeros(a.shape[:-1] + (2 * a.shape[-1] + 1,), dtype=a.dtype)
        big[..., 1::2] = a
        big[..., 0::2] = 77 if a.dtype != bool else True
        return big[..., 1::2]
    if prov == 'rev':
        return a[::-1].copy()[::-1]
    if prov == 'ro':
        a = a.copy(); a.flags.writeable = False
        return a
    raise KeyError(prov)


def build(o):
    shape = tuple(o['shape'])
    dt = o.get('dtype', 'float')
    prov = o.get('prov')
    vals = np.array(o['vals'], dtype='float64').reshape(shape) / 2.
    if dt == 'int':
        vals = np.array(o['vals'], dtype='int64').reshape(shape)
    if dt == 'bool':
        vals = (np.array(o['vals'], dtype='int64').reshape(shape) > 0)
    m = mk_mask(o['mask'], shape)
    if isinstance(m, np.ndarray) and not isinstance(o['mask'], dict):
        m = with_prov(m, prov)
    if not shape:
        vals = vals[()].item()
    else:
        vals = with_prov(vals, prov)
    q = Boolean(vals, m) if dt == 'bool' else Scalar(vals, m)
    for ent in o['derivs']:
        k, dvals, dmask = ent[:3]
        den = ent[3] if len(ent) > 3 else None          # d/d(vector of length den): denominator (den,), drank=1
        dm = mk_mask(dmask, shape)
        if isinstance(dm, np.ndarray):
            dm = with_prov(dm, prov)
        if den is None:
            dv = np.array(dvals, dtype='float64').reshape(shape) / 2.
            q.insert_deriv(k, Scalar(with_prov(dv, prov) if shape else float(dv), dm))
        else:
            dv = np.array(dvals, dtype='float64').reshape(shape + (den,)) / 2.
            q.insert_deriv(k, Scalar(dv, dm, drank=1))
    return q


def warm(q, what, am):
    """fill caches before the object is used (antimask, wod, corners, slicer; a previous shrink)"""
    for w in what:
        if w == 'antimask': q.antimask
        elif w == 'wod': q.wod
        elif w == 'corners' and q._shape_: q.corners
        elif w == 'slicer' and q._shape_: q._slicer
        elif w == 'shrink0':
            try:
                q.shrink(am if isinstance(am, bool) else np.ones(am.shape, bool))
            except Exception:
                pass


def mk_am(am):
    if am == 'T': return True
    if am == 'F': return False
    return with_prov(np.array(am['bits'], dtype=bool).reshape(am['shape']), am.get('prov'))


def selector(am, grid):
    if am == 'T': return np.ones(grid, bool)
    if am == 'F': return np.zeros(grid, bool)
    return np.broadcast_to(np.array(am['bits'], dtype=bool).reshape(am['shape']), grid)


def as_qube(r):
    if isinstance(r, (bool, np.bool_)):
        return Boolean(bool(r))
    if isinstance(r, (int, float, np.floating, np.integer)):
        return Scalar(r)
    return r


def obs(q, sel, struct=False):
    """canonical observation restricted to the antimask: class, shape, keys, elements read through broadcasting.
    struct=True (oracle only) appends, per derivative, its class, numerator and denominator shapes: these are facts
    about the object, not about an element, so they are observable even where every selected element is masked"""
    grid = sel.shape
    m = np.broadcast_to(expanded_mask(q), grid)[sel]
    v = np.broadcast_to(np.asarray(q._values_), grid)[sel]
    keys = sorted(q._derivs_)
    dm = [np.broadcast_to(expanded_mask(q._derivs_[k]), grid)[sel] for k in keys]
    dv = [np.broadcast_to(np.asarray(q._derivs_[k]._values_), grid + q._derivs_[k]._item_)[sel] for k in keys]
    def dbits(x):
        return bits(x) if np.ndim(x) == 0 else [bits(y) for y in np.ravel(x)]
    cells = []
    for i in range(len(m)):
        if m[i]:
            cells.append('M')       # a masked element has no observable value or derivative
        else:
            cells.append([bits(v[i])] + [[keys[j], 'M' if dm[j][i] else dbits(dv[j][i])] for j in range(len(keys))])
    res = [type(q).__name__, list(q._shape_), cells]
    if struct:
        res.append([[k, type(q._derivs_[k]).__name__, list(q._derivs_[k]._numer_), list(q._derivs_[k]._denom_)] for k in keys])
    return res


def ev(t, env):
    if t[0] == 'var':
        return env[t[1]]
    if t[0] in WIDE:
        return WIDE[t[0]][2](*[ev(x, env) for x in t[1:]])
    if len(t) == 2:
        return (OPS1.get(t[0]) or XOPS1[t[0]])(ev(t[1], env))
    return (OPS2.get(t[0]) or XOPS2[t[0]])(ev(t[1], env), ev(t[2], env))


class Switches:
    def __init__(self, cfg):
        self.cfg = cfg
    def __enter__(self):
        self.old = (Qube._DISABLE_SHRINKING, Qube._IGNORE_UNSHRUNK_AS_CACHED, Qube.DISABLE_CACHE)
        Qube._DISABLE_SHRINKING, Qube._IGNORE_UNSHRUNK_AS_CACHED, Qube.DISABLE_CACHE = self.cfg
    def __exit__(self, *a):
        Qube._DISABLE_SHRINKING, Qube._IGNORE_UNSHRUNK_AS_CACHED, Qube.DISABLE_CACHE = self.old
        return False


def run_both(case, struct=False):
    """(via shrinking, direct).  'order': the two computations on separately built operands (default) or on the SAME
    operand objects, direct first or via first (warm caches, self-referencing 'unshrunk' entries of shapeless operands);
    'warm': cache entries filled before use; 'swarm': likewise on the shrunken operands; 'twice': unshrink twice."""
    sel = selector(case['am'], tuple(case['grid']))
    am = mk_am(case['am'])
    order = case.get('order', 'separate')

    def direct(env):
        try:
            with warnings.catch_warnings():
                warnings.simplefilter('error')
                return obs(as_qube(ev(case['tree'], env)), sel, struct)
        except Exception as e:
            return C.exc_name(e)

    def via(env):
        with Switches(tuple(case['cfg'])):
            try:
                with warnings.catch_warnings():
                    warnings.simplefilter('error')
                    senv = [x.shrink(am) for x in env]
                    for x in senv:
                        warm(x, case.get('swarm', []), am)
                    r = as_qube(ev(case['tree'], senv))
                    u = r.unshrink(am, tuple(case.get('ushape', [])))
                    if case.get('twice'):
                        u = r.unshrink(am, tuple(case.get('ushape', [])))
                    return obs(u, sel, struct)
            except Exception as e:
                return C.exc_name(e)

    def mkenv():
        env = [build(o) for o in case['opds']]
        for x in env:
            warm(x, case.get('warm', []), am)
        return env

    try:
        if order == 'separate':
            d = direct(mkenv()); v = via(mkenv())
        elif order == 'direct-first':
            env = mkenv(); d = direct(env); v = via(env)
        else:
            env = mkenv(); v = via(env); d = direct(env)
    except Exception as e:            # operand construction itself failed
        d = v = C.exc_name(e)
    return v, d


def run_direct(case):
    return run_both(case)[1]


def run_via(case):
    return run_both(case)[0]


def impl(case):
    if case.get('op') == 'shrink':
        with Switches(tuple(case['cfg'])):
            try:
                x = build(case['opds'][0])
                y = x.shrink(mk_am(case['am']))
                return obs(y, np.ones(y._shape_, bool))
            except Exception as e:
                return C.exc_name(e)
    v, d = run_both(case)
    return [v, d]


# ------------------------------------------------------------------ direct oracle: both ways on the real code
def tree_ops(t):
    if t[0] == 'var':
        return []
    return [t[0]] + [o for s in t[1:] for o in tree_ops(s)]


def signature(case, what):
    am = case['am']
    amk = am if isinstance(am, str) else 'arr%d/%d' % (len(am['shape']), len(case['grid']))
    return '%s:%s:%s:%s' % (CFG_NAMES[tuple(case['cfg'])], amk, '+'.join(sorted(set(tree_ops(case['tree'])))) or 'roundtrip', what)


def oracle(case):
    if case.get('op') == 'shrink':
        return None
    via, direct = run_both(case, struct=True)
    if isinstance(direct, str):
        return None                    # the direct computation is itself rejected: nothing to compare
    if isinstance(via, str):
        return (signature(case, 'raises-' + via), 'direct evaluation succeeds, shrink/evaluate/unshrink raises %s (switches %s)'
                % (via, CFG_NAMES[tuple(case['cfg'])]))
    if via[0] != direct[0]:
        return (signature(case, 'class'), 'result class %s via shrinking, %s directly' % (via[0], direct[0]))
    sv, sd = {e[0]: e[1:] for e in via[3]}, {e[0]: e[1:] for e in direct[3]}
    for k in sorted(set(sv) & set(sd)):          # a derivative present both ways has one class, numerator, denominator
        if sv[k] != sd[k]:
            return (signature(case, 'derivative-structure'), 'derivative d_d%s is a %s numer %s denom %s via shrinking, a %s numer %s '
                    'denom %s directly (switches %s)' % ((k,) + tuple(map(str, sv[k])) + tuple(map(str, sd[k])) + (CFG_NAMES[tuple(case['cfg'])],)))
    for i, (a, b) in enumerate(zip(via[2], direct[2])):
        if a != b and a != 'M' and b != 'M' and a[0] == b[0]:
            # an absent derivative is a zero derivative (polymath's own convention in _add_derivs etc.): operations such
            # as clip()/mask_where(replace=) add a key to the WHOLE object as soon as one element anywhere is replaced
            keys = sorted({k for k, _ in a[1:]} | {k for k, _ in b[1:]})
            da, db = {k: x for k, x in a[1:]}, {k: x for k, x in b[1:]}
            def zero_like(x):
                return bits(0.0) if not isinstance(x, list) else [bits(0.0)] * len(x)
            a = [a[0]] + [[k, da.get(k, zero_like(db.get(k)))] for k in keys]
            b = [b[0]] + [[k, db.get(k, zero_like(da.get(k)))] for k in keys]
        if a != b:
            kind = 'mask' if (a == 'M') != (b == 'M') else 'value' if a[0] != b[0] else 'derivative'
            return (signature(case, kind), 'selected element %d: %s via shrinking, %s directly (switches %s)'
                    % (i, C.sx(a), C.sx(b), CFG_NAMES[tuple(case['cfg'])]))
    return None


# ------------------------------------------------------------------ requests for the model
def opd_sx(o):
    shape = o['shape']
    return [shape, [bits(v / 2.) for v in o['vals']], mask_sx(o['mask'], shape),
            [[k, shape, [bits(v / 2.) for v in dv], mask_sx(dm, shape)] for k, dv, dm in o['derivs']]]


def am_sx(am):
    if am == 'T': return True
    if am == 'F': return False
    return [am['shape'], [bool(b) for b in am['bits']]]


def modelled(case):
    return all(op in OPS1 or op in OPS2 for op in tree_ops(case['tree'])) and \
        all(o.get('dtype', 'float') == 'float' and all(len(e) == 3 for e in o['derivs']) for o in case['opds']) and \
        not case.get('ushape')


def request(case):
    if case.get('op') == 'shrink':
        return ['c17', 'shrink', list(case['cfg']), am_sx(case['am']), opd_sx(case['opds'][0])]
    if not modelled(case):
        return None
    return ['c17', 'run', list(case['cfg']), am_sx(case['am']), case['grid'], case['tree'], [opd_sx(o) for o in case['opds']]]


# ------------------------------------------------------------------ generation
def rand_mask(rng, shape, mode=None):
    n = int(np.prod(shape, dtype=int))
    mode = mode or rng.choice(['none', 'none', 'all', 'rand', 'rand', 'rand'])
    b = [False] * n if mode == 'none' else [True] * n if mode == 'all' else [rng.random() < 0.4 for _ in range(n)]
    return rng.choice(mask_reps(b, shape))


def rand_opd(rng, shape, nderiv=None, maskmode=None, dtype='float', den=False):
    n = int(np.prod(shape, dtype=int))
    if nderiv is None:
        nderiv = rng.choice([0, 0, 1, 2])
    derivs = []
    for k in ['t', 'u'][:nderiv]:
        dm = 'F' if rng.random() < 0.7 else rand_mask(rng, shape, 'rand')
        derivs.append([k, [rng.randint(-6, 6) for _ in range(n)], dm])
    if den and shape:                           # a derivative with a denominator: d/d(vector), item shape (den,)
        dlen = rng.choice([3, 2])
        derivs.append(['v', [rng.randint(-6, 6) for _ in range(n * dlen)], 'F' if rng.random() < 0.7 else rand_mask(rng, shape, 'rand'), dlen])
    o = {'shape': list(shape), 'vals': [rng.choice([-6, -4, -3, -2, -1, 0, 0, 1, 2, 3, 4, 8]) for _ in range(n)],
         'mask': rand_mask(rng, shape, maskmode), 'derivs': derivs if dtype == 'float' else []}
    if dtype != 'float':
        o['dtype'] = dtype
    return o


def rand_am(rng, grid, opd_shapes):
    """(am, grid'): antimask over the grid, a suffix of it, or with one more axis; or a scalar"""
    mode = rng.choice(['T', 'F', 'full', 'full', 'suffix', 'suffix', 'more'])
    if mode in ('T', 'F'):
        return mode, list(grid)
    if mode == 'full':
        shape = list(grid)
    elif mode == 'suffix':
        shape = list(grid[rng.randint(0, max(0, len(grid) - 1)):])
        if not shape:                       # a 0-d antimask is the scalar True/False of the property
            return rng.choice(['T', 'F']), list(grid)
    else:
        shape = [2] + list(grid)
    n = int(np.prod(shape, dtype=int))
    k = rng.choice(['allT', 'allF', 'one', 'rand', 'rand', 'rand'])
    b = [True] * n if k == 'allT' else [False] * n if k == 'allF' else \
        [i == rng.randrange(max(n, 1)) for i in range(n)] if k == 'one' else [rng.random() < 0.5 for _ in range(n)]
    g = list(np_bcast(grid, shape))
    return {'shape': shape, 'bits': b}, g


def rand_tree(rng, depth, nvars, ops1, ops2, root=True):
    if depth == 0:
        return ['var', rng.randrange(nvars)]
    if rng.random() < 0.35:
        return [rng.choice(ops1), rand_tree(rng, depth - 1, nvars, ops1, ops2, False)]
    ops = [o for o in ops2 if root or o not in CMP]
    d1, d2 = depth - 1, depth - 1
    if rng.random() < 0.5:
        if rng.random() < 0.5: d1 = rng.randint(0, depth - 1)
        else: d2 = rng.randint(0, depth - 1)
    return [rng.choice(ops), rand_tree(rng, d1, nvars, ops1, ops2, False), rand_tree(rng, d2, nvars, ops1, ops2, False)]


FULLS = [(), (1,), (2,), (3,), (1, 2), (2, 1), (2, 2), (2, 3), (1, 1), (0,), (2, 0), (2, 1, 2), (2, 2, 2), (1, 3, 2)]


def rand_shapes(rng, full, nv):
    shapes = []
    for _ in range(nv):
        r = rng.randint(0, len(full))
        s = tuple(1 if rng.random() < 0.25 else x for x in full[len(full) - r:])
        shapes.append(s)
    return shapes


def mk(case):
    case['req'] = request(case)
    am = case['am']
    nt = False
    if not isinstance(am, str):
        nt = any(am['bits']) and not all(am['bits'])
    if len({tuple(o['shape']) for o in case['opds']}) > 1:
        nt = True
    case['nontrivial'] = nt
    amk = am if isinstance(am, str) else 'arr'
    d = 0
    t = [case['tree']]
    while any(x[0] != 'var' for x in t):
        t = [s for x in t if x[0] != 'var' for s in x[1:]]
        d += 1
    hist = '+'.join(x for x in ('prov' if any('prov' in o for o in case['opds']) else '', 'warm' if case.get('warm') or case.get('swarm') else '',
                                case.get('order', 'separate') if case.get('order', 'separate') != 'separate' else '',
                                'twice' if case.get('twice') else '') if x) or 'plain'
    case['kind'] = '%s:%s:depth%d:%s:%s' % (CFG_NAMES[tuple(case['cfg'])], amk, d, 'model' if case['req'] is not None else 'oracle-only', hist)
    return case


def scenario(rng, depth, ops1, ops2, dtype='float'):
    full = rng.choice(FULLS)
    nv = rng.choice([1, 2, 2, 3])
    shapes = rand_shapes(rng, full, nv)
    grid = list(np.broadcast_shapes(*shapes))
    am, g = rand_am(rng, grid, shapes)
    opds = [rand_opd(rng, s, dtype=dtype, den=(dtype == 'float' and rng.random() < 0.12)) for s in shapes]
    tree = rand_tree(rng, depth, nv, ops1, ops2)
    sc = {'am': am, 'grid': g, 'tree': tree, 'opds': opds}
    return history(rng, sc)


PROVS = ['c', 'f', 'view', 'rev', 'ro']
WARM = ['antimask', 'wod', 'corners', 'slicer', 'shrink0']


def history(rng, sc, p=0.5):
    """operand provenance (memory layout), warm caches, shared operand objects, repeated unshrink"""
    if rng.random() < p:
        sc['opds'] = [dict(o, prov=rng.choice(PROVS)) if not isinstance(o['mask'], dict) else o for o in sc['opds']]
        if not isinstance(sc['am'], str):
            sc['am'] = dict(sc['am'], prov=rng.choice(PROVS))
    if rng.random() < p:
        sc['warm'] = sorted(rng.sample(WARM, rng.randint(1, 3)))
    if rng.random() < p / 2:
        sc['swarm'] = sorted(rng.sample(WARM[:4], rng.randint(1, 2)))
    sc['order'] = rng.choice(['separate', 'separate', 'direct-first', 'via-first'])
    if rng.random() < 0.2:
        sc['twice'] = True
    return sc


def gen_cases(rng, tier):
    thorough = tier == 'thorough'
    cases = []
    ops1, ops2 = sorted(OPS1), sorted(OPS2)
    # 1. systematic: every antimask kind x mask representation x switch setting on round trips and single operations
    for full in FULLS:
        for rel in ('same', 'fewer', 'more', 'unit'):
            shape = {'same': full, 'fewer': full[1:], 'more': (2,) + full, 'unit': tuple(1 for _ in full)}[rel]
            if rel == 'fewer' and not full:
                continue
            grid0 = list(np_bcast(full, shape))
            n = int(np.prod(full, dtype=int))
            ams = ['T', 'F', {'shape': list(full), 'bits': [True] * n}, {'shape': list(full), 'bits': [False] * n}]
            if n:
                ams.append({'shape': list(full), 'bits': [i == rng.randrange(n) for i in range(n)]})
                ams.append({'shape': list(full), 'bits': [rng.random() < 0.5 for _ in range(n)]})
            for am in ams:
                for mm in ('none', 'all', 'rand'):
                    o = rand_opd(rng, shape, maskmode=mm)
                    o2 = rand_opd(rng, full)
                    for cfg in CFGS:
                        cases.append(mk({'cfg': list(cfg), 'am': am, 'grid': grid0, 'tree': ['var', 0], 'opds': [o]}))
                        op = rng.choice(['add', 'mul', 'div', 'sub'])
                        cases.append(mk({'cfg': list(cfg), 'am': am, 'grid': grid0, 'tree': [op, ['var', 0], ['var', 1]], 'opds': [o, o2]}))
                    cases.append(mk({'op': 'shrink', 'cfg': [False, False, False], 'am': am, 'grid': grid0, 'tree': ['var', 0], 'opds': [o]}))
    # 1b. every unary operation (catalogue and others) directly on a shrunken operand with derivatives: the operations
    #     that hand back the operand itself or share its cache (wod, +x, x + number ...) meet the cached path here
    for op in sorted(OPS1) + sorted(XOPS1):
        for full in [(3,), (2, 2), (2, 1, 2)]:
            for shape in (full, full[1:], (2,) + full):
                n = int(np.prod(full, dtype=int))
                am = {'shape': list(full), 'bits': [i % 2 == 0 or rng.random() < 0.3 for i in range(n)]}
                o = rand_opd(rng, shape, nderiv=rng.choice([1, 2]), maskmode=rng.choice(['none', 'rand']))
                sc = history(rng, {'am': am, 'grid': list(np_bcast(full, shape)), 'tree': [op, ['var', 0]], 'opds': [o]}, p=0.4)
                for cfg in CFGS:
                    cases.append(mk(dict(sc, cfg=list(cfg))))
    # 1c. derivatives with denominators (d/d(vector): the derivative's item shape differs from the parent's), every
    #     operand in turn masked at every selected element (-> the shape-() stand-in and ITS derivatives); oracle only
    DEN_TREES = [['var', 0], ['var', 1], ['neg', ['var', 0]], ['abs', ['var', 0]], ['wod', ['var', 0]], ['sqrt', ['var', 0]],
                 ['add', ['var', 0], ['var', 1]], ['add', ['var', 1], ['var', 0]], ['sub', ['var', 0], ['var', 1]],
                 ['mul', ['var', 0], ['var', 1]], ['mul', ['var', 1], ['var', 0]], ['div', ['var', 1], ['var', 0]],
                 ['div', ['var', 0], ['var', 1]], ['recip', ['var', 0]], ['mulc', ['var', 0]], ['addc', ['var', 0]],
                 ['add', ['mul', ['var', 0], ['var', 1]], ['var', 0]]]
    for full in [(3,), (2, 3), (3, 4)]:
        n = int(np.prod(full, dtype=int))
        for pos in (0, 1, None):
            bits_ = [rng.random() < 0.5 for _ in range(n)]
            bits_[rng.randrange(n)] = True
            bits_[(bits_.index(True) + 1) % n] = False
            am = {'shape': list(full), 'bits': bits_}
            opds = []
            for i in range(2):
                o = rand_opd(rng, full, nderiv=rng.choice([0, 1]), maskmode='none', den=True)
                if i == pos:
                    o['mask'] = [b or rng.random() < 0.2 for b in bits_]
                    o['derivs'] = [e[:2] + [list(o['mask']) if rng.random() < 0.5 else 'F'] + e[3:] for e in o['derivs']]
                elif rng.random() < 0.5:
                    o['mask'] = rand_mask(rng, full, 'rand')
                opds.append(o)
            for tree in DEN_TREES:
                for cfg in CFGS:
                    cases.append(mk({'cfg': list(cfg), 'am': am, 'grid': list(full), 'tree': tree, 'opds': opds}))
    # 1d. a FIXED family (own generator, independent of the seed): every comparison and tvl_ comparison applied to two
    #     sub-expressions that share an operand masked at every selected element, e.g. (x+y) != (x*z): after shrinking
    #     both sides are objects with a shape, the single-True mask and different hidden values
    import random as _random
    frng = _random.Random(1717)
    for full in [(3,), (2, 3)]:
        n = int(np.prod(full, dtype=int))
        for amk in range(2):
            bits_ = [(i + amk) % 2 == 0 for i in range(n)] if amk == 0 else [i < 2 for i in range(n)]
            am = {'shape': list(full), 'bits': bits_}
            for xshape, xmask in ((full, [bool(b) for b in bits_]), (full, [True] * n), (full, 'T'), ((), 'T')):
                xn = int(np.prod(xshape, dtype=int))
                x = {'shape': list(xshape), 'vals': [frng.choice([-4, -2, 2, 4, 6]) for _ in range(xn)], 'mask': xmask, 'derivs': []}
                y = {'shape': list(full), 'vals': [frng.choice([1, 3, 5]) for _ in range(n)], 'mask': 'F', 'derivs': []}
                z = {'shape': list(full), 'vals': [frng.choice([-3, -5, 7]) for _ in range(n)], 'mask': 'F', 'derivs': []}
                for l, r in (('add', 'mul'), ('mul', 'add'), ('sub', 'add'), ('add', 'add')):
                    left, right = [l, ['var', 0], ['var', 1]], [r, ['var', 0], ['var', 2]]
                    for op in list(CMP) + ['w.tvl_eq', 'w.tvl_ne', 'w.tvl_lt', 'w.tvl_le', 'w.tvl_gt', 'w.tvl_ge']:
                        for cfg in CFGS:
                            cases.append(mk({'cfg': list(cfg), 'am': am, 'grid': list(full), 'tree': [op, left, right],
                                             'opds': [x, y, z]}))
    # 1e. a FIXED family: every guarded / domain-restricted unary function on a SHAPED operand that is fully masked by the
    #     scalar True (also: all-True array, masked exactly on the antimask) and hides out-of-domain numbers (|x| > 1,
    #     negatives, zeros); alone and combined with an unmasked operand
    grng = _random.Random(1718)
    GUARDED = ['w.arcsin', 'w.arccos', 'w.sqrt', 'w.log', 'w.recip', 'w.powhalf', 'w.powm1', 'w.pow1p5', 'w.powm1p5', 'w.powm2',
               'w.exp', 'w.tan', 'w.arctan', 'w.rdivc', 'w.int', 'w.frac', 'w.sign', 'w.abs', 'w.rmodc', 'sqrt', 'recip']
    for full in [(3,), (2, 3)]:
        n = int(np.prod(full, dtype=int))
        for amk in range(2):
            bits_ = [(i + amk) % 2 == 0 for i in range(n)]
            am = {'shape': list(full), 'bits': bits_}
            for xmask in ('T', [True] * n, [bool(b) for b in bits_]):
                for dtype in ('float', 'int'):
                    x = {'shape': list(full), 'vals': [grng.choice([-6, -4, -2, 0, 0, 4, 6, 8]) for _ in range(n)], 'mask': xmask, 'derivs': []}
                    if dtype == 'int':
                        x['dtype'] = 'int'
                    y = {'shape': list(full), 'vals': [grng.choice([1, 3, 5]) for _ in range(n)], 'mask': 'F', 'derivs': []}
                    for f in GUARDED:
                        for tree in ([f, ['var', 0]], ['w.add' if f.startswith('w.') else 'add', [f, ['var', 0]], ['var', 1]]):
                            for cfg in CFGS:
                                cases.append(mk({'cfg': list(cfg), 'am': am, 'grid': list(full), 'tree': tree, 'opds': [x, y]}))
    # 2. generated scenarios, the four switch settings each
    reps = 8000 if thorough else 350
    for _ in range(reps):
        sc = scenario(rng, rng.choice([1, 2, 2, 3, 3]), ops1, ops2)
        for cfg in CFGS:
            cases.append(mk(dict(sc, cfg=list(cfg))))
    # 3. operations outside the Lean catalogue and integer operands: oracle only
    for _ in range(reps // 2):
        sc = scenario(rng, rng.choice([1, 2, 3]), ops1 + sorted(XOPS1), ops2 + sorted(XOPS2),
                      dtype=rng.choice(['float', 'float', 'int']))
        if rng.random() < 0.3 and sc['am'] == 'F':
            sc['ushape'] = sc['grid']
        for cfg in CFGS:
            cases.append(mk(dict(sc, cfg=list(cfg))))
    # 4. the wide element-wise catalogue (oracle only): logical / three-valued operators, comparisons, n-ary extremes,
    #    integer and float functions, masking operations; operand kinds bool / int / float mixed
    cases += wide_cases(rng, thorough)
    return cases


def wide_opd(rng, shape, kind, mask):
    n = int(np.prod(shape, dtype=int))
    dtype = kind
    o = {'shape': list(shape), 'vals': [rng.choice([-3, -2, -1, 0, 0, 1, 1, 2, 3, 5]) for _ in range(n)], 'mask': mask, 'derivs': []}
    if dtype == 'float' and rng.random() < 0.3:
        o['derivs'] = [['t', [rng.randint(-4, 4) for _ in range(n)], 'F']]
    if dtype != 'float':
        o['dtype'] = dtype
    return o


def wide_tree(rng, want, depth, kinds):
    """typed random tree over WIDE producing kind `want` ('n' or 'b'); leaves = variables of a suitable kind"""
    leaves = [i for i, k in enumerate(kinds) if want == 'a' or (k == 'bool') == (want == 'b')]
    if depth == 0 or (leaves and rng.random() < 0.2):
        if not leaves:
            return None
        return ['var', rng.choice(leaves)]
    ops = [k for k, v in WIDE.items() if v[1] == want or want == 'a']
    for _ in range(10):
        op = rng.choice(ops)
        args = [wide_tree(rng, a, depth - 1, kinds) for a in WIDE[op][0]]
        if all(a is not None for a in args):
            return [op] + args
    return None


def wide_cases(rng, thorough):
    """every operation of the wide catalogue with operands of mixed kinds, each argument position in turn masked at
    every selected element (so that shrink() replaces it by the fully masked stand-in), then typed random trees"""
    cases = []
    grids = [(3,), (4,), (2, 3), (2, 2)]
    def scene(op_or_tree, nargs, kinds, pos):
        full = rng.choice(grids)
        n = int(np.prod(full, dtype=int))
        bits = [rng.random() < 0.5 for _ in range(n)]
        bits[rng.randrange(n)] = True
        if rng.random() < 0.8:
            bits[rng.randrange(n)] = False
        am = {'shape': list(full), 'bits': bits}
        opds, grid = [], list(full)
        for i in range(nargs):
            shape = full
            r = rng.random()
            if r < 0.12: shape = ()
            elif r < 0.24: shape = (2,) + full
            elif r < 0.32: shape = full[1:] if len(full) > 1 and all(bits[j] == bits[j % (n // full[0])] for j in range(n)) else full
            nn = int(np.prod(shape, dtype=int))
            if i == pos:                       # masked exactly on the antimask (and a little more)
                if shape == ():
                    mask = 'T'
                else:
                    mb = np.broadcast_to(np.array(bits).reshape(full), np_bcast(full, shape) if len(shape) >= len(full) else full)
                    if len(shape) < len(full):
                        shape = full; nn = n
                    mask = [bool(b) or rng.random() < 0.15 for b in mb.ravel()]
                    if all(mask) and rng.random() < 0.5:
                        mask = 'T'
            else:
                mask = rand_mask(rng, shape, rng.choice(['none', 'none', 'rand']))
            opds.append(wide_opd(rng, shape, kinds[i], mask))
            grid = list(np_bcast(grid, list(shape)))
        return {'am': am, 'grid': grid, 'opds': opds}

    def kinds_for(sig):
        return [rng.choice(['int', 'float']) if a == 'n' else 'bool' if a == 'b' else rng.choice(['int', 'float', 'bool']) for a in sig]

    import itertools
    opts = {'n': ['int', 'float'], 'b': ['bool'], 'a': ['int', 'float', 'bool']}
    for op in sorted(WIDE):
        sig = WIDE[op][0]
        combos = list(itertools.product(*[opts[a] for a in sig]))      # every mixture of operand kinds
        for pos in [None] + list(range(len(sig))):
            for kinds in combos * (2 if thorough else 1):
                kinds = list(kinds)
                sc = scene(op, len(sig), kinds, pos)
                sc['tree'] = [op] + [['var', i] for i in range(len(sig))]
                for cfg in CFGS:
                    cases.append(mk(dict(sc, cfg=list(cfg))))
    for _ in range(1500 if thorough else 120):
        nv = rng.choice([2, 3])
        kinds = [rng.choice(['int', 'float', 'bool']) for _ in range(nv)]
        tree = wide_tree(rng, rng.choice(['n', 'b']), 2, kinds)
        if tree is None or tree[0] == 'var':
            continue
        sc = scene(None, nv, kinds, rng.choice([None, 0, nv - 1]))
        sc['tree'] = tree
        if rng.random() < 0.3:
            sc = history(rng, sc)
        for cfg in CFGS:
            cases.append(mk(dict(sc, cfg=list(cfg))))
    return cases


def neighbours(case):
    """smaller variants: sub-trees, no derivatives, unmasked operands"""
    t = case['tree']
    out = []
    if t[0] != 'var':
        for s in t[1:]:
            out.append(dict(case, tree=s))
    out.append(dict(case, opds=[dict(o, derivs=[]) for o in case['opds']]))
    out.append(dict(case, opds=[dict(o, mask='F') for o in case['opds']]))
    for cfg in CFGS:
        out.append(dict(case, cfg=list(cfg)))
    return [mk(dict(c)) for c in out]
