"""C12 helpers: building operands on the real code, running one case, the request line for the
Lean model, and the direct oracle (fractions-based, independent of the model)."""
import math, numbers
from fractions import Fraction as Fr
import numpy as np
import polymath
from polymath import Qube, Scalar, Boolean, Vector, Vector3, Pair, Matrix, Matrix3, Quaternion, Units, Polynomial
import common as C
import c12_ref as R

CLS = {'Scalar': Scalar, 'Boolean': Boolean, 'Vector': Vector, 'Vector3': Vector3, 'Pair': Pair,
       'Matrix': Matrix, 'Matrix3': Matrix3, 'Quaternion': Quaternion}
UNIT_CLASSES = ['Scalar', 'Vector', 'Vector3', 'Pair', 'Matrix']
NO_UNITS = ['Boolean', 'Matrix3', 'Quaternion']

# ------------------------------------------------------------------ shared constants: snapshot and repair
_CONST = {k: getattr(Units, k) for k in dir(Units) if isinstance(getattr(Units, k), Units)}
_PRISTINE = {k: (u.exponents, u.triple, u.name) for k, u in _CONST.items()}
_REG = (dict(Units.NAME_TO_UNIT), dict(Units.TUPLES_TO_UNIT))


def constants_changed():
    """names of the shared Units constants / registries that differ from their import-time state; repairs them"""
    bad = []
    for k, u in _CONST.items():
        if getattr(Units, k) is not u:
            bad.append(k + ':rebound'); setattr(Units, k, u)
        if (u.exponents, u.triple, u.name) != _PRISTINE[k]:
            bad.append(k)
            u.exponents, u.triple, u.name = _PRISTINE[k]
    if Units.NAME_TO_UNIT != _REG[0] or any(Units.NAME_TO_UNIT[k] is not v for k, v in _REG[0].items()):
        bad.append('NAME_TO_UNIT'); Units.NAME_TO_UNIT.clear(); Units.NAME_TO_UNIT.update(_REG[0])
    if len(Units.TUPLES_TO_UNIT) != len(_REG[1]) or any(Units.TUPLES_TO_UNIT.get(k) is not v for k, v in _REG[1].items()):
        bad.append('TUPLES_TO_UNIT'); Units.TUPLES_TO_UNIT.clear(); Units.TUPLES_TO_UNIT.update(_REG[1])
    return bad


# ------------------------------------------------------------------ operands
def build(spec):
    """real Units object (or None) for an operand spec:
       None | 'NAME' | ['*', s, s] | ['/', s, s] | ['**', s, k] | ['num*', s, n, d] | ['sqrt', s]"""
    if spec is None:
        return None
    if isinstance(spec, str):
        return _CONST[spec]
    op = spec[0]
    if op == '*':
        return build(spec[1]) * build(spec[2])
    if op == '/':
        return build(spec[1]) / build(spec[2])
    if op == '**':
        return build(spec[1]) ** spec[2]
    if op == 'num*':
        return build(spec[1]) * (spec[2] / spec[3])
    if op == 'sqrt':
        return build(spec[1]).sqrt()
    raise KeyError(op)


def is_int(x):
    return isinstance(x, numbers.Integral) and not isinstance(x, bool)


def uobs(u):
    """canonical observation of a Units value: N | (e0 e1 e2 numer denom piexp) | inexact"""
    if u is None:
        return 'N'
    if not isinstance(u, Units):
        return 'not-units:' + type(u).__name__
    e, t = u.exponents, u.triple
    if len(e) == 3 and len(t) == 3 and all(is_int(x) for x in e) and all(is_int(x) for x in t) and t[0] > 0 and t[1] > 0:
        return [int(x) for x in e] + [int(x) for x in t]
    return 'inexact'


def uwire(spec):
    """wire operand for the model, read off the real operand (abstraction function); None if not exact"""
    try:
        o = uobs(build(spec))
    except Exception:
        return None
    return None if o == 'inexact' or isinstance(o, str) and o != 'N' else o


def name_dict(name):
    """abstraction of a Units name: None | dict (a plain alphabetic string is {name: 1}, '' is {})"""
    if name is None:
        return None
    if isinstance(name, dict):
        return dict(name)
    t = name.strip()
    if t == '':
        return {}
    if t.isalpha():
        return {t: 1}
    raise ValueError('compound string name')

def name_wire(name):
    d = name_dict(name)
    return 'N' if d is None else [[k or '_', int(e)] for k, e in d.items()]

def name_obs(name):
    d = name_dict(name)
    if d is None:
        return 'N'
    if not all(is_int(e) for e in d.values()):
        return 'non-integer-exponent'
    return [[k or '_', int(d[k])] for k in sorted(d) if d[k] != 0]       # zero exponents are immaterial

_KEY_TO_REF = {u.name.strip(): k for k, u in sorted(_CONST.items(), reverse=True) if isinstance(u.name, str)}

def name_value(name):
    """reference value of the monomial a name describes; None if it uses a key that is not a named unit"""
    d = name_dict(name)
    val = R.UNITLESS
    for k, e in d.items():
        if k not in _KEY_TO_REF:
            return None
        val = R.r_mul(val, R.r_pow(R.ref_of(_KEY_TO_REF[k]), e))
    return val


import re as _re
_FLOAT_HEAD = _re.compile(r'^Units\((-?(?:\d+\.\d*(?:[eE][-+]?\d+)?|\d+[eE][-+]?\d+|inf|nan))')

def canon_str(text):
    """str(units) with the digits of a leading float coefficient replaced by '#' (the model does not print floats)"""
    m = _FLOAT_HEAD.match(text)
    if m:
        return 'Units(#' + text[m.end():]
    return text

def enc_str(t):
    return '_' if t == '' else t.replace(' ', '~')

def pname_wire(name):
    """name of a real Units object for the printing model: N | (s string) | (d (key expo) ...)"""
    if name is None:
        return 'N'
    if isinstance(name, str):
        if not all(c.isalpha() or c == ' ' for c in name):
            raise ValueError('compound string name')
        return ['s', enc_str(name)]
    if not all(isinstance(k, str) and k.isalpha() and is_int(e) for k, e in name.items()):
        raise ValueError('name outside the model')
    return ['d'] + [[enc_str(k), int(e)] for k, e in name.items()]


def power_of(p):
    """Python number for a power given as twice its value (or 'other')"""
    if p == 'other':
        return 0.7
    return p // 2 if p % 2 == 0 else p / 2.


VALS = {'Scalar': 0.5, 'Vector': [0.5, 2.0, 1.0], 'Vector3': [0.5, 2.0, 1.0], 'Pair': [0.5, 2.0],
        'Matrix': [[1., 2.], [3., 5.]], 'Boolean': True, 'Matrix3': np.eye(3), 'Quaternion': [1., 0., 0., 0.]}


def make(cls, shape, units, derivs=None, scale=1.0):
    item = np.array(VALS[cls])
    vals = np.broadcast_to(item, tuple(shape) + item.shape).copy()
    if cls not in ('Boolean',):
        vals = vals * scale
        if shape:
            vals[1] = vals[1] * 0.5
    if cls in NO_UNITS and units is None:
        obj = CLS[cls](vals)
    else:
        obj = CLS[cls](vals, units=units)
    for i, du in enumerate(derivs or []):
        dv = np.broadcast_to(item, tuple(shape) + item.shape).copy() * (3.0 + i)
        obj.insert_deriv('d%d' % i, CLS[cls](dv, units=du))
    return obj


def sc(shape, units, v=2.0):
    vals = np.full(tuple(shape), v)
    if shape:
        vals[1] = 4.0
    return Scalar(vals, units=units)


# name -> model op, arity, classes, function(a, b, case), kind of second operand
def _inplace(f):
    def g(a, b, c):
        r = f(a, b)
        return r
    return g

def _iadd(a, b):
    a += b; return a
def _isub(a, b):
    a -= b; return a
def _imul(a, b):
    a *= b; return a
def _idiv(a, b):
    a /= b; return a

ALLU = UNIT_CLASSES
VEC = ['Vector', 'Vector3', 'Pair']
SC = ['Scalar']
OBJ_OPS = {
    'add': dict(model='add', arity=2, classes=ALLU, f=lambda a, b, c: a + b, other='same'),
    'sub': dict(model='sub', arity=2, classes=ALLU, f=lambda a, b, c: a - b, other='same'),
    'iadd': dict(model='add', arity=2, classes=ALLU, f=lambda a, b, c: _iadd(a, b), other='same', inplace=True),
    'isub': dict(model='sub', arity=2, classes=ALLU, f=lambda a, b, c: _isub(a, b), other='same', inplace=True),
    'eq': dict(model='eq', arity=2, classes=ALLU, f=lambda a, b, c: a == b, other='same'),
    'ne': dict(model='ne', arity=2, classes=ALLU, f=lambda a, b, c: a != b, other='same'),
    'lt': dict(model='lt', arity=2, classes=SC, f=lambda a, b, c: a < b, other='same'),
    'le': dict(model='le', arity=2, classes=SC, f=lambda a, b, c: a <= b, other='same'),
    'gt': dict(model='gt', arity=2, classes=SC, f=lambda a, b, c: a > b, other='same'),
    'ge': dict(model='ge', arity=2, classes=SC, f=lambda a, b, c: a >= b, other='same'),
    'arctan2': dict(model='arctan2', arity=2, classes=SC, f=lambda a, b, c: a.arctan2(b), other='same'),
    'stack': dict(model='stack', arity=2, classes=ALLU, f=lambda a, b, c: Qube.stack(a, b), other='same'),
    'from_scalars': dict(model='from_scalars', arity=2, classes=['Vector', 'Pair'], other='scalar',
                         f=lambda a, b, c: CLS[c['cls']].from_scalars(a, b), first='scalar'),
    'mul': dict(model='mul', arity=2, classes=ALLU, f=lambda a, b, c: a * b, other='scalar'),
    'rmul': dict(model='mul', arity=2, classes=VEC + ['Matrix'], f=lambda a, b, c: b * a, other='scalar', swap=True),
    'imul': dict(model='mul', arity=2, classes=ALLU, f=lambda a, b, c: _imul(a, b), other='scalar', inplace=True),
    'div': dict(model='div', arity=2, classes=ALLU, f=lambda a, b, c: a / b, other='scalar'),
    'idiv': dict(model='div', arity=2, classes=ALLU, f=lambda a, b, c: _idiv(a, b), other='scalar', inplace=True),
    'mulnum': dict(model='mul', arity=1, classes=ALLU, f=lambda a, b, c: a * 2.0, bnone=True),
    'divnum': dict(model='div', arity=1, classes=ALLU, f=lambda a, b, c: a / 2.0, bnone=True),
    'rdivnum': dict(model='recip', arity=1, classes=SC, f=lambda a, b, c: 2.0 / a),
    'dot': dict(model='dot', arity=2, classes=VEC, f=lambda a, b, c: a.dot(b), other='same'),
    'cross': dict(model='cross', arity=2, classes=VEC, f=lambda a, b, c: a.cross(b), other='same'),
    'outer': dict(model='outer', arity=2, classes=VEC, f=lambda a, b, c: a.outer(b), other='same'),
    'element_mul': dict(model='mul', arity=2, classes=VEC, f=lambda a, b, c: a.element_mul(b), other='same'),
    'element_div': dict(model='div', arity=2, classes=VEC, f=lambda a, b, c: a.element_div(b), other='same'),
    'norm': dict(model='norm', arity=1, classes=VEC, f=lambda a, b, c: a.norm()),
    'norm_sq': dict(model='norm_sq', arity=1, classes=VEC, f=lambda a, b, c: a.norm_sq()),
    'unit': dict(model='div', arity=1, classes=VEC, f=lambda a, b, c: a.unit(), bself=True),
    'sqrt': dict(model='sqrt', arity=1, classes=SC, f=lambda a, b, c: a.sqrt()),
    'recip': dict(model='recip', arity=1, classes=SC, f=lambda a, b, c: a.reciprocal()),
    'inverse': dict(model='recip', arity=1, classes=['Matrix'], f=lambda a, b, c: a.inverse()),
    'pow': dict(model='pow', arity=1, classes=SC, f=lambda a, b, c: a ** power_of(c['p']),
                powers=list(range(-6, 11)) + ['other']),
    'sin': dict(model='sin', arity=1, classes=SC, f=lambda a, b, c: a.sin()),
    'cos': dict(model='cos', arity=1, classes=SC, f=lambda a, b, c: a.cos()),
    'tan': dict(model='tan', arity=1, classes=SC, f=lambda a, b, c: a.tan()),
    'exp': dict(model='exp', arity=1, classes=SC, f=lambda a, b, c: a.exp()),
    'arcsin': dict(model='arcsin', arity=1, classes=SC, f=lambda a, b, c: a.arcsin()),
    'arccos': dict(model='arccos', arity=1, classes=SC, f=lambda a, b, c: a.arccos()),
    'arctan': dict(model='arctan', arity=1, classes=SC, f=lambda a, b, c: a.arctan()),
    'int': dict(model='int', arity=1, classes=SC, f=lambda a, b, c: a.int()),
    'frac': dict(model='frac', arity=1, classes=SC, f=lambda a, b, c: a.frac()),
    'log': dict(model='log', arity=1, classes=SC, f=lambda a, b, c: a.log()),
    'x_rotation': dict(model='sin', arity=1, classes=SC, f=lambda a, b, c: Matrix3.x_rotation(a)),
    'y_rotation': dict(model='cos', arity=1, classes=SC, f=lambda a, b, c: Matrix3.y_rotation(a)),
    'z_rotation': dict(model='tan', arity=1, classes=SC, f=lambda a, b, c: Matrix3.z_rotation(a)),
}

def poly(order, units, shape=()):
    """Polynomial of the given order whose value is x + 2 (leading zeros pad it to the order): equal as polynomials
    for every order"""
    c = np.zeros(tuple(shape) + (order + 1,))
    c[..., -2:] = [1., 2.]
    return Polynomial(c, units=units)

def _piadd(a, b):
    a += b; return a
def _pisub(a, b):
    a -= b; return a

PL = ['Polynomial']
OBJ_OPS.update({
    'poly_add': dict(model='add', arity=2, classes=PL, f=lambda a, b, c: a + b, other='same', poly=True),
    'poly_sub': dict(model='sub', arity=2, classes=PL, f=lambda a, b, c: a - b, other='same', poly=True),
    'poly_iadd': dict(model='add', arity=2, classes=PL, f=lambda a, b, c: _piadd(a, b), other='same', poly=True, inplace=True),
    'poly_isub': dict(model='sub', arity=2, classes=PL, f=lambda a, b, c: _pisub(a, b), other='same', poly=True, inplace=True),
    'poly_eq': dict(model='eq', arity=2, classes=PL, f=lambda a, b, c: a == b, other='same', poly=True),
    'poly_ne': dict(model='ne', arity=2, classes=PL, f=lambda a, b, c: a != b, other='same', poly=True),
    'poly_mul': dict(model='mul', arity=2, classes=PL, f=lambda a, b, c: a * b, other='same', poly=True),
    'poly_at_least_order': dict(model='norm', arity=1, classes=PL, f=lambda a, b, c: a.at_least_order(c['nb']), poly=True),
    'poly_set_order': dict(model='norm', arity=1, classes=PL, f=lambda a, b, c: a.set_order(c['nb']), poly=True),
    'poly_deriv': dict(model='norm', arity=1, classes=PL, f=lambda a, b, c: a.deriv(), poly=True),
})

MATCH_OPS = {'add', 'sub', 'stack', 'from_scalars'}
ORDER_OPS = {'lt', 'le', 'gt', 'ge'}
ANGLE_OPS = {'sin', 'cos', 'tan', 'exp'}
PURE_OPS = {'arcsin', 'arccos', 'arctan', 'int', 'frac'}


def rule_operands(case, units=True):
    spec = OBJ_OPS[case['oname']]
    ua = build(case['a']) if units else None
    ub = build(case['b']) if units else None
    if spec.get('poly'):
        return (poly(case['na'], ua, case['shape']),
                poly(case['nb'], ub, case['shape']) if spec['arity'] == 2 else None, ua, ub)
    first = Scalar if spec.get('first') == 'scalar' else None
    a = sc(case['shape'], ua, 0.5) if first else make(case['cls'], case['shape'], ua)
    b = None
    if spec['arity'] == 2:
        if spec['other'] == 'scalar':
            b = sc(case['shape'], ub)
        else:
            b = make(case['cls'], case['shape'], ub)
    return a, b, ua, ub


def power_kind(ra, p):
    """reference result of units**(p/2): ('exact', ref) | ('real', dims, factor) | ('illegal',); ra None -> ('exact', None)"""
    if ra is None:
        return ('exact', None)
    if p % 2 == 0:
        return ('exact', R.r_pow(ra, p // 2))
    kind = R.r_sqrt(ra)
    if kind[0] == 'exact':
        return ('exact', R.r_pow(kind[1], p))
    if kind[0] == 'real':
        return ('real', tuple(x * p for x in kind[1]), kind[2] ** p)
    return kind


def irrational_expected(case):
    """True if the exact result of the case is an irrational multiple (the code can only approximate it:
    a float triple, or integers that merely look exact once the float exceeds 2**53)"""
    op = case['op']
    try:
        if op == 'sqrt':
            return power_kind(R.ref_of(case['a']), 1)[0] == 'real'
        if op == 'powr' and case['p'] != 'other':
            return power_kind(R.ref_of(case['a']), case['p'])[0] == 'real'
        if op == 'static' and case['fn'] == 'sqrt_units':
            return power_kind(R.ref_of(case['a']), 1)[0] == 'real'
        if op == 'static' and case['fn'] == 'units_power':
            return power_kind(R.ref_of(case['a']), case['p'])[0] == 'real'
        if op in ('rule', 'drule') and OBJ_OPS[case['oname']]['model'] == 'sqrt':
            return power_kind(R.ref_of(case['a']), 1)[0] == 'real'
        if op in ('rule', 'drule') and OBJ_OPS[case['oname']]['model'] == 'pow' and case['p'] != 'other':
            return power_kind(R.ref_of(case['a']), case['p'])[0] == 'real'
    except R.Inexact:
        return True
    return False


# ------------------------------------------------------------------ running one case on the real code
def run(case):
    """(canonical observation, info for the oracle)"""
    info = {'units': [], 'mutated': [], 'notes': []}
    constants_changed()
    try:
        obs = _run(case, info)
        if irrational_expected(case) and (isinstance(obs, list) and obs and (obs[0] == 'units' or isinstance(obs[0], int))):
            obs = 'inexact'
    except Exception as e:
        obs = C.exc_name(e)
        info['exc'] = e
    # every Units value that came out must be printable
    bad = []
    for label, u in info['units']:
        if isinstance(u, Units):
            try:
                s = str(u); repr(u)
                if not isinstance(s, str):
                    bad.append(label + ': str() returned ' + type(s).__name__)
            except Exception as e:
                bad.append('%s: str() raised %s: %s (exponents %s, triple %s, name %r)'
                           % (label, type(e).__name__, e, u.exponents, u.triple, u.name))
    info['unprintable'] = bad
    info['mutated'] = constants_changed()
    return obs, info


def str_operand(case):
    """the Units object to print: built by the real algebra, optionally through a static helper (name None)
    or with its name removed"""
    u = build(case['a'])
    how = case.get('how', 'asis')
    if how == 'noname':
        u = Units(u.exponents, u.triple, None)
    elif how == 'helper':
        u = Units.mul_units(u, build(case.get('b')))
    elif how == 'power':
        u = Units.units_power(u, case['k'])
    return u


def _law_sides(case):
    a, b, c = build(case.get('a')), build(case.get('b')), build(case.get('c'))
    law = case['law']
    if law == 'comm':
        return a * b, b * a
    if law == 'assoc':
        return (a * b) * c, a * (b * c)
    if law == 'cancel':
        return (a * b) / b, a
    if law == 'cancel2':
        return (a / b) * b, a
    if law == 'muldiv':
        return (a * b) / c, a * (b / c)
    if law == 'divself':
        return a / a, Units.UNITLESS
    if law == 'sqrtsq':
        return (a * a).sqrt(), a
    if law == 'sqrtmul':
        return ((a * b) * (a * b)).sqrt(), a * b
    if law == 'powadd':
        return (a ** case['p']) * (a ** case['q']), a ** (case['p'] + case['q'])
    if law == 'powneg':
        return a ** (-case['p']), 1 / (a ** case['p'])
    raise KeyError(law)


def _run(case, info):
    op = case['op']
    U = info['units']
    if op in ('mul', 'div'):
        a, b = build(case['a']), build(case['b'])
        r = a * b if op == 'mul' else a / b
        U.append(('result', r)); info['r'] = r
        return uobs(r)
    if op == 'powr':
        r = build(case['a']) ** power_of(case['p'])
        U.append(('result', r)); info['r'] = r
        return uobs(r)
    if op == 'sqrt':
        r = build(case['a']).sqrt()
        U.append(('result', r)); info['r'] = r
        return uobs(r)
    if op in ('mulnat', 'divnat', 'rdivnat', 'mulnum'):
        a = build(case['a'])
        r = a * case['k'] if op == 'mulnat' else a / case['k'] if op == 'divnat' else case['k'] / a if op == 'rdivnat' \
            else a * (case['n'] / case['d'])
        U.append(('result', r)); info['r'] = r
        return uobs(r)
    if op == 'mk':
        r = Units(tuple(case['e']), (case['n'], case['d'], case['p']))
        U.append(('result', r)); info['r'] = r
        return uobs(r)
    if op == 'zero':
        a = build(case['a'])
        fn = case['fn']
        r = a * 0 if fn == 'mul0' else a * 0.0 if fn == 'mulf0' else a / 0 if fn == 'div0' else 0 / a if fn == 'rdiv0' \
            else Units(a.exponents, (0, 1, 0)) if fn == 'ctor0' else Units(a.exponents, (1, 0, 0))
        info['r'] = r
        return uobs(r)
    if op == 'str':
        u = str_operand(case)
        U.append(('units', u)); info['r'] = u
        dmg = case.get('damage')
        if dmg is None:
            return canon_str(str(u))
        victim = _CONST[dmg]
        saved = victim.name
        try:
            victim.name = None
            return canon_str(str(u))
        finally:
            victim.name = saved
    if op == 'names':
        a, b = build(case['a']), build(case.get('b'))
        fn = case['fn']
        r = a * b if fn == 'mul' else a / b if fn == 'div' else a ** case['k'] if fn == 'pow' else a.sqrt()
        U.append(('result', r)); info['r'] = r
        return name_obs(r.name)
    if op == 'law':
        lhs, rhs = _law_sides(case)
        U.append(('lhs', lhs)); U.append(('rhs', rhs))
        info['lhs'], info['rhs'] = lhs, rhs
        info['eq'], info['ne'] = (lhs == rhs), (lhs != rhs)
        return [uobs(lhs), uobs(rhs)]
    if op == 'static':
        a, b = build(case.get('a')), build(case.get('b'))
        before = [(x.exponents, x.triple, x.name) if x is not None else None for x in (a, b)]
        fn, nm = case['fn'], case.get('name')
        if fn in ('mul_units', 'div_units'):
            r = getattr(Units, fn)(a, b) if nm is None else getattr(Units, fn)(a, b, nm)
        elif fn == 'sqrt_units':
            r = Units.sqrt_units(a) if nm is None else Units.sqrt_units(a, nm)
        else:
            r = Units.units_power(a, power_of(case['p'])) if nm is None else Units.units_power(a, power_of(case['p']), nm)
        after = [(x.exponents, x.triple, x.name) if x is not None else None for x in (a, b)]
        info['r'] = r; info['operands_changed'] = before != after
        U.append(('result', r)); U.append(('operand a', a)); U.append(('operand b', b))
        return uobs(r)
    if op == 'test':
        a, b = build(case.get('a')), build(case.get('b'))
        fn = case['fn']
        if fn in ('eq', 'ne'):
            r = (a == b) if fn == 'eq' else (a != b)
        else:
            r = getattr(Units, fn)(a, b) if fn in ('can_match', 'do_match') else getattr(Units, fn)(a)
        info['r'] = r
        return bool(r)
    if op == 'convert':
        a, b = build(case['a']), build(case['b'])
        v = case['value']
        r = a.convert(v, b)
        info['r'] = r
        ra, rb = R.ref_of(case['a']), R.ref_of(case['b']) or R.UNITLESS
        f = R.r_div(ra, rb)
        if f[1] == 1 and f[2] == 0:
            return 'same' if (r == v) else 'unknown-factor:%r' % (r,)
        expect = float(f[1] * Fr(v)) * math.pi ** f[2]
        if R.ulps(float(r), expect) <= 4 + 2 * abs(f[2]):
            return [f[1].numerator, f[1].denominator, f[2]]
        return 'unknown-factor:%r' % (r,)
    if op == 'rule':
        return _run_rule(case, info)
    if op == 'hist':
        return _run_hist(case, info)
    if op == 'drule':
        return _run_drule(case, info)
    if op == 'nary':
        return _run_nary(case, info)
    if op == 'set':
        return _run_set(case, info)
    if op == 'scale':
        return _run_scale(case, info)
    raise KeyError(op)


def _run_rule(case, info):
    spec = OBJ_OPS[case['oname']]
    a, b, ua, ub = rule_operands(case)
    # the same operation on operands without units: stored values must not depend on units
    a0, b0, _, _ = rule_operands(case, units=False)
    info['ua'], info['ub'] = ua, ub
    names_before = [(x.exponents, x.triple, x.name) if x is not None else None for x in (ua, ub)]
    r = spec['f'](a, b, case)
    info['operand_units_changed'] = names_before != [(x.exponents, x.triple, x.name) if x is not None else None
                                                     for x in (ua, ub)]
    info['r'] = r
    info['operands'] = (a, b)
    try:
        info['r0'] = spec['f'](a0, b0, case)
    except Exception as e:
        info['r0'] = e
    return _rule_obs(case, r, info)


def _rule_obs(case, r, info):
    oname = OBJ_OPS[case['oname']]['model'] if OBJ_OPS[case['oname']].get('poly') else case['oname']
    if oname in ('eq', 'ne'):
        # operands hold identical values: a value comparison says True for == and False for !=
        val = bool(r.all()) if isinstance(r, Qube) else bool(r)
        if oname == 'eq':
            return 'cmp' if val else ['const', False]
        return 'cmp' if not val else ['const', True]
    if oname in ORDER_OPS:
        return 'cmp' if isinstance(r, (Boolean, bool, np.bool_)) else 'not-boolean'
    if not isinstance(r, Qube):
        return 'not-a-qube:' + type(r).__name__
    info['units'].append(('result units', r._units_))
    for key, d in r._derivs_.items():
        info['units'].append(('units of derivative ' + key, d._units_))
    o = uobs(r._units_)
    return 'inexact' if o == 'inexact' else ['units', o]


HIST_CHANGES = ['set_units', 'set_none', 'without', 'into', 'from', 'clone_set', 'clone_orig', 'copy_set', 'copy_orig']
HIST_TOUCHES = ['wod', 'antimask', 'product', 'norm', 'mask', 'readonly_probe']


def hist_effective(change, cur, new):
    """units (spec) the target object must carry after the history"""
    if change in ('set_units', 'clone_set', 'copy_set'):
        return new
    if change in ('set_none', 'without'):
        return None
    return cur                   # into / from / clone_orig / copy_orig


def deriv_spec(u):
    """units of d(quantity)/dt for a quantity in units `u`"""
    return None if u is None else ['/', u, 'S']


def _touch(obj, what):
    if what == 'wod':
        return obj.wod
    if what == 'antimask':
        return obj.antimask
    if what == 'product':
        return obj * Scalar(2.0)
    if what == 'norm':
        return obj.norm() if obj._nrank_ == 1 else abs(obj) if obj._nrank_ == 0 else obj.wod
    if what == 'mask':
        return obj.mask
    return obj.readonly


def hist_object(case, with_units=True):
    """run the history; returns (target object, object it came from)"""
    cur = build(case['cur']) if with_units else None
    new = build(case['new']) if with_units else None
    eff = hist_effective(case['change'], case['cur'], case['new'])
    d_units = [build(deriv_spec(eff)) if (with_units and case['dunits']) else None for _ in range(case['nderivs'])]
    obj = make(case['cls'], case['shape'], cur, d_units)
    for t in case['touch']:
        _touch(obj, t)
    ch = case['change']
    if ch == 'set_units':
        obj.set_units(new); y = obj
    elif ch == 'set_none':
        obj.set_units(None); y = obj
    elif ch == 'without':
        y = obj.without_units()
    elif ch == 'into':
        y = obj.into_units()
    elif ch == 'from':
        y = obj.from_units()
    elif ch in ('clone_set', 'clone_orig', 'copy_set', 'copy_orig'):
        y = obj.clone() if ch.startswith('clone') else obj.copy()
        for t in case['touch'][:1]:
            _touch(y, t)
        y.set_units(new)
        if ch.endswith('orig'):
            y = obj
    else:
        raise KeyError(ch)
    tgt = y.wod if case['target'] == 'wod' else y
    return tgt, y


def _run_hist(case, info):
    spec = OBJ_OPS[case['oname']]
    a, y = hist_object(case)
    info['target_units'] = a._units_
    info['y_units'] = y._units_
    info['units'].append(('units of the object after the history', a._units_))
    ub = build(case['b'])
    b = None
    if spec['arity'] == 2:
        b = sc(case['shape'], ub) if spec['other'] == 'scalar' else make(case['cls'], case['shape'], ub)
        if case.get('bderiv'):
            vals = np.array(b._values_, copy=True) * 0.25
            b.insert_deriv('d0', type(b)(vals, units=build(deriv_spec(case['b']))))
    info['ua'], info['ub'] = a._units_, ub
    names_before = [(x.exponents, x.triple, x.name) if x is not None else None for x in (a._units_, ub)]
    ua_obj = a._units_
    r = spec['f'](a, b, case)
    info['operand_units_changed'] = names_before != [(x.exponents, x.triple, x.name) if x is not None else None
                                                     for x in (ua_obj, ub)]
    info['r'] = r
    if case['change'] not in ('into', 'from'):
        try:
            a0, _ = hist_object(case, with_units=False)
            b0 = None
            if spec['arity'] == 2:
                b0 = sc(case['shape'], None) if spec['other'] == 'scalar' else make(case['cls'], case['shape'], None)
            info['r0'] = spec['f'](a0, b0, case)
        except Exception as e:
            info['r0'] = e
    return _rule_obs(case, r, info)


DOPS = {'mul': 'mul', 'rmul': 'mul', 'imul': 'mul', 'dot': 'mul', 'cross': 'mul', 'outer': 'mul', 'element_mul': 'mul',
        'div': 'div', 'idiv': 'div', 'element_div': 'elem_div', 'sqrt': 'sqrt', 'recip': 'recip', 'rdivnum': 'recip',
        'norm': 'norm', 'norm_sq': 'norm_sq', 'pow': 'pow'}


def drule_operands(case, units=True):
    spec = OBJ_OPS[case['oname']]
    B = (lambda sp: build(sp)) if units else (lambda sp: None)
    da, db = case['da'], case.get('db', '-')
    a = make(case['cls'], case['shape'], B(case['a']), [B(da)] if da != '-' else [])
    b = None
    if spec['arity'] == 2:
        b = sc(case['shape'], B(case['b'])) if spec['other'] == 'scalar' else make(case['cls'], case['shape'], B(case['b']))
        if db != '-':
            vals = np.array(b._values_, copy=True) * 0.25
            b.insert_deriv('d0', type(b)(vals, units=B(db)))
    return a, b


def _run_drule(case, info):
    spec = OBJ_OPS[case['oname']]
    a, b = drule_operands(case)
    r = spec['f'](a, b, case)
    info['r'] = r
    try:
        a0, b0 = drule_operands(case, units=False)
        info['r0'] = spec['f'](a0, b0, case)
    except Exception as e:
        info['r0'] = e
    main = _rule_obs(case, r, info)
    d = r._derivs_.get('d0') if isinstance(r, Qube) else None
    info['d'] = d
    if d is None:
        return [main, 'absent']
    info['units'].append(('units of the derivative', d._units_))
    o = uobs(d._units_)
    return [main, 'inexact' if o == 'inexact' else ['units', o]]


def result_ref(case):
    """exact reference units of the result of a drule case (None = no units); raises if not exact"""
    spec = OBJ_OPS[case['oname']]
    ra = R.ref_of(case['a'])
    rb = R.ref_of(case['b']) if spec['arity'] == 2 else None
    m = spec['model']
    if m in ('mul', 'dot', 'cross', 'outer'):
        return ra if rb is None else rb if ra is None else R.r_mul(ra, rb)
    if m == 'div':
        return ra if rb is None else R.r_pow(rb, -1) if ra is None else R.r_div(ra, rb)
    if m == 'norm':
        return ra
    if m == 'norm_sq':
        return None if ra is None else R.r_mul(ra, ra)
    if m == 'recip':
        return None if ra is None else R.r_pow(ra, -1)
    if m in ('sqrt', 'pow'):
        kind = power_kind(ra, 1 if m == 'sqrt' else case['p'])
        if kind[0] != 'exact':
            raise R.Inexact(case['oname'])
        return kind[1]
    raise KeyError(m)


def judge_drule(case, obs, info, fail):
    spec = OBJ_OPS[case['oname']]
    a, b, da, db, t = case['a'], case.get('b'), case['da'], case.get('db', '-'), case['t']
    # only dimensionally consistent set-ups are specified: every derivative present has units operand/T
    consistent = not (a is None or (da != '-' and da != ['/', a, t]))
    if spec['arity'] == 2 and ((b is None and db != '-') or (db != '-' and db != ['/', b, t])):
        consistent = False
    if not consistent and isinstance(info.get('exc'), ValueError):
        return None          # derivative terms of different dimensions cannot be added: a legitimate rejection
    main = judge_rule(case, obs[0] if isinstance(obs, list) and len(obs) == 2 and not isinstance(obs[0], int) else obs, info, fail)
    if main:
        return main
    if info.get('exc') is not None or not consistent:
        return None
    if da == '-' and db == '-':
        return None
    if case.get('p') in (0, 'other'):
        return None
    try:
        res = result_ref(case)
    except (R.Inexact, ValueError):
        return None
    d = info.get('d')
    if d is None:
        return fail('derivative-lost', '%s: the result has no derivative although an operand has one' % case['oname'])
    want = R.r_div(res if res is not None else R.UNITLESS, R.ref_of(t))
    bad = units_match_ref(d._units_, want)
    if bad:
        return fail('derivative-units', '%s: units of the result\'s derivative: %s (result units / denominator units expected)'
                    % (case['oname'], bad))
    return None


NARY = {
    'Vector.from_scalars': lambda cs: Vector.from_scalars(*cs),
    'Vector3.from_scalars': lambda cs: Vector3.from_scalars(*cs),
    'Pair.from_scalars': lambda cs: Pair.from_scalars(*cs),
    'Matrix.from_scalars': lambda cs: Matrix.from_scalars(*cs),
    'Qube.from_scalars': lambda cs: Qube.from_scalars(*cs),
    'stack:Scalar': lambda cs: Qube.stack(*cs),
    'stack:Vector3': lambda cs: Qube.stack(*cs),
    'stack:Pair': lambda cs: Qube.stack(*cs),
    'stack:Matrix': lambda cs: Qube.stack(*cs),
}
NARY_ARITY = {'Vector3.from_scalars': [3], 'Pair.from_scalars': [2], 'Matrix.from_scalars': [4]}


def nary_components(case, units=True):
    """components of an n-ary combiner; `dt` gives each component's data type independently:
    'f' float, 'i' int, 'b' bool (a Boolean / True — only possible for a component without units, else int)"""
    fn = case['fn']
    dts = case.get('dt') or 'f' * len(case['us'])
    comps = []
    for i, (u, plain, dt) in enumerate(zip(case['us'], case['plain'], dts)):
        uu = build(u) if units else None
        if dt == 'b' and u is not None:
            dt = 'i'
        if fn.startswith('stack:'):
            cls = fn.split(':')[1]
            if cls == 'Scalar' and dt == 'b':
                comps.append(Boolean(np.full(tuple(case['shape']), i % 2 == 0)))
            elif cls == 'Scalar' and dt == 'i':
                comps.append(Scalar(np.full(tuple(case['shape']), 1 + i, dtype=int), units=uu))
            elif cls == 'Pair' and dt == 'i':
                vals = np.broadcast_to(np.array([1 + i, 2 + i]), tuple(case['shape']) + (2,)).copy()
                comps.append(Pair(vals, units=uu))
            else:
                comps.append(make(cls, case['shape'], uu, scale=1.0 + 0.5 * i))
        elif plain and u is None:
            comps.append(1.0 + 0.5 * i if dt == 'f' else 1 + i if dt == 'i' else (i % 2 == 0))   # plain Python value
        elif dt == 'b':
            comps.append(Boolean(np.full(tuple(case['shape']), i % 2 == 0)))
        elif dt == 'i':
            comps.append(Scalar(np.full(tuple(case['shape']), 1 + i, dtype=int), units=uu))
        else:
            comps.append(sc(case['shape'], uu, 1.0 + 0.5 * i))
    return comps


def _run_nary(case, info):
    f = NARY[case['fn']]
    r = f(nary_components(case))
    info['r'] = r
    try:
        info['r0'] = f(nary_components(case, units=False))
    except Exception as e:
        info['r0'] = e
    if not isinstance(r, Qube):
        return 'not-a-qube:' + type(r).__name__
    info['units'].append(('result units', r._units_))
    o = uobs(r._units_)
    return 'inexact' if o == 'inexact' else ['units', o]


def judge_nary(case, obs, info, fail):
    exc = info.get('exc')
    refs = [R.ref_of(u) for u in case['us']]
    present = [(i, x) for i, x in enumerate(refs) if x is not None]
    conflict = [(i, j) for a, (i, x) in enumerate(present) for (j, y) in present[a + 1:] if x[0] != y[0]]
    where = '%s of %d components with units %s and data types %s' % (case['fn'], len(refs), case['us'], case.get('dt', 'f' * len(refs)))
    if conflict:
        if not isinstance(exc, ValueError):
            i, j = conflict[0]
            return fail('no-rejection', '%s: components %d and %d have different dimensions, expected ValueError, got %s'
                        % (where, i, j, C.sx(obs) if exc is None else type(exc).__name__))
        return None
    if exc is not None:
        return fail('raised', '%s raised %s: %s' % (where, type(exc).__name__, exc))
    r = info['r']
    if not present:
        if r._units_ is not None:
            return fail('wrong-units', '%s: no component has units, the result has %s' % (where, r._units_))
    elif all(units_match_ref(r._units_, x) for _, x in present):
        return fail('wrong-units', '%s: the result units %s are those of no component'
                    % (where, None if r._units_ is None else (r._units_.exponents, r._units_.triple)))
    r0 = info.get('r0')
    if isinstance(r0, Qube) and not np.array_equal(np.asarray(r._values_), np.asarray(r0._values_)):
        return fail('values-depend-on-units', '%s: stored values differ from the same call without units' % where)
    return None


def _values_of(obj):
    return [np.array(obj._values_, copy=True)] + [np.array(d._values_, copy=True) for _, d in sorted(obj._derivs_.items())]


INPLACE_NO_UNITS = {'imul': '__imul__', 'idiv': '__itruediv__', 'ifloordiv': '__ifloordiv__', 'imod': '__imod__',
                    'iadd': '__iadd__', 'isub': '__isub__'}


def _run_set(case, info):
    cls, how = case['cls'], case['how']
    new = build(case['new'])
    cur = build(case.get('cur'))
    derivs = [build(d) for d in case.get('derivs', [])] if cls in UNIT_CLASSES else []
    if how == 'ctor':
        plain = make(cls, case['shape'], None)
        obj = CLS[cls](np.array(plain._values_, copy=True), units=new)
        info['before'], info['after'] = [np.array(plain._values_)], [np.array(obj._values_)]
        info['units'].append(('units', obj._units_))
        info['obj'] = obj
        return ['units', uobs(obj._units_)]
    if how in INPLACE_NO_UNITS:
        obj = make(cls, case['shape'], None)
        try:
            getattr(make(cls, case['shape'], None), INPLACE_NO_UNITS[how])(Scalar(2.0))
            info['supported'] = True
        except Exception:
            info['supported'] = False
        info['obj'] = obj
        getattr(obj, INPLACE_NO_UNITS[how])(Scalar(2.0, units=new))
        info['units'].append(('units', obj._units_))
        return [type(obj).__name__, uobs(obj._units_)]
    if how == 'mul_scalar':
        obj = make(cls, case['shape'], None)
        r = obj * Scalar(2.0, units=new)
        info['r'] = r
        if isinstance(r, Qube):
            info['units'].append(('units', r._units_))
            return [type(r).__name__, uobs(r._units_)]
        return 'not-a-qube'
    obj = make(cls, case['shape'], cur, derivs)
    info['before'] = _values_of(obj)
    info['obj'] = obj
    if how == 'set_units':
        obj.set_units(new)
        res = obj
    elif how == 'set_units_str':
        arg = new.name if (new is not None and isinstance(new.name, str) and new.name in Units.NAME_TO_UNIT) else new
        obj.set_units(arg)
        res = obj
    elif how == 'without':
        res = obj.without_units()
        info['before_res'] = _values_of(obj)
    else:
        raise KeyError(how)
    info['after'] = _values_of(res)
    info['res'] = res
    info['units'].append(('units', res._units_))
    return ['units', uobs(res._units_)]


def _leaf_factor(x_vals, y_vals, cands):
    """the exact factor (Fraction, piexp) among `cands` by which y = factor * x, or None"""
    x = np.asarray(x_vals, dtype=float).ravel(); y = np.asarray(y_vals, dtype=float).ravel()
    for f in cands:
        ff = float(f[0]) * math.pi ** f[1]
        if all(R.ulps(float(yy), float(xx) * ff) <= 4 + 2 * abs(f[1]) for xx, yy in zip(x, y)):
            return f
    return None


def _run_scale(case, info):
    cls = case['cls']
    u = build(case['u'])
    ds = [build(d) for d in case['derivs']]
    obj = make(cls, case['shape'], u, ds)
    x = _values_of(obj)
    d = case['dir']
    if d == 'into':
        y = obj.into_units()
    elif d == 'from':
        y = obj.from_units()
    elif d == 'round':
        y = obj.into_units().from_units()
    else:
        y = obj.from_units().into_units()
    info['x'], info['y'], info['obj'], info['res'] = x, _values_of(y), obj, y
    info['x_after'] = _values_of(obj)
    refs = [R.ref_of(case['u'])] + [R.ref_of(s) for s in case['derivs']]
    out = []
    for i, (xv, yv) in enumerate(zip(x, info['y'])):
        cands = [(Fr(1), 0)]
        for r in (refs[i], refs[0]):
            if r is not None:
                cands += [(1 / r[1], -r[2]), (r[1], r[2])]
        f = _leaf_factor(xv, yv, cands)
        if f is None:
            out.append('unknown-factor')
        else:
            out.append([[f[0].numerator, f[0].denominator, f[1]]])
    return out


# ------------------------------------------------------------------ request line for the model
def request(case):
    op = case['op']
    W = uwire
    def w(spec):
        x = W(spec)
        if x is None:
            raise ValueError('inexact operand')
        return x
    try:
        if op in ('mul', 'div'):
            return ['c12', op, w(case['a']), w(case['b'])]
        if op == 'powr':
            return ['c12', 'powr', w(case['a']), case['p']]
        if op == 'sqrt':
            return ['c12', 'sqrt', w(case['a'])]
        if op in ('mulnat', 'divnat'):
            return ['c12', op, w(case['a']), case['k']]
        if op == 'rdivnat':
            return ['c12', 'rdivnat', case['k'], w(case['a'])]
        if op == 'mk':
            return ['c12', 'mk'] + case['e'] + [case['n'], case['d'], case['p']]
        if op == 'str':
            u = str_operand(case)
            o = uobs(u)
            if not isinstance(o, list):
                return None
            dmg = case.get('damage')
            nm = None if (dmg is not None and u is _CONST[dmg]) else u.name     # the damaged constant itself
            return ['c12', 'str', o, pname_wire(nm), '-' if dmg is None else enc_str(_CONST[dmg].name)]
        if op == 'names':
            a, b = build(case['a']), build(case.get('b'))
            return ['c12', 'names', case['fn'], name_wire(a.name), 'N' if b is None else name_wire(b.name), case.get('k', 0)]
        if op == 'law':
            return ['c12', 'law', case['law'], w(case.get('a')), w(case.get('b')), w(case.get('c')),
                    case.get('p', 0), case.get('q', 0)]
        if op == 'static':
            fn = case['fn']
            if fn in ('mul_units', 'div_units'):
                return ['c12', fn, w(case.get('a')), w(case.get('b'))]
            if fn == 'sqrt_units':
                return ['c12', fn, w(case.get('a'))]
            return ['c12', fn, w(case.get('a')), case['p']]
        if op == 'test':
            return ['c12', 'test', case['fn'], w(case.get('a')), w(case.get('b'))]
        if op == 'convert':
            return ['c12', 'convert', w(case['a']), w(case['b'])]
        if op == 'nary':
            return ['c12', 'nary', 'stack' if case['fn'].startswith('stack:') else 'from_scalars', [w(u) for u in case['us']]]
        if op == 'drule':
            if irrational_expected(case):
                return None
            spec = OBJ_OPS[case['oname']]
            a = w(case['a']); b = w(case['b']) if spec['arity'] == 2 else 'N'
            da = '-' if case['da'] == '-' else w(case['da'])
            db = '-' if case.get('db', '-') == '-' else w(case['db'])
            # (Scalar * Vector dispatches to Vector._mul_by_scalar: the vector's derivative term comes first,
            #  so the operands are NOT swapped for the derivative rule; the product of the units commutes)
            opx = ['pow', case['p'], not case['shape']] if spec['model'] == 'pow' else [spec['model']]
            return ['c12', 'drule', a, b, da, db, DOPS[case['oname']], case['p'] if spec['model'] == 'pow' else 0,
                    not case['shape']] + opx
        if op in ('rule', 'hist'):
            spec = OBJ_OPS[case['oname']]
            a = w(case['a'])
            b = 'N' if spec.get('bnone') else a if spec.get('bself') else w(case['b'])
            if spec.get('swap'):
                a, b = b, a
            opx = ['pow', case['p'], not case['shape']] if spec['model'] == 'pow' else [spec['model']]
            CH = {'set_units': 'set', 'set_none': 'set', 'without': 'without', 'into': 'into', 'from': 'from',
                  'clone_set': 'clone_set', 'copy_set': 'clone_set'}
            if op == 'hist' and case['change'] in CH and not spec.get('swap'):
                # run the history on the model's cached-view object (CObj.run): touches, the unit-changing step(s),
                # then the operation on the object reached or on its .wod
                n = sum(1 for t in case['touch'] if t in ('wod', 'product', 'norm'))
                new = w(case['new']) if case['change'] in ('set_units', 'clone_set', 'copy_set') else 'N'
                return ['c12', 'hist', n, case['nderivs'], w(case['cur']), CH[case['change']], new, case['target'], b] + opx
            return ['c12', 'rule', a, b] + opx
        if op == 'set':
            if case['how'] in ('ctor', 'set_units', 'set_units_str'):
                return ['c12', 'set_units', case['cls'] in UNIT_CLASSES, w(case.get('cur')), w(case['new'])]
            return None
        if op == 'scale':
            return ['c12', 'scale', case['dir'], w(case['u']), [w(d) for d in case['derivs']]]
    except Exception:
        # an operand could not be built or abstracted (float triple, or the code under test raised while
        # building it): no request for the model; impl/oracle still run the case and report the exception
        return None
    return None


def kind_of(case):
    op = case['op']
    if op == 'law':
        return 'law:' + case['law']
    if op == 'names':
        return 'names:' + case['fn']
    if op == 'zero':
        return 'zero:' + case['fn']
    if op == 'str':
        return 'str:' + case.get('how', 'asis') + (':damaged' if case.get('damage') else '')
    if op == 'static':
        return 'static:' + case['fn']
    if op == 'test':
        return 'test:' + case['fn']
    if op == 'rule':
        return 'rule:%s:%s' % (case['oname'], case['cls'])
    if op == 'hist':
        return 'hist:%s:%s:%s' % (case['change'], case['target'], case['cls'])
    if op == 'drule':
        return 'drule:%s:%s' % (case['oname'], case['cls'])
    if op == 'nary':
        return 'nary:%s:%d' % (case['fn'], len(case['us']))
    if op == 'set':
        return 'set:%s:%s' % (case['how'], case['cls'])
    if op == 'scale':
        return 'scale:%s:%s' % (case['dir'], case['cls'])
    return op


# ------------------------------------------------------------------ the direct oracle
def _sig(case, what):
    op = case['op']
    sub = case.get('law') or (case.get('fn') if isinstance(case.get('fn'), str) else None) or (case.get('how') if case['op'] == 'str' else None) or case.get('oname') or case.get('how') or case.get('dir') or ''
    return '%s:%s:%s' % (op, sub, what)


def units_match_ref(u, ref, tol_extra=0):
    """None if the real Units value `u` equals the exact reference; otherwise a description"""
    if ref is None:
        return None if u is None else 'expected no units, got %s %s' % (u.exponents, u.triple)
    if u is None:
        return 'expected units with exponents %s, got None' % (ref[0],)
    if tuple(u.exponents) != tuple(ref[0]):
        return 'exponents %s, expected %s' % (u.exponents, ref[0])
    n, d, p = u.triple
    if not (is_int(n) and is_int(d) and is_int(p)):
        return 'triple %s is not exact although the exact factor is %s*pi**%d' % (u.triple, ref[1], ref[2])
    if d <= 0 or Fr(n, d) != ref[1] or p != ref[2]:
        return 'triple %s, expected factor %s*pi**%d' % (u.triple, ref[1], ref[2])
    if math.gcd(n, d) != 1:
        return 'triple %s is not in lowest terms' % (u.triple,)
    ff = R.r_float(ref)
    if R.ulps(u.factor, ff) > 4 + 2 * abs(p) or R.ulps(u.factor_inv, 1 / ff) > 6 + 2 * abs(p):
        return 'factor %r / factor_inv %r disagree with %s*pi**%d' % (u.factor, u.factor_inv, ref[1], ref[2])
    return None


def units_match_real(u, dims, f):
    if u is None:
        return 'expected units, got None'
    if tuple(u.exponents) != tuple(dims):
        return 'exponents %s, expected %s' % (u.exponents, dims)
    if not (abs(u.factor - f) <= 1e-13 * abs(f)):
        return 'factor %r, expected %r' % (u.factor, f)
    return None


def judge(case, obs, info):
    op = case['op']
    if info['mutated']:
        return (_sig(case, 'constant-mutated'),
                'shared Units constants changed by the operation: %s' % ', '.join(info['mutated']))
    if info['unprintable']:
        return (_sig(case, 'unprintable'), '; '.join(info['unprintable']))
    exc = info.get('exc')
    fail = lambda what, text: (_sig(case, what), text)

    if op in ('mul', 'div', 'powr', 'sqrt', 'mulnat', 'divnat', 'rdivnat', 'mulnum', 'mk'):
        if op == 'mk':
            ref = (tuple(case['e']), Fr(case['n'], case['d']), case['p'])
            kind = ('exact', ref)
        else:
            ra = R.ref_of(case['a'])
            if op == 'mul':
                kind = ('exact', R.r_mul(ra, R.ref_of(case['b'])))
            elif op == 'div':
                kind = ('exact', R.r_div(ra, R.ref_of(case['b'])))
            elif op == 'mulnat':
                kind = ('exact', (ra[0], ra[1] * case['k'], ra[2]))
            elif op == 'divnat':
                kind = ('exact', (ra[0], ra[1] / case['k'], ra[2]))
            elif op == 'rdivnat':
                kind = ('exact', R.r_div(((0, 0, 0), Fr(case['k']), 0), ra))
            elif op == 'mulnum':
                q = Fr(case['n'], case['d'])
                if 256 % case['d'] == 0:
                    kind = ('exact', (ra[0], ra[1] * q, ra[2]))
                else:
                    kind = ('real', ra[0], R.r_float(ra) * (case['n'] / case['d']))
            elif op == 'sqrt':
                kind = R.r_sqrt(ra)
            else:   # powr
                p = case['p']
                if p == 'other':
                    return None                      # not specified by the property
                if p % 2 == 0:
                    kind = ('exact', R.r_pow(ra, p // 2))
                else:
                    kind = R.r_sqrt(ra)
                    if kind[0] == 'exact':
                        kind = ('exact', R.r_pow(kind[1], p))
                    elif kind[0] == 'real':
                        kind = ('real', tuple(x * p for x in kind[1]), kind[2] ** p)
        if kind[0] == 'illegal':
            if not isinstance(exc, ValueError):
                return fail('no-rejection', '%s of units with an odd exponent must raise ValueError, got %s' % (op, C.sx(obs)))
            return None
        if exc is not None:
            return fail('raised', '%s raised %s: %s' % (op, type(exc).__name__, exc))
        r = info['r']
        bad = units_match_ref(r, kind[1]) if kind[0] == 'exact' else units_match_real(r, kind[1], kind[2])
        if bad:
            return fail('wrong-result', '%s: %s' % (op, bad))
        if not (r == r) or (r != r):
            return fail('eq', 'result is not equal to itself')
        return None

    if op == 'zero':
        # a unit with a zero numerator or denominator cannot exist (no inverse factor): a clean rejection is demanded
        if not isinstance(exc, ValueError):
            return fail('zero-coefficient', '%s on %s: expected ValueError, got %s'
                        % (case['fn'], case['a'], ('%s: %s' % (type(exc).__name__, exc)) if exc is not None else C.sx(obs)))
        return None
    if op == 'str':
        if case.get('damage') is not None:
            return None                 # deliberately damaged registry: only the model's failure path is tied
        if exc is not None:
            return fail('raised', 'str(units) raised %s: %s' % (type(exc).__name__, exc))
        if not (isinstance(obs, str) and obs.startswith('Units(') and obs.endswith(')')):
            return fail('malformed', 'str(units) = %r' % (obs,))
        return None
    if op == 'names':
        if exc is not None:
            return fail('raised', 'names %s raised %s: %s' % (case['fn'], type(exc).__name__, exc))
        r = info['r']
        if r.name is None:
            return None
        ra, rb = R.ref_of(case['a']), R.ref_of(case.get('b'))
        fn = case['fn']
        ref = R.r_mul(ra, rb) if fn == 'mul' else R.r_div(ra, rb) if fn == 'div' else R.r_pow(ra, case['k']) \
            if fn == 'pow' else R.r_sqrt(ra)[1]
        try:
            nv = name_value(r.name)
        except Exception as e:
            return fail('bad-name', 'the name %r of the result cannot be interpreted: %s' % (r.name, e))
        if nv is not None and nv != ref:
            return fail('wrong-name', '%s: the result is named %r (= %s*pi**%d, %s) but is %s*pi**%d, %s'
                        % (fn, r.name, nv[1], nv[2], nv[0], ref[1], ref[2], ref[0]))
        return None
    if op == 'law':
        if exc is not None:
            return fail('raised', 'law %s raised %s: %s' % (case['law'], type(exc).__name__, exc))
        lhs, rhs = info['lhs'], info['rhs']
        same = (tuple(lhs.exponents) == tuple(rhs.exponents) and tuple(lhs.triple) == tuple(rhs.triple))
        if not same or not info['eq'] or info['ne']:
            return fail('broken', 'law %s: %s %s  vs  %s %s (== says %s, != says %s)'
                        % (case['law'], lhs.exponents, lhs.triple, rhs.exponents, rhs.triple, info['eq'], info['ne']))
        # and both sides are what the reference says
        ra, rb, rc = R.ref_of(case.get('a')), R.ref_of(case.get('b')), R.ref_of(case.get('c'))
        law = case['law']
        ref = {'comm': lambda: R.r_mul(ra, rb), 'assoc': lambda: R.r_mul(R.r_mul(ra, rb), rc), 'cancel': lambda: ra,
               'cancel2': lambda: ra, 'muldiv': lambda: R.r_div(R.r_mul(ra, rb), rc), 'divself': lambda: R.UNITLESS,
               'sqrtsq': lambda: ra, 'sqrtmul': lambda: R.r_mul(ra, rb),
               'powadd': lambda: R.r_pow(ra, case['p'] + case['q']), 'powneg': lambda: R.r_pow(ra, -case['p'])}[law]()
        bad = units_match_ref(lhs, ref)
        if bad:
            return fail('wrong-result', 'law %s: %s' % (law, bad))
        return None

    if op == 'static':
        fn = case['fn']
        ra, rb = R.ref_of(case.get('a')), R.ref_of(case.get('b'))
        if fn == 'mul_units':
            kind = ('exact', ra if rb is None else rb if ra is None else R.r_mul(ra, rb))
        elif fn == 'div_units':
            kind = ('exact', ra if rb is None else R.r_pow(rb, -1) if ra is None else R.r_div(ra, rb))
        elif fn == 'sqrt_units':
            kind = ('exact', None) if ra is None else R.r_sqrt(ra)
        else:
            p = case['p']
            if ra is None:
                kind = ('exact', None)
            elif p % 2 == 0:
                kind = ('exact', R.r_pow(ra, p // 2))
            else:
                kind = R.r_sqrt(ra)
                if kind[0] == 'exact':
                    kind = ('exact', R.r_pow(kind[1], p))
                elif kind[0] == 'real':
                    kind = ('real', tuple(x * p for x in kind[1]), kind[2] ** p)
        if kind[0] == 'illegal':
            if not isinstance(exc, ValueError):
                return fail('no-rejection', '%s must raise ValueError, got %s' % (fn, C.sx(obs)))
            return None
        if exc is not None:
            return fail('raised', '%s raised %s: %s' % (fn, type(exc).__name__, exc))
        r = info['r']
        bad = units_match_ref(r, kind[1]) if kind[0] == 'exact' else units_match_real(r, kind[1], kind[2])
        if bad:
            return fail('wrong-result', '%s: %s' % (fn, bad))
        if info['operands_changed']:
            return fail('operand-mutated', '%s changed one of its operands' % fn)
        if case.get('name') is not None and r is not None and r.name != case['name']:
            return fail('name-ignored', '%s(name=%r) returned units named %r' % (fn, case['name'], r.name))
        return None

    if op == 'test':
        if exc is not None:
            return fail('raised', '%s raised %s' % (case['fn'], type(exc).__name__))
        ra, rb = R.ref_of(case.get('a')), R.ref_of(case.get('b'))
        fn = case['fn']
        if fn == 'can_match':
            want = ra is None or rb is None or ra[0] == rb[0]
        elif fn == 'do_match':
            want = (ra or R.UNITLESS)[0] == (rb or R.UNITLESS)[0]
        elif fn in ('eq', 'ne'):
            want = (ra is not None and rb is not None and ra == rb) == (fn == 'eq')
        elif fn == 'is_angle':
            want = ra is None or ra[0] in ((0, 0, 0), (0, 0, 1))
        else:
            want = ra is None or ra[0] == (0, 0, 0)
        if bool(info['r']) != want:
            return fail('wrong', '%s says %s, dimensions say %s' % (fn, info['r'], want))
        return None

    if op == 'convert':
        ra, rb = R.ref_of(case['a']), R.ref_of(case['b']) or R.UNITLESS
        if ra[0] != rb[0]:
            if not isinstance(exc, ValueError):
                return fail('no-rejection', 'convert between different dimensions must raise ValueError, got %s' % C.sx(obs))
            return None
        if exc is not None:
            return fail('raised', 'convert raised %s: %s' % (type(exc).__name__, exc))
        f = R.r_div(ra, rb)
        v = Fr(case['value'])
        r = float(info['r'])
        if f[2] == 0:
            exact = f[1] * v
            if float(exact) == exact and abs(ra[1].numerator * rb[1].denominator * v) < 2 ** 53 \
                    and abs(ra[1].denominator * rb[1].numerator) < 2 ** 53:
                if r != float(exact):
                    return fail('inexact', 'convert(%r) = %r, the exact answer %s is representable' % (case['value'], r, exact))
                return None
        expect = float(f[1] * v) * math.pi ** f[2]
        if R.ulps(r, expect) > 4 + 2 * abs(f[2]):
            return fail('wrong', 'convert(%r) = %r, expected %r' % (case['value'], r, expect))
        return None

    if op == 'rule':
        return judge_rule(case, obs, info, fail)
    if op == 'drule':
        return judge_drule(case, obs, info, fail)
    if op == 'nary':
        return judge_nary(case, obs, info, fail)
    if op == 'hist':
        # the object reached by the history must carry exactly the units the history gave it ...
        if 'target_units' in info:
            want = R.ref_of(case['a'])
            bad = units_match_ref(info['target_units'], want)
            if bad:
                return fail('stale-units', 'after %s (touched before: %s) the %s has wrong units: %s'
                            % (case['change'], ','.join(case['touch']) or 'nothing',
                               'object' if case['target'] == 'obj' else "object's .wod", bad))
        # ... and every operation must treat it accordingly
        return judge_rule(case, obs, info, fail)
    if op == 'set':
        return judge_set(case, obs, info, fail)
    if op == 'scale':
        return judge_scale(case, obs, info, fail)
    return None


def _dims(ref):
    return None if ref is None else ref[0]


def judge_rule(case, obs, info, fail):
    oname = case['oname']
    spec = OBJ_OPS[oname]
    exc = info.get('exc')
    ra = R.ref_of(case['a'])
    rb = None if spec.get('bnone') else ra if spec.get('bself') else R.ref_of(case['b']) if spec['arity'] == 2 else None
    model = spec['model']
    incompatible = ra is not None and rb is not None and ra[0] != rb[0]
    r = info.get('r')

    def values_untouched():
        r0 = info.get('r0')
        if isinstance(r, Qube) and isinstance(r0, Qube):
            if not (np.array_equal(np.asarray(r._values_), np.asarray(r0._values_), equal_nan=True)
                    and np.array_equal(np.asarray(r._mask_), np.asarray(r0._mask_))):
                return fail('values-depend-on-units', '%s: stored values %s differ from the same operation without units %s'
                            % (oname, np.asarray(r._values_).tolist(), np.asarray(r0._values_).tolist()))
        if info.get('operand_units_changed'):
            return fail('operand-units-mutated', '%s changed the Units object of an operand' % oname)
        return None

    def want_units(ref, also_none=False):
        if exc is not None:
            return fail('raised', '%s raised %s: %s' % (oname, type(exc).__name__, exc))
        if not isinstance(r, Qube):
            return fail('not-a-qube', '%s returned %s' % (oname, type(r).__name__))
        if also_none and r._units_ is None:
            return values_untouched()
        bad = units_match_ref(r._units_, ref)
        if bad:
            return fail('wrong-units', '%s: %s' % (oname, bad))
        return values_untouched()

    def want_value_error(why):
        if not isinstance(exc, ValueError):
            return fail('no-rejection', '%s %s must raise ValueError, got %s' % (oname, why, C.sx(obs)))
        return None

    if model in ('add', 'sub', 'stack', 'from_scalars'):
        if incompatible:
            return want_value_error('on incompatible units')
        if exc is not None:
            return fail('raised', '%s raised %s: %s' % (oname, type(exc).__name__, exc))
        if ra is None and rb is None:
            return want_units(None)
        if r._units_ is None:
            return fail('units-lost', '%s dropped the units' % oname)
        cands = [x for x in (ra, rb) if x is not None]
        if all(units_match_ref(r._units_, x) for x in cands):
            return fail('wrong-units', '%s: result units %s %s are those of neither operand'
                        % (oname, r._units_.exponents, r._units_.triple))
        return values_untouched()
    if model in ('lt', 'le', 'gt', 'ge'):
        if incompatible:
            return want_value_error('on incompatible units')
        if exc is not None:
            return fail('raised', '%s raised %s: %s' % (oname, type(exc).__name__, exc))
        return None
    if model == 'arctan2':
        if incompatible:
            return want_value_error('on incompatible units')
        if exc is not None:
            return fail('raised', '%s raised %s: %s' % (oname, type(exc).__name__, exc))
        return values_untouched()
    if model in ('eq', 'ne'):
        if exc is not None:
            return fail('raised', '%s raised %s: %s' % (oname, type(exc).__name__, exc))
        want = ['const', model == 'ne'] if incompatible else 'cmp'
        if C.sx(obs) != C.sx(want):
            return fail('wrong', '%s with %s units answered %s' % (oname, 'incompatible' if incompatible else 'compatible', C.sx(obs)))
        return None
    if model in ('mul', 'dot', 'cross', 'outer'):
        ref = ra if rb is None else rb if ra is None else R.r_mul(ra, rb)
        return want_units(ref)
    if model == 'div':
        ref = ra if rb is None else R.r_pow(rb, -1) if ra is None else R.r_div(ra, rb)
        return want_units(ref)
    if model == 'norm':
        return want_units(ra)
    if model == 'norm_sq':
        return want_units(None if ra is None else R.r_mul(ra, ra))
    if model == 'recip':
        return want_units(None if ra is None else R.r_pow(ra, -1))
    if model in ('sqrt', 'pow'):
        p = 1 if model == 'sqrt' else case['p']
        pure = ra is not None and all(x == 0 for x in ra[0])
        if p == 'other':
            if ra is None:
                return want_units(None)
            if not pure:
                return None                              # not specified (the code rejects it)
            # a pure number can be raised to any power, whatever the shape of the object
            if exc is not None:
                return fail('unitless-power', '%s: a pure number (units %s) ** 0.7 raised %s: %s'
                            % (oname, case['a'], type(exc).__name__, exc))
            if r._units_ is not None and any(x != 0 for x in r._units_.exponents):
                return fail('unitless-power', '%s: a pure number ** 0.7 came back with exponents %s'
                            % (oname, r._units_.exponents))
            return values_untouched()
        if ra is None:
            return want_units(None)
        if pure:
            pk = power_kind(ra, p)
            res = want_units(pk[1], also_none=(pk[1][1] == 1 and pk[1][2] == 0)) if pk[0] == 'exact' else None
            if res and res[0].endswith(('wrong-units', 'raised')):
                return fail('unitless-power', res[1])
            if power_kind(ra, p)[0] == 'exact':
                return res
        if p % 2 == 0:
            kind = ('exact', R.r_pow(ra, p // 2))
        else:
            kind = R.r_sqrt(ra)
            if kind[0] == 'exact':
                kind = ('exact', R.r_pow(kind[1], p))
            elif kind[0] == 'real':
                kind = ('real', tuple(x * p for x in kind[1]), kind[2] ** p)
        if kind[0] == 'illegal':
            return want_value_error('of units with an odd exponent')
        if kind[0] == 'exact':
            zero = all(x == 0 for x in kind[1][0]) and kind[1][1] == 1 and kind[1][2] == 0
            return want_units(kind[1], also_none=zero)
        if exc is not None:
            return fail('unitless-power' if pure else 'raised', '%s raised %s: %s' % (oname, type(exc).__name__, exc))
        bad = units_match_real(r._units_, kind[1], kind[2])
        if bad:
            return fail('unitless-power' if pure else 'wrong-units', '%s: %s' % (oname, bad))
        return values_untouched()
    if model in ANGLE_OPS or model in PURE_OPS:
        ok = ra is None or ra[0] == (0, 0, 0) or (model in ANGLE_OPS and ra[0] == (0, 0, 1))
        if not ok:
            return want_value_error('of a quantity in %s' % (ra[0],))
        if exc is not None:
            return fail('raised', '%s raised %s: %s' % (oname, type(exc).__name__, exc))
        return values_untouched()
    if model == 'log':
        # KF-C12-1: log needs a pure number (its inverse exp enforces exactly that); an angle in radians is one
        ok = ra is None or ra[0] in ((0, 0, 0), (0, 0, 1))
        if not ok and not isinstance(exc, ValueError):
            return fail('no-rejection', 'log of a quantity in %s was accepted: %s' % (ra[0], C.sx(obs)))
        return None
    return None


def _bitwise_equal(xs, ys):
    return len(xs) == len(ys) and all(x.shape == y.shape and x.tobytes() == y.tobytes() for x, y in zip(xs, ys))


def judge_set(case, obs, info, fail):
    exc = info.get('exc')
    cls, how = case['cls'], case['how']
    rn, rc = R.ref_of(case['new']), R.ref_of(case.get('cur'))
    if cls in NO_UNITS and how in INPLACE_NO_UNITS:
        obj = info.get('obj')
        if obj is not None and obj._units_ is not None:
            return fail('units-on-forbidden-class', '%s %s= Scalar with units %s left units %s (%s) on a class that disallows units'
                        % (cls, how, case['new'], obj._units_.exponents, obj._units_.triple))
        if rn is not None and info.get('supported') and not isinstance(exc, TypeError):
            return fail('no-rejection', '%s %s by a Scalar with units %s must raise TypeError, got %s'
                        % (cls, how, case['new'], C.sx(obs) if exc is None else type(exc).__name__))
        return None
    if cls in NO_UNITS:
        if how == 'mul_scalar':
            r = info.get('r')
            if exc is None and isinstance(r, Qube) and not type(r).UNITS_OK and r._units_ is not None:
                return fail('units-on-forbidden-class', '%s result carries units %s' % (type(r).__name__, r._units_))
            return None
        if rn is not None:
            if not isinstance(exc, TypeError):
                return fail('no-rejection', '%s on %s with units must raise TypeError, got %s' % (how, cls, C.sx(obs)))
            return None
        if exc is not None:
            return fail('raised', '%s on %s without units raised %s' % (how, cls, type(exc).__name__))
        return None
    if how in ('set_units', 'set_units_str') and rn is not None and rc is not None and rn[0] != rc[0]:
        if not isinstance(exc, ValueError):
            return fail('no-rejection', 'set_units to another dimension must raise ValueError, got %s' % C.sx(obs))
        # the rejected call must not have changed anything either
        obj = info['obj']
        if not _bitwise_equal(info['before'], _values_of(obj)) or units_match_ref(obj._units_, rc):
            return fail('changed-on-rejection', 'rejected set_units changed the object')
        return None
    if exc is not None:
        return fail('raised', '%s raised %s: %s' % (how, type(exc).__name__, exc))
    res = info.get('res', info.get('obj'))
    bad = units_match_ref(res._units_, None if how == 'without' else rn)
    if bad:
        return fail('wrong-units', '%s: %s' % (how, bad))
    if not _bitwise_equal(info['before'], info['after']):
        return fail('values-changed', '%s changed the stored values: %s -> %s'
                    % (how, [x.tolist() for x in info['before']], [x.tolist() for x in info['after']]))
    if how == 'without' and not _bitwise_equal(info['before'], info['before_res']):
        return fail('operand-changed', 'without_units changed its operand')
    if how == 'without':
        kept = [k for k, d in res._derivs_.items() if d._units_ is not None]
        if kept:
            return fail('derivative-units-kept', 'without_units(): the result has no units but its derivatives %s still have '
                        '(%s)' % (kept, res._derivs_[kept[0]]._units_))
        if any(d._units_ is None for d, spec in zip([info['obj']._derivs_[k] for k in sorted(info['obj']._derivs_)],
                                                    case.get('derivs', [])) if spec is not None):
            return fail('operand-changed', 'without_units() stripped the units of the derivatives of its operand')
    return None


def judge_scale(case, obs, info, fail):
    exc = info.get('exc')
    if exc is not None:
        return fail('raised', '%s_units raised %s: %s' % (case['dir'], type(exc).__name__, exc))
    d = case['dir']
    x, y = info['x'], info['y']
    if not _bitwise_equal(x, info['x_after']):
        return fail('operand-changed', '%s_units changed its operand' % d)
    ru = R.ref_of(case['u'])
    res = info['res']
    if units_match_ref(res._units_, ru):
        return fail('units-changed', '%s: units of the result: %s' % (d, units_match_ref(res._units_, ru)))
    f = 1.0 if ru is None else R.r_float(ru)
    k = 0 if ru is None else abs(ru[2])
    if d in ('into', 'from'):
        ff = (1.0 / f) if d == 'into' else f
        xv, yv = x[0].ravel(), y[0].ravel()
        if not all(R.ulps(float(b), float(a) * ff) <= 4 + 2 * k for a, b in zip(xv, yv)):
            return fail('wrong-scale', '%s_units: values %s -> %s, expected factor %r' % (d, xv.tolist(), yv.tolist(), ff))
        return None
    # round trips: identity on values and on every derivative, within 4 ulp (+ pi powers)
    for i, (a, b) in enumerate(zip(x, y)):
        kk = k if i == 0 else max([abs(R.ref_of(s)[2]) if s is not None else 0 for s in case['derivs']] + [0])
        if not all(R.ulps(float(p), float(q)) <= 4 + 4 * kk for p, q in zip(a.ravel(), b.ravel())):
            return fail('not-inverse', '%s trip is not the identity on %s: %s -> %s'
                        % (d, 'the values' if i == 0 else 'derivative %d' % (i - 1), a.ravel().tolist(), b.ravel().tolist()))
    return None
