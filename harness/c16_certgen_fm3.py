"""C16 development tool (not used by the check; the Lean kernel re-checks every certificate it prints).
Generates the fromMatrix3_branch{0,1,2} lemmas of lean/PMV/Props/C16.lean (written to ./fm_branches.lean).
Run with /venv/bin/python from any directory; output files are written to the current directory."""
import sys, os
sys.path.insert(0, os.path.dirname(os.path.abspath(__file__)))
from c16_certso3 import *
names2=['m %d %d'%(i,j) for i in range(3) for j in range(3)]
res={}
for i in range(3):
    j=(i+1)%3;k=(i+2)%3
    X=1+M[i][i]-M[j][j]-M[k][k]
    u=[None]*4
    u[0]=M[k][j]-M[j][k]; u[i+1]=X; u[j+1]=M[i][j]+M[j][i]; u[k+1]=M[i][k]+M[k][i]
    w,x,y,z=u
    T={'N':w*w+x*x+y*y+z*z-4*X,
       '00':y*y+z*z-2*X*(1-M[0][0]),'11':x*x+z*z-2*X*(1-M[1][1]),'22':x*x+y*y-2*X*(1-M[2][2]),
       '01':x*y-w*z-2*X*M[0][1],'02':x*z+w*y-2*X*M[0][2],'10':x*y+w*z-2*X*M[1][0],
       '12':y*z-w*x-2*X*M[1][2],'20':x*z-w*y-2*X*M[2][0],'21':y*z+w*x-2*X*M[2][1]}
    for key,t in T.items():
        sol=solve(t,rels,N,deg=0)
        if sol is None: sol=solve(t,rels,N,deg=1)
        res[(i,key)]=lean_cert(sol,['h.'+x for x in hn],names2) if sol else None
        print(i,key,res[(i,key)])
order=['N','00','11','22','01','02','10','12','20','21']
out=''
for i in range(3):
    out+='''/-- branch `argmax = %d` of `from_matrix3`: the un-scaled quaternion `u` reproduces the matrix -/
theorem fromMatrix3_branch%d (m : Mat K) (h : SO3 m) (q0 : Q4 K) (h2 : (2 : K) ≠ 0)
    (hX : 1 + (1 + 1) * m %d %d - (m 0 0 + m 1 1 + m 2 2) ≠ 0) :
    Eq3 (toMatRef ((((q0.setAt 0 (m %d %d - m %d %d)).setAt (%d + 1) (1 + (1 + 1) * m %d %d - (m 0 0 + m 1 1 + m 2 2))).setAt
      (%d + 1) (m %d %d + m %d %d)).setAt (%d + 1) (m %d %d + m %d %d))) m := by
  refine toMatRef_of_identities _ m _ hX h2 ?_ ?_ ?_ ?_ ?_ ?_ ?_ ?_ ?_ ?_ <;> simp only [Q4.setAt, qNormSq_eq]
''' % (i,i,i,i, (i+2)%3,(i+1)%3,(i+1)%3,(i+2)%3, i,i,i, (i+1)%3, i,(i+1)%3,(i+1)%3,i, (i+2)%3, i,(i+2)%3,(i+2)%3,i)
    for key in order:
        out+='  · linear_combination '+res[(i,key)]+'\n'
    out+='\n'
open('fm_branches.lean','w').write(out)
