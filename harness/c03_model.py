"""C03: request lines for the Lean model (driver_c03) and the canonical form shared by model and implementation.

Only trees over the MODELLED catalogue become requests (req is None otherwise and the case is judged by the two-run
oracle alone).  Building a request runs the real code once to learn the shapes of the intermediate results (axis
normalisation is NumPy's) and to tabulate the transcendental functions at exactly the stored values they are applied to
(libm is a parameter of the model, not part of it)."""
import struct, sys, warnings
import numpy as np
from absn import *
import common as C
import c03_ops as O

UN = {'neg': 'neg', 'abs': 'abs', 'sign': 'sign', 'sin': 'sin', 'cos': 'cos', 'tan': 'tan', 'arctan': 'arctan',
      'sqrt': 'sqrt', 'log': 'log', 'exp_c': 'expC', 'recip': 'recip', 'arcsin': 'arcsin', 'arccos': 'arccos',
      'sqrt_nc': 'sqrtNc', 'log_nc': 'logNc', 'exp': 'exp', 'recip_nz': 'recipNz', 'arcsin_nc': 'arcsinNc',
      'arccos_nc': 'arccosNc', 'wod': 'wod', 'pickle': 'pickle'}
# operations whose derivative rule is NOT in the model: tied only when the operand carries no derivative
NO_DERIV_RULE = {'tan', 'arctan', 'arcsin', 'arccos', 'arcsin_nc', 'arccos_nc'}
BIN = {'add', 'sub', 'mul', 'div', 'stack'}
NUMOPS = {'mulc', 'rmulc', 'addc', 'subc', 'rsubc', 'divc', 'rdivc'}
BIN2 = {'mod', 'floordiv', 'arctan2'}
MWK = {'mw_lt': 'lt', 'mw_le': 'le', 'mw_gt': 'gt', 'mw_ge': 'ge', 'mw_eq': 'eq', 'mw_ne': 'ne'}
RED = {'sum', 'mean', 'max', 'min', 'argmax', 'argmin', 'median'}
CMP = {'eq', 'ne', 'lt', 'le', 'gt', 'ge'}
TABLES = {'sin': ['sin', 'cos'], 'cos': ['sin', 'cos'], 'tan': ['tan'], 'arctan': ['arctan'], 'log': ['log'],
          'log_nc': ['log'], 'exp': ['exp'], 'exp_c': ['exp'], 'arcsin': ['arcsin'], 'arccos': ['arccos'],
          'arcsin_nc': ['arcsin'], 'arccos_nc': ['arccos']}
NPFN = {'sin': np.sin, 'cos': np.cos, 'tan': np.tan, 'arctan': np.arctan, 'log': np.log, 'exp': np.exp,
        'arcsin': np.arcsin, 'arccos': np.arccos}
EXP_CUTOFF = float(np.log(sys.float_info.max))
CONSTS = [0., 1., EXP_CUTOFF]


def _kf2_repaired():
    """known finding KF-C03-2 (a shapeless operand loses its derivatives in mask_where(replace=...)): on a tree where it
    is repaired (wt-C03 11fb0e6) such operands are tied to the model as well, otherwise they are oracle-only"""
    try:
        return bool(Scalar(-4., derivs={'t': Scalar(1.)}).log().derivs)
    except Exception:
        return False


KF2_REPAIRED = _kf2_repaired()


def bits(x):
    return struct.unpack('<Q', struct.pack('<d', float(x)))[0]


class Unsupported(Exception):
    pass


def request(tree, env, variant):
    try:
        return _request(tree, env, variant)
    except Unsupported:
        return None


def _request(tree, env, variant):
    if tree[0] == 'v':
        raise Unsupported()
    go, finish, _ = _ctx(env, variant)
    if tree[0] in CMP:
        t1, a = go(tree[2])
        t2, b = go(tree[3])
        sx_tree = ['cmp', tree[0], t1, t2]
    else:
        sx_tree, _ = go(tree)
    return finish(sx_tree)


IOP = {'iadd': 'add', 'isub': 'sub', 'imul': 'mul', 'itruediv': 'mul'}


def request_prog(prog, env, variant):
    """statement sequences: an in-place operator is the pure operator plus rebinding (`x /= y` is `x := x * y.reciprocal()`,
    qube.py __itruediv__); the real statements are executed on the shared objects while the request is built"""
    try:
        nlets = sum(1 for st in prog if st[0] == 'let')
        go, finish, objs = _ctx(env, variant, reserve=nlets)
        inexact = set()
        sts = []
        for st in prog:
            if st[0] == 'let':
                # b = f(a): a new name; only derivations that do not alias a (values, mask and derivatives are new
                # objects - the model has value semantics; the aliasing ones are findings KF-C03-9/-10)
                f = st[1]
                src = objs[f[2][1]] if f[2][0] == 'v' else None
                if f[0] not in LET_OK and not (f[0] in ('addc', 'subc') and src is not None and not src._derivs_):
                    raise Unsupported()
                t, r = go(f)
                if r is None:
                    raise Unsupported()
                sts.append(['assign', len(objs), t])
                objs.append(r)
            elif st[0] == 'query':
                go.inexact = inexact
                t, _ = go(st[1])
                sts.append(['query', t])
            elif st[0] == 'set':
                i, pattern, it, rhs = st[1], st[2], st[3], st[4]
                if pattern != 'i' or not (isinstance(it, list) and it[0] == 'v' and it[1] < len(env) and env[it[1]]['t'] == 'I'):
                    raise Unsupported()
                if not (isinstance(rhs, list) and rhs[0] == 'v' and rhs[1] < len(env) and env[rhs[1]]['t'] == 'F') or i >= len(objs):
                    raise Unsupported()
                x, y = objs[i], objs[rhs[1]]
                if x._derivs_ or y._derivs_ or not x._shape_ or x._shape_[0] == 0:
                    raise Unsupported()
                rt, _ = go(rhs)
                go(['v', i])
                iv = go.index_slot(it[1])
                sts.append(['setitem', i, iv, rt])
                with warnings.catch_warnings():
                    warnings.simplefilter('ignore')
                    try:
                        x[objs[it[1]]] = y
                    except Exception:
                        pass
            elif st[0] == 'iop' and st[1] in IOP:
                i, rhs = st[2], st[3]
                if not (isinstance(rhs, list) and rhs[0] == 'v') or rhs[1] >= len(env) or env[rhs[1]]['t'] != 'F' or rhs[1] == i \
                        or i >= len(objs):
                    raise Unsupported()
                x, y = objs[i], objs[rhs[1]]
                if np_bcast(list(x._shape_), list(y._shape_)) != list(x._shape_):
                    raise Unsupported()
                rt, _ = go(rhs)
                xt, _ = go(['v', i])
                if st[1] == 'itruediv':
                    if not y._shape_ and y._derivs_ and not KF2_REPAIRED:
                        raise Unsupported()
                    rt = ['un', 'recip', rt]
                sts.append(['assign', i, ['bin', IOP[st[1]], xt, rt]])
                if st[1] in ('imul', 'itruediv'):
                    inexact.add(i)
                with warnings.catch_warnings():
                    warnings.simplefilter('ignore')
                    try:
                        O.INPLACE[st[1]](x, y)
                    except Exception:
                        pass
            else:
                raise Unsupported()
        return finish(['prog'] + sts)
    except Unsupported:
        return None


LET_OK = {'mulc', 'rmulc', 'divc', 'neg', 'abs', 'sin', 'cos', 'sqrt', 'copy', 'sign'}


def _ctx(env, variant, reserve=0):
    objs = [O.build(l, variant) for l in env]
    tables = {}
    tables2 = {}
    consts = []
    extra = []          # number operands, sent as shapeless unmasked objects after the leaves
    idx_ids, idxs, ams, bidxs = {}, [], [], []

    def leaf_ok(l):
        return (l['t'] == 'F' and not l.get('units') and set(l.get('derivs', {})) <= {'t'}
                and not any(d.get('units') for d in l.get('derivs', {}).values()))

    def tabulate(fns, q):
        vals = np.asarray(q._values_, dtype=float).ravel()
        for fn in fns:
            t = tables.setdefault(fn, {})
            with np.errstate(all='ignore'):
                for x in list(vals) + CONSTS + ([-0.0] if np.any(vals == 0) else []):
                    x = float(x)
                    if bits(x) not in t:
                        t[bits(x)] = bits(NPFN[fn](np.float64(x)))

    def constobj(c):
        b = bits(float(c))
        if b not in extra:
            extra.append(b)
        return len(env) + reserve + extra.index(b)

    def const(x):
        b = bits(float(x))
        if b not in consts:
            consts.append(b)
        return consts.index(b)

    def tab2(fn, A, B, python=False):
        t = tables2.setdefault(fn, {})
        A = np.asarray(A, dtype=float); B = np.asarray(B, dtype=float)
        try:
            A, B = np.broadcast_arrays(A, B)
        except ValueError:
            return
        with np.errstate(all='ignore'):
            pairs = []
            for a, b in zip(A.ravel(), B.ravel()):
                a, b = float(a), float(b)
                pairs.append((a, b))
                if a == 0 or b == 0:          # both signed zeros (the sign of a zero may differ underneath a mask)
                    pairs += [(sa * a if a == 0 else a, sb * b if b == 0 else b) for sa in (1., -1.) for sb in (1., -1.)]
            for a, b in pairs:
                key = (bits(a), bits(b))
                if key in t:
                    continue
                if fn == 'pow' and python:
                    try:
                        z = a ** b
                        z = float(z) if isinstance(z, float) else float('nan')
                    except Exception:
                        z = float('nan')
                else:
                    z = float({'fdiv': np.floor_divide, 'fmod': np.remainder, 'pow': np.power, 'atan2': np.arctan2}[fn](
                        np.float64(a), np.float64(b)))
                t[key] = bits(z)

    def index_slot(key):
        il = env[key]
        if key not in idx_ids:
            idx_ids[key] = len(idxs)
            data = il['vals'] if variant == 'A' else il['alt']
            idxs.append([il['shape'], [int(v) for v in data], mask_sx(il['mask'], il['shape'])])
        return idx_ids[key]

    def go(node):
        """returns (sx tree, real object or None if raised)"""
        if node[0] == 'v':
            if node[1] >= len(env):
                if node[1] >= len(objs):
                    raise Unsupported()
                return ['v', node[1]], objs[node[1]]
            l = env[node[1]]
            if not leaf_ok(l):
                raise Unsupported()
            return ['v', node[1]], objs[node[1]]
        name, params = node[0], node[1]
        if name in UN:
            t, x = go(node[2])
            if x is None:
                return ['un', UN[name], t], None
            if not isinstance(x, Scalar) or x._units_ is not None:
                raise Unsupported()
            if name in NO_DERIV_RULE and x._derivs_:
                raise Unsupported()
            if name in ('sqrt', 'log', 'exp_c', 'recip') and not x._shape_ and x._derivs_ and not KF2_REPAIRED:
                raise Unsupported()          # known finding KF-C03-2: shapeless mask_where(replace=) drops derivatives
            if name in TABLES:
                tabulate(TABLES[name], x)
            return ['un', UN[name], t], run(name, params, [x])
        if name in ('sign_o', 'frac', 'pow', 'clip', 'mask_where_eq_o') or name in MWK:
            t, x = go(node[2])
            if x is not None and (not isinstance(x, Scalar) or x._units_ is not None or not x.is_float()):
                raise Unsupported()
            if name == 'sign_o':
                if params[1]:
                    raise Unsupported()
                st = ['un', 'sign' if params[0] else 'signNz', t]
            elif name == 'frac':
                if x is not None:
                    tab2('fmod', x._values_, 1.)
                st = ['un', 'frac', t]
            elif name == 'pow':
                e = params[0]
                easy = {0: 'pow0', 2: 'pow2', 3: 'pow3', 4: 'pow4', -1: 'recip'}
                if x is not None and e in (-1, 0.5, -0.5) and not x._shape_ and x._derivs_ and not KF2_REPAIRED:
                    raise Unsupported()
                if isinstance(e, int) and not isinstance(e, bool) and e == 1:
                    st = t
                elif isinstance(e, int) and not isinstance(e, bool) and e in easy:
                    st = ['un', easy[e], t]
                elif isinstance(e, float) and e == 0.5:
                    st = ['un', 'sqrt', t]
                elif isinstance(e, float) and e == -0.5:
                    st = ['un', 'recip', ['un', 'sqrt', t]]
                else:
                    if x is not None:
                        py = not x._shape_
                        tab2('pow', x._values_, float(e), python=py)
                        tab2('pow', x._values_, float(e) - 1., python=py)
                    st = ['powG', const(e), const(float(e) - 1.), t]
            elif name == 'clip':
                lo, hi, rm = params
                st = ['clip', const(lo), const(hi), bool(rm), t]
            else:
                kind = MWK.get(name, 'eq')
                lim, repl, rm = params
                st = ['mw', kind, const(lim), '-' if repl is None else const(repl), bool(rm), t]
            return st, (None if x is None else run(name, params, [x]))
        if name in NUMOPS:
            t, x = go(node[2])
            if x is not None and (not isinstance(x, Scalar) or x._units_ is not None or not x.is_float()):
                raise Unsupported()
            c = params[0]
            if isinstance(c, bool) or not isinstance(c, (int, float)):
                raise Unsupported()
            if name == 'divc' and x is not None and x._derivs_:
                raise Unsupported()          # `deriv / c` (one rounding) is not `deriv * (1/c)` of the Scalar division
            if name == 'rdivc' and x is not None and not x._shape_ and x._derivs_ and not KF2_REPAIRED:
                raise Unsupported()
            ct = ['v', constobj(c)]
            st = {'mulc': ['bin', 'mul', t, ct], 'rmulc': ['bin', 'mul', t, ct], 'addc': ['bin', 'add', t, ct],
                  'subc': ['bin', 'sub', t, ct], 'rsubc': ['bin', 'sub', ct, t], 'divc': ['bin', 'div', t, ct],
                  'rdivc': ['bin', 'mul', ['un', 'recip', t], ct]}[name]
            return st, (None if x is None else run(name, params, [x]))
        if name in BIN2:
            t1, a = go(node[2])
            t2, b = go(node[3])
            if a is None or b is None:
                return ['bin', name, t1, t2], None
            for q in (a, b):
                if not isinstance(q, Scalar) or q._units_ is not None or not q.is_float():
                    raise Unsupported()
            if name in ('mod', 'floordiv'):
                if not b._shape_ and b._derivs_ and not KF2_REPAIRED:
                    raise Unsupported()
                fn = 'fmod' if name == 'mod' else 'fdiv'
                tab2(fn, a._values_, np.where(np.asarray(b._values_) == 0, 1., b._values_))
                tab2(fn, a._values_, 1.)
            else:
                if any(o in ('median', 'max', 'min', 'sort', 'red_o') for o in O.tree_ops(node)):
                    # the SIGN of a zero produced by np.median / np.max ties / np.sort is not modelled (it is invisible
                    # everywhere except through arctan2)
                    raise Unsupported()
                tab2('atan2', a._values_, b._values_)
            return ['bin', name, t1, t2], run(name, params, [a, b])
        if name in BIN:
            t1, a = go(node[2])
            t2, b = go(node[3])
            if a is None:
                return ['bin', name, t1, t2], None
            if b is None:
                return ['bin', name, t1, t2], None
            if name == 'stack' and bool(a._derivs_) != bool(b._derivs_):
                d = (a._derivs_ or b._derivs_)['t']
                if Qube.is_one_true(d._mask_):
                    # representation-dependent corner of Qube.stack (not a hidden-value matter): a derivative whose mask is
                    # the single value True stacked with a missing derivative masks the zero block too
                    raise Unsupported()
            if name == 'div' and not b._shape_ and b._derivs_ and not KF2_REPAIRED:
                raise Unsupported()          # known finding KF-C03-2 (divisor passes through mask_where_eq(0, 1))
            return ['bin', name, t1, t2], run(name, params, [a, b])
        if name in RED or name == 'sort':
            t, x = go(node[2])
            if x is None:
                return (['red', name, [], t] if name in RED else ['sort', 0, t]), None
            shape = list(x._shape_)
            if not shape or 0 in shape:
                raise Unsupported()
            ax = params[0]
            if name == 'sort':
                if not isinstance(ax, int) or not (-len(shape) <= ax < len(shape)):
                    raise Unsupported()
                return ['sort', ax % len(shape), t], run(name, params, [x])
            if ax is None:
                axes = list(range(len(shape)))
            else:
                axl = [ax] if isinstance(ax, int) else list(ax)
                if any(not (-len(shape) <= a < len(shape)) for a in axl):
                    raise Unsupported()
                axes = sorted({a % len(shape) for a in axl})
                if len(axes) != len(axl):
                    raise Unsupported()
            if name in ('argmax', 'argmin') and len(axes) not in (1, len(shape)):
                raise Unsupported()
            if name in ('argmax', 'argmin') and ax is not None and not isinstance(ax, int):
                raise Unsupported()
            if name in ('sum', 'mean', 'median') and int(np.prod(shape)) >= 8 and (
                    node[2][0] != 'v' or node[2][1] >= len(env) or node[2][1] in getattr(go, 'inexact', ())):
                raise Unsupported()          # NumPy's pairwise summation order is not modelled for inexact operands
            return ['red', name, axes, t], run(name, params, [x])
        if name == 'getitem' and params == ['i'] and node[3][0] == 'v' and node[3][1] < len(env) \
                and env[node[3][1]]['t'] == 'B' and len(env[node[3][1]]['shape']) == 1:
            # a (masked) Boolean array index over the first axis
            t, x = go(node[2])
            bl = env[node[3][1]]
            if x is not None and (not isinstance(x, Scalar) or not x._shape_ or x._shape_[0] != bl['shape'][0]):
                raise Unsupported()
            key = ('B', node[3][1])
            if key not in idx_ids:
                idx_ids[key] = len(bidxs)
                data = bl['vals'] if variant == 'A' else bl['alt']
                bidxs.append([bl['shape'], [bool(v) for v in data], mask_sx(bl['mask'], bl['shape'])])
            r = None if x is None else run(name, params, [x, objs[node[3][1]]])
            return ['indexB', t, idx_ids[key]], r
        if name == 'getitem':
            if params != ['i'] or node[3][0] != 'v' or node[3][1] >= len(env) or env[node[3][1]]['t'] != 'I':
                raise Unsupported()
            t, x = go(node[2])
            il = env[node[3][1]]
            if x is not None and (not x._shape_ or x._shape_[0] == 0):
                raise Unsupported()
            key = node[3][1]
            index_slot(key)
            r = None if x is None else run(name, params, [x, objs[key]])
            return ['index', t, idx_ids[key]], r
        if name == 'shrink_unshrink':
            t, x = go(node[2])
            if x is not None and list(x._shape_) != list(params[1]):
                raise Unsupported()
            if x is not None and not x._shape_:
                raise Unsupported()
            ams.append([params[1], [bool(b) for b in params[0]]])
            r = None if x is None else run(name, params, [x])
            return ['su', len(ams) - 1, t], r
        raise Unsupported()

    def run(name, params, args):
        with warnings.catch_warnings():
            warnings.simplefilter('ignore')
            try:
                r = O.apply_op(name, params, args)
            except Exception:
                return None
        if not isinstance(r, Qube):
            raise Unsupported()
        return r

    def finish(sx_tree):
        obj_sx = []
        for i, l in enumerate(env):
            if not leaf_ok(l):
                obj_sx.append([[], [bits(1.0)], True, '-'])       # placeholder, never referenced
                continue
            data = l['vals'] if variant == 'A' else l['alt']
            d = '-'
            if 't' in l.get('derivs', {}):
                dl = l['derivs']['t']
                dd = dl['vals'] if variant == 'A' else dl['alt']
                d = [[bits(v) for v in dd], mask_sx(dl['mask'], dl['shape'])]
            obj_sx.append([l['shape'], [bits(v) for v in data], mask_sx(l['mask'], l['shape']), d])
        for _ in range(reserve):
            obj_sx.append([[], [bits(1.0)], True, '-'])       # slots of the names bound by `let`
        for b in extra:
            obj_sx.append([[], [b], False, '-'])
        tb = [[fn] + [[x, y] for x, y in sorted(rows.items())] for fn, rows in sorted(tables.items())]
        tb2 = [[fn] + [[x, y, z] for (x, y), z in sorted(rows.items())] for fn, rows in sorted(tables2.items())]
        return ['c03', sx_tree, ['objs'] + obj_sx, ['idxs'] + idxs, ['ams'] + ams, ['tables'] + tb, ['tables2'] + tb2,
                ['consts'] + list(consts), ['bidxs'] + bidxs, bits(EXP_CUTOFF)]

    go.index_slot = index_slot
    return go, finish, objs


def _vars(tree):
    if tree[0] == 'v':
        return [tree[1]]
    res = []
    for ch in tree[2:]:
        res += _vars(ch)
    return res


def sxable(o):
    if o is None:
        return 'None'
    if isinstance(o, float):
        return repr(o)
    if isinstance(o, (list, tuple)):
        return [sxable(x) for x in o]
    return o


def canon(res, case):
    """what is compared with the model: the observation of the last evaluated node (the root, or the node that
    raised) reduced to shape, expanded mask, unmasked values and the derivative `t` where neither it nor the result is
    masked.  Without a request the full per-node observation list is returned (it is compared with nothing)."""
    if case.get('req') is None:
        return sxable(res)
    if 'prog' in case:
        return [canon1(o) for o in res]
    return canon1(res[-1])


def canon1(o):
    if isinstance(o, str):
        return o
    if o[0] == 'pybool':
        return [[], [False], [bits(1.0 if o[1] else 0.0)], '-']
    if o[0] in ('pyint', 'pyfloat'):
        return [[], [False], [o[1]], '-']
    cls, kind, shape, item, mask, units, shown, derivs = o
    d = '-'
    for k, dob in derivs:
        if k == 't':
            d = [dob[4], dob[6]]
    return [shape, mask, shown, d]
