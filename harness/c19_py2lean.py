"""C19 (T2) — translator: Python `ast` of every mutator of polymath -> event trees (PMV.Events.Prog) written to
lean/PMV/Gen/Events.lean on every run.

Events:  raise(cls) for `raise Cls(...)` and for calls of the Qube._raise_* helpers (classes read off the helper's
own body);  write(attr) for assignment / augmented assignment / del whose target is an attribute of `self`, an item
of such an attribute, or an attribute/item of a derivative taken from `self._derivs_` in a for loop, and for
setattr/delattr(self, ...);  call(name) for other calls made as statements or assigned from;  ret.
`self._cache_` is bookkeeping, not target state, and is not a write.
Control flow: if/else -> alt, for/while -> loop, try -> alt(body+else, body-without-stops ; handlers), with -> body.
"""
import ast, os, sys

def repo_root():
    r = os.environ.get('PMV_REPO')
    if r:
        return r
    import polymath
    return os.path.dirname(os.path.dirname(os.path.abspath(polymath.__file__)))

TARGETS = [
    ('polymath/qube.py', 'Qube', ['__iadd__', '__isub__', '__imul__', '__itruediv__', '__ifloordiv__', '__imod__',
                                  '__iand__', '__ior__', '__ixor__', 'insert_deriv', '_require_compatible_deriv',
                                  'insert_derivs', 'delete_deriv', 'delete_derivs', 'set_units', 'require_writable',
                                  '_require_broadcast_into', '_require_units_allowed', '_merge_mask_']),
    ('polymath/extensions/indexer.py', None, ['__setitem__', '_require_assignable', '_prep_index']),
    ('polymath/boolean.py', 'Boolean', ['__iadd__', '__isub__', '__imul__', '__itruediv__', '__ifloordiv__', '__imod__']),
    ('polymath/matrix.py', 'Matrix', ['__ifloordiv__', '__imod__']),
    ('polymath/matrix3.py', 'Matrix3', ['__imul__']),
]
NOT_POLYMATH = {'np', 'numbers', 'warnings', 'sys', 'math'}
BUILTINS = {'isinstance', 'len', 'tuple', 'list', 'set', 'dict', 'range', 'type', 'str', 'bool', 'int', 'float',
            'enumerate', 'zip', 'any', 'all', 'max', 'min', 'sorted', 'repr', 'hasattr', 'getattr', 'slice', 'abs',
            'IndexError', 'ValueError', 'TypeError', 'setattr', 'delattr', 'reversed', 'sum', 'id', 'iter', 'next'}
import numpy as _np
AMBIGUOUS = set(dir(_np.ndarray)) | set(dir(dict)) | set(dir(list)) | set(dir(set))
OPTIONAL = {'_require_compatible_deriv', '_require_broadcast_into', '_require_assignable', '_require_units_allowed',
            '_merge_mask_'}   # introduced by fix: commits


def find_funcs(tree, cls):
    body = tree.body
    if cls is not None:
        for n in tree.body:
            if isinstance(n, ast.ClassDef) and n.name == cls:
                body = n.body
                break
        else:
            return {}
    return {n.name: n for n in body if isinstance(n, ast.FunctionDef)}


def helper_classes(qube_funcs):
    """exception classes raised by each Qube._raise_* helper"""
    res = {}
    for name, fn in qube_funcs.items():
        if name.startswith('_raise_'):
            cl = []
            for n in ast.walk(fn):
                if isinstance(n, ast.Raise) and n.exc is not None:
                    c = exc_name(n.exc)
                    if c not in cl:
                        cl.append(c)
            res[name] = cl or ['Unknown']
    return res


def exc_name(e):
    if isinstance(e, ast.Call):
        e = e.func
    if isinstance(e, ast.Name):
        return e.id
    if isinstance(e, ast.Attribute):
        return e.attr
    return 'Unknown'


class Tr:
    def __init__(self, helpers):
        self.helpers = helpers
        self.aliases = set()

    # ---- trees as nested tuples
    def seq(self, items):
        items = [i for i in items if i != ('skip',)]
        if not items:
            return ('skip',)
        r = items[-1]
        for i in reversed(items[:-1]):
            r = ('seq', i, r)
        return r

    def alt(self, items):
        r = items[-1]
        for i in reversed(items[:-1]):
            r = ('alt', i, r)
        return r

    def nostop(self, p):
        if p[0] == 'atom':
            return ('skip',) if p[1][0] in ('raise', 'ret') else p
        if p[0] in ('seq', 'alt'):
            return (p[0], self.nostop(p[1]), self.nostop(p[2]))
        if p[0] == 'loop':
            return ('loop', self.nostop(p[1]))
        return p

    # ---- targets
    def self_attr(self, t):
        """name of the self attribute written through target t, or None"""
        while isinstance(t, ast.Subscript):
            t = t.value
        if isinstance(t, ast.Attribute):
            base = t.value
            if isinstance(base, ast.Name) and base.id == 'self':
                return t.attr
            if isinstance(base, ast.Name) and base.id in self.aliases:
                return '_derivs_.' + t.attr
            # self.__dict__[...] / self._derivs_[key]
            inner = self.self_attr(base) if isinstance(base, (ast.Attribute, ast.Subscript)) else None
            return inner
        if isinstance(t, ast.Name) and t.id in self.aliases:
            return '_derivs_[]'
        return None

    def target_events(self, targets, subscripted_alias_ok=True):
        ev = []
        for t in targets:
            if isinstance(t, (ast.Tuple, ast.List)):
                ev += self.target_events(t.elts)
                continue
            a = None
            if isinstance(t, ast.Subscript) or isinstance(t, ast.Attribute):
                a = self.self_attr(t)
            if a is not None and not a.startswith('_cache_'):
                ev.append(('atom', ('write', a)))
        return ev

    def call_events(self, node):
        """events of the calls contained in an expression (outermost first is irrelevant: order of evaluation kept)"""
        ev = []
        if node is None:
            return ev
        for n in ast.walk(node):
            if isinstance(n, ast.Call):
                f = n.func
                name = f.attr if isinstance(f, ast.Attribute) else (f.id if isinstance(f, ast.Name) else '?')
                if name.startswith('_raise_') or name == 'raise_unsupported_op':
                    cl = self.helpers.get(name, ['AttributeError'])     # a misspelled helper raises AttributeError
                    ev.append(self.alt([('atom', ('raise', c)) for c in cl]))
                elif name in ('setattr', 'delattr') and n.args and isinstance(n.args[0], ast.Name) and n.args[0].id == 'self':
                    ev.append(('atom', ('write', '__dict__')))
                elif isinstance(f, ast.Attribute) and isinstance(f.value, ast.Attribute) and f.value.attr == '_cache_':
                    continue
                elif isinstance(f, ast.Attribute):
                    root = f.value
                    while isinstance(root, (ast.Attribute, ast.Subscript, ast.Call)):
                        root = root.func if isinstance(root, ast.Call) else root.value
                    if isinstance(root, ast.Name) and root.id in NOT_POLYMATH:
                        continue                      # NumPy / stdlib: part of the kernel contract, not of polymath
                    polymath_receiver = isinstance(root, ast.Name) and (root.id in ('self', 'Qube', 'Units')
                                                                        or root.id in self.aliases)
                    if not polymath_receiver and name in AMBIGUOUS:
                        continue                      # a method ndarray / dict / list also have, on a local variable
                    ev.append(('atom', ('call', name)))
                elif isinstance(f, ast.Name) and name not in BUILTINS:
                    ev.append(('atom', ('call', name)))
        return ev

    def stmts(self, body, handler_classes=None):
        return self.seq([self.stmt(s, handler_classes) for s in body])

    def stmt(self, s, hc=None):
        if isinstance(s, ast.Raise):
            if s.exc is None:
                return self.alt([('atom', ('raise', c)) for c in (hc or ['Unknown'])])
            return self.seq(self.call_events(s.exc.args[0] if isinstance(s.exc, ast.Call) and False else None)
                            + [('atom', ('raise', exc_name(s.exc)))])
        if isinstance(s, ast.Return):
            return self.seq(self.call_events(s.value) + [('atom', ('ret',))])
        if isinstance(s, ast.Expr):
            return self.seq(self.call_events(s.value))
        if isinstance(s, ast.Assign):
            return self.seq(self.call_events(s.value) + self.target_events(s.targets))
        if isinstance(s, ast.AugAssign):
            return self.seq(self.call_events(s.value) + self.target_events([s.target]))
        if isinstance(s, ast.Delete):
            return self.seq(self.target_events(s.targets))
        if isinstance(s, ast.If):
            return self.seq(self.call_events(s.test) + [self.alt([self.stmts(s.body, hc), self.stmts(s.orelse, hc)])])
        if isinstance(s, (ast.For, ast.While)):
            if isinstance(s, ast.For):
                it = ast.unparse(s.iter)
                if 'self._derivs_' in it and ('items' in it or 'values' in it):
                    names = [n.id for n in ast.walk(s.target) if isinstance(n, ast.Name)]
                    if names:
                        self.aliases.add(names[-1])
            pre = self.call_events(s.iter if isinstance(s, ast.For) else s.test)
            return self.seq(pre + [('loop', self.stmts(s.body, hc)), self.stmts(s.orelse, hc)])
        if isinstance(s, ast.Try):
            body = self.stmts(s.body, hc)
            normal = self.seq([body, self.stmts(s.orelse, hc)])
            hs = []
            for h in s.handlers:
                if h.type is None:
                    cl = ['Unknown']
                elif isinstance(h.type, ast.Tuple):
                    cl = [exc_name(e) for e in h.type.elts]
                else:
                    cl = [exc_name(h.type)]
                hs.append(self.stmts(h.body, cl))
            r = self.alt([normal, self.seq([self.nostop(body), self.alt(hs)])]) if hs else normal
            return self.seq([r, self.stmts(s.finalbody, hc)])
        if isinstance(s, ast.With):
            return self.stmts(s.body, hc)
        return ('skip',)


def lean(p, ind=2):
    if p[0] == 'skip':
        return '.skip'
    if p[0] == 'atom':
        e = p[1]
        if e[0] == 'ret':
            return '(.atom .ret)'
        return '(.atom (.%s "%s"))' % (e[0], e[1])
    if p[0] == 'loop':
        return '(.loop %s)' % lean(p[1], ind)
    return '(.%s %s\n%s%s)' % (p[0], lean(p[1], ind + 1), ' ' * ind, lean(p[2], ind + 1))


def build():
    root = repo_root()
    qtree = ast.parse(open(os.path.join(root, 'polymath/qube.py')).read())
    helpers = helper_classes(find_funcs(qtree, 'Qube'))
    defs, missing = [], []
    for path, cls, names in TARGETS:
        tree = ast.parse(open(os.path.join(root, path)).read())
        funcs = find_funcs(tree, cls)
        for name in names:
            if name not in funcs:
                if name not in OPTIONAL:
                    missing.append('%s.%s' % (cls or path, name))
                continue
            tr = Tr(helpers)
            prog = tr.stmts(funcs[name].body)
            label = '%s.%s' % (cls or 'indexer', name)
            defs.append((label, prog))
    return defs, missing, helpers


def regen():
    defs, missing, helpers = build()
    out = ['import PMV.Model.EventTree',
           '/- GENERATED by harness/c19_py2lean.py from the working tree of the repository on every run. Do not edit. -/',
           'namespace PMV.Gen.Events', 'open PMV.Events', '']
    names = []
    for label, prog in defs:
        ident = 'p_' + label.split('.')[0] + '_' + label.split('.')[1].strip('_')
        names.append((label, ident))
        out.append('def %s : Prog :=\n  %s\n' % (ident, lean(prog)))
    out.append('def table : List (String × Prog) := [\n  ' + ',\n  '.join('("%s", %s)' % n for n in names) + ']\n')
    out.append('/-- functions the translator expected and did not find (a renamed mutator breaks the tie) -/')
    out.append('def missing : List String := [' + ', '.join('"%s"' % m for m in missing) + ']\n')
    out.append('end PMV.Gen.Events\n')
    text = '\n'.join(out)
    path = os.path.join(os.path.dirname(os.path.dirname(os.path.abspath(__file__))), 'lean', 'PMV', 'Gen', 'Events.lean')
    os.makedirs(os.path.dirname(path), exist_ok=True)
    if not os.path.exists(path) or open(path).read() != text:
        open(path, 'w').write(text)
    return {'obligations': 3 * len(defs) + 2, 'functions': [l for l, _ in defs], 'missing': missing,
            'raise_helpers': helpers}


if __name__ == '__main__':
    print(regen())
