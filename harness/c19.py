"""C19 — rejected operations fail cleanly: documented exception class, target left untouched."""
import os, sys
import numpy as np
from absn import *
import common as C
import c19_gen as G
import c19_run as R
import c19_kw as KW

PROP = 'C19'
LEAN_MODULES = ['PMV.Props.C19']
PARALLEL = True
MANIFEST = {
    'text': 'Kernel-checked theorems (PMV/Props/C19.lean) about a code-shaped Lean model of every mutator of polymath '
            '(in-place operators, item assignment, insert_deriv(s), delete_deriv(s), set_units) written as a validation '
            'chain in source order followed by write primitives that re-check their own preconditions: a rejected call '
            'returns the state it started from and one of TypeError/ValueError/IndexError (reject_clean, full), an '
            'accepted call meets the precondition of every write so nothing can fail after the first write '
            '(accept_no_late_failure, full, by induction over the inserted derivatives), every fault class of the '
            'property is rejected on every mutator it applies to (fault_detected, singly and in pairs), index errors of '
            'item assignment surface as IndexError. A translator (harness/c19_py2lean.py) regenerates the event '
            'structure (raise / write / call / return) of every mutator from the source with ast on every run; '
            'no-raise-after-write, only-commit-helpers-after-write and raised-classes-allowed are re-proved on it by '
            'decide through a checker proved sound for all control-flow paths. The model is tied to /repo on every '
            'run by a correspondence check: the same (target, operand, fault) descriptors drive the real code (deep '
            'before/after snapshots) and the compiled model, and the observations (exception family, clean/dirty, '
            'resulting derivative keys and kind) are diffed. A sweep calls every public method, static constructor '
            'and class method that has optional parameters with every documented option value.',
    'design': 'DESIGN.md §3 C19, DESIGN.d/C19.md',
    'technique': 'Lean 4 proof (validate-then-commit refinement, induction over derivative lists and control-flow '
                 'trees) + regenerated event tables + model/code correspondence',
    'note': 'Trusted: Lean kernel; hand-written model Model/Faults.lean and translator c19_py2lean.py (both re-checked '
            'against the code on every run); NumPy validates an in-place ufunc / item assignment before it writes '
            '(kernel contract).',
}
RULE = ('for every mutator: targets of all 8 classes x admitted kinds x shapes x with/without denominators x derivative sets '
        '(none, one, two with different denominators, one read-only) (stratified sample per mutator, 7x larger in '
        'thorough; shapeless Python-scalar-valued objects and read-only derivatives always present), valid operands '
        'that must be accepted (Qubes of every shape that broadcasts in, numbers, arrays), then every applicable fault '
        'class injected singly and in pairs (shape, units, numer, denom, kind, type, deriv, ro, index incl. six index '
        'forms that fail inside _prep_index with ValueError); plus the option sweep over every public method / static '
        'constructor / classmethod with optional parameters (each value of each option, products of the seven '
        'headline options). non-trivial = at least one fault injected or derivatives present; distinct = distinct '
        'request line (model cases) or case id (sweep)')
ASSUMPTIONS = [
    'NumPy checks casting and broadcasting of `a op= b` and of `a[i] = b` before writing anything (kernel contract, '
    'modelled as kernelCheck and exercised by the correspondence run)',
    'contents are abstracted to version counters: the theorems speak about WHETHER a write happened, the harness '
    'compares the bytes',
    'a float operand for a shapeless integer object whose value is a Python int (Scalar(1) += 1.5) is carried out by '
    'Python (the object becomes float); the property only speaks of operations that cannot be carried out, so this is '
    'modelled as accepted and excluded from fault_detected by hypothesis',
    'item assignment does not compare units (as_this_type ignores them); &=,|=,^= accept any non-Qube operand through '
    '`arg != 0`; both are modelled as the code behaves and not judged by the oracle',
    'index preparation itself (which indices are valid) belongs to C09/C10: the model receives "fails / nothing '
    'selected / selection shape"',
]
TRUSTED_EXTRA = ['translator harness/c19_py2lean.py (Python ast -> event trees) and its notion of "write to self"',
                 'NumPy validate-before-write contract of in-place ufuncs and item assignment']

UNIT_DIM = {None: '-', 'km': 1, 'm': 1, 's': 2, 'rad': 3, 'deg': 3, 'km/s': 4}
MODELLED = set(G.ARITH) | set(G.LOGIC) | {'setitem', 'insert_deriv', 'insert_derivs', 'delete_deriv', 'delete_derivs',
                                          'set_units'}


# --------------------------------------------------------------------------- requests for the model
def obj_sx(o):
    ds = [[k, list(d.get('denom', [])), bool(d.get('ro', False))] for k, d in sorted(o.get('derivs', {}).items())]
    return [o['cls'], o['kind'], list(o['shape']), list(o.get('numer', [])), list(o.get('denom', [])),
            UNIT_DIM[o.get('units')], bool(o.get('ro', False)), ds]


def arg_sx(a):
    if a is None:
        return None
    t = a['t']
    if t == 'q':
        return ['q', obj_sx(a)]
    if t == 'num':
        return ['num', a['kind'], bool(a.get('zero', False))]
    if t == 'nd':
        return ['nd', a['kind'], list(a['shape'])]
    if t == 'bad':
        return ['bad']
    raise KeyError(t)


def int_out_of_range(index, shape):
    """an integer entry of the index lies outside its axis: polymath then masks the whole selection and the
    assignment silently does nothing (the operand is not even looked at)"""
    front, back, after = 0, len(shape) - 1, False
    tail = []
    for e in index:
        if e == 'e':
            after = True
            continue
        if after:
            tail.append(e)
            continue
        if isinstance(e, int) and not isinstance(e, bool):
            if front >= len(shape) or not (-shape[front] <= e < shape[front]):
                return True
        front += 1
    for e in reversed(tail):
        if isinstance(e, int) and not isinstance(e, bool):
            if back < 0 or not (-shape[back] <= e < shape[back]):
                return True
        back -= 1
    return False


def idx_sx(case):
    if 'index' in case['faults']:
        return ['fails']
    if int_out_of_range(case['index'], case['target']['shape']):
        return ['nothing']
    sel = dict((str(i), s) for i, s in G.indices_for(case['target']['shape'])).get(str(case['index']))
    if sel is None:
        return None
    return ['sel', list(sel)]


def reinterpreted_by_as_matrix3(case):
    """Matrix3 *= / /= <Qube that is not a matrix>: Matrix3.as_matrix3 re-reads the operand's raw value array as 3x3
    matrices (and converts Quaternions), so "shape" and "numerator" of the operand are not what the descriptor says;
    this conversion is a constructor matter, neither modelled nor judged"""
    a = case.get('arg')
    return (case['mut'] in ('imul', 'itruediv') and case['target']['cls'] == 'Matrix3' and a is not None
            and a.get('t') == 'q' and a['cls'] not in ('Matrix', 'Matrix3'))


def request(case):
    mut, t, a = case['mut'], case['target'], case.get('arg')
    if mut not in MODELLED:
        return None
    ov = case.get('override')
    if ov is None:
        ov = (mut == 'insert_deriv')          # the default of override= is True for insert_deriv, False elsewhere
    if mut in G.ARITH or mut in G.LOGIC:
        if reinterpreted_by_as_matrix3(case):
            return None
        if a['t'] in ('num', 'nd') and mut in ('iadd', 'isub') and (G.CLS[t['cls']][0] != 0 or t['denom']):
            return None            # as_this_type of a bare number/array for item-shaped targets: not modelled
        return ['c19', mut, obj_sx(t), arg_sx(a)]
    if mut == 'setitem':
        ix = idx_sx(case)
        if ix is None or a['t'] in ('num', 'nd'):
            return None
        if 'shape' in case['faults'] and any(isinstance(e, list) and e[0] == 'b' for e in case['index']):
            return None            # NumPy's boolean-mask assignment reports a value of rank >= 2 as TypeError: kernel detail

        return ['c19', 'setitem', obj_sx(t), ix, arg_sx(a)]
    if mut == 'insert_deriv':
        return ['c19', 'insert_deriv', obj_sx(t), case['key'], arg_sx(a), ov]
    if mut == 'insert_derivs':
        return ['c19', 'insert_derivs', obj_sx(t), [[k, arg_sx(d if d.get('t') else dict(d, t='q'))] for k, d in a['items']], ov]
    if mut == 'delete_deriv':
        return ['c19', 'delete_deriv', obj_sx(t), case['key'], ov]
    if mut == 'delete_derivs':
        return ['c19', 'delete_derivs', obj_sx(t), list(case.get('preserve') or []), ov]
    if mut == 'set_units':
        if a['t'] == 'bad':
            u = 'none' if a['what'] == 'none' else 'bad'
        else:
            u = 'none' if a['units'] is None else UNIT_DIM[a['units']]
        return ['c19', 'set_units', obj_sx(t), u, ov]
    return None


# --------------------------------------------------------------------------- real code
KINDS = {'f': 'float', 'i': 'int', 'u': 'int', 'b': 'bool'}


def impl(case):
    if case['mut'] == 'kw':
        return KW.impl(case)
    r = R.run_case(case)
    if r['exc'] is not None:
        e = r['exc'] if not r['exc'].startswith(('Other', 'Warn')) else r['exc'].replace(':', '_')
        if e in ('TypeError', 'ValueError'):
            e = 'TypeError|ValueError'      # the order of two independent validations is not part of the property
        return [e, 'clean' if (r['clean'] or r['only_units_name']) else 'dirty']
    t = r['target']
    return ['ok', KINDS[np.asarray(t._values_).dtype.kind], sorted(str(k) for k in t._derivs_.keys())]


# --------------------------------------------------------------------------- direct oracle (independent of the model)
def must_reject_badkey(case):
    # a key that is not a string cannot become the attribute d_d<key>: inserting under it cannot be carried out
    # (delete_deriv of an absent key is a documented no-op)
    if case['meth'] == 'delete_deriv':
        return []
    if case['meth'] == 'rename_deriv' and 't' not in case['target'].get('derivs', {}):
        return []                      # nothing to rename: the object itself is returned
    return ['type']


def must_reject(case):
    """fault classes of this case for which the property unarguably demands a rejection"""
    mut, fl, a = case['mut'], case['faults'], case.get('arg')
    if mut == 'setitem' and 'index' not in fl and idx_sx(case) == ['nothing']:
        return ['ro'] if 'ro' in fl else []         # nothing is selected: the operand is never looked at
    if reinterpreted_by_as_matrix3(case):
        return ['ro'] if 'ro' in fl else []
    res = []
    typed = 'type' in fl
    for f in fl:
        if f == 'ro':
            if mut in ('insert_deriv', 'insert_derivs', 'ipow') or case.get('override'):
                continue
            if mut == 'setitem' and 'index' not in fl and idx_sx(case) is None:
                continue
            res.append(f)
        elif f == 'type':
            if mut in G.LOGIC or mut == 'ipow':
                continue               # `arg != 0` / falls back to __pow__: Python carries these out
            if mut == 'set_units' and a.get('what') == 'none':
                continue               # None is the documented way to remove units
            res.append(f)
        elif f in ('shape', 'numer', 'denom', 'deriv') and not typed:
            if mut == 'ipow':
                continue
            res.append(f)
        elif f == 'units' and not typed and (mut in ('iadd', 'isub', 'set_units')
                                               or (mut in G.ARITH and not G.CLS[case['target']['cls']][3])):
            res.append(f)          # incompatible units where units are compared; any units for a class without units
        elif f == 'kind' and not typed and mut in ('iadd', 'isub', 'imul', 'itruediv') and a.get('t') == 'q':
            res.append(f)          # a float QUBE operand for an integer target (a bare Python float on a Python-int
                                   # value is carried out by Python and is not judged)
        elif f == 'index':
            res.append(f)
    return res


def oracle(case):
    if case['mut'] == 'kw':
        return KW.oracle(case)
    r = R.run_case(case)
    mut, fl = case['mut'], '+'.join(case['faults']) or 'valid'
    cls = case['target']['cls']
    if mut == 'badkey':
        mut = 'badkey.%s.%s' % (case['meth'], case['keykind'])
        cls = cls + ('.' + case['const'] if case.get('const') else '')
    if r['exc'] is not None:
        if r['exc'].startswith(('Other', 'Warn')):
            return ('exc:%s:%s:%s:%s' % (mut, r['etype'], fl, cls),
                    '%s on %s rejected with %s (%s): not TypeError/ValueError/IndexError' % (mut, cls, r['etype'], r['msg']))
        if not r['clean'] and r['only_units_name']:
            return ('unitsname:%s:%s' % (mut, cls), '%s on %s raised %s and the NAME of the target\'s (shared) Units object '
                    'was cleared' % (mut, cls, r['etype']))
        if not r['clean']:
            return ('dirty:%s:%s:%s' % (mut, fl, cls),
                    '%s on %s raised %s (%s) but the target was modified' % (mut, cls, r['etype'], r['msg']))
        if not r['arg_clean']:
            return ('argdirty:%s:%s:%s' % (mut, fl, case['arg'].get('cls', case['arg']['t'])),
                    '%s on %s raised %s (%s) but the operand was modified' % (mut, cls, r['etype'], r['msg']))
        if case['faults'] == ['index'] and r['exc'] != 'IndexError':
            return ('index-exc:%s:%s' % (r['etype'], cls), 'an invalid index raised %s, not IndexError' % r['etype'])
        return None
    if case['mut'] == 'badkey':
        need = must_reject_badkey(case)
    else:
        need = must_reject(case) if mut not in G.NONMUT else []     # non-mutating: exception family and operands only
    if need:
        wf = R.wellformed(r['target'])
        return ('accepted:%s:%s:%s%s' % (mut, '+'.join(need), cls, ':malformed' if wf else ''),
                '%s on %s accepted an operand with fault(s) %s%s' % (mut, cls, need, '; target now malformed: ' + wf if wf else ''))
    return None


# --------------------------------------------------------------------------- generation
def mk(case):
    case['req'] = request(case) if case['mut'] != 'kw' else None
    case['kind'] = case['mut'] + ':' + ('+'.join(case['faults']) or 'valid') if case['mut'] != 'kw' else 'kw:' + case['name'].split(':')[0]
    if case['mut'] == 'badkey':
        case['kind'] = 'badkey:' + case['meth']
        case['id'] = 'badkey:%s:%s:%s:%s:%s' % (case['meth'], case['keykind'], case['target']['cls'],
                                                 case['target']['shape'], case.get('const') or case['target']['ro'])
    case['nontrivial'] = bool(case.get('faults')) or bool(case.get('target', {}).get('derivs')) or case['mut'] == 'kw'
    if case['mut'] == 'kw':
        case['id'] = case['name']
    return case


def gen_cases(rng, tier):
    cases = [mk(c) for c in G.gen(rng, tier)]
    cases += [mk(c) for c in KW.gen(rng, tier)]
    return cases


def neighbours(case):
    """nearby cases for the failing-input search: the same call on other classes / with fewer faults"""
    if case['mut'] == 'kw':
        return
    import copy, random
    rng = random.Random(12345)
    for f in G.applicable(case['mut']):
        if f in case['faults']:
            continue
        c = G.inject(case, f, rng)
        if c is not None:
            c['faults'] = list(case['faults']) + [f]
            yield mk(c)
    for cls in G.CLS:                       # the same call on the other target classes
        if cls != case['target']['cls'] and case.get('arg') and case['arg'].get('cls') == case['target']['cls']:
            c = copy.deepcopy(case)
            nm = G.numers(cls)[0]
            c['target'].update(cls=cls, numer=nm, kind=G.CLS[cls][2][0], units=None, derivs={} if not G.CLS[cls][4] else c['target']['derivs'])
            c['arg'].update(cls=cls, numer=nm, kind=G.CLS[cls][2][0], units=None, derivs={} if not G.CLS[cls][4] else c['arg'].get('derivs', {}))
            if cls in ('Boolean', 'Matrix3', 'Quaternion'):
                c['target']['denom'] = []; c['arg']['denom'] = []
            yield mk(c)


def regen():
    import c19_py2lean
    return c19_py2lean.regen()
