"""C06 — derivatives carried through any computation equal the true derivative."""
import copy, os, warnings
import numpy as np
import common as C
import c06_ops as O
from c06_ops import OPS, ITEM, Bad

PROP = 'C06'
LEAN_MODULES = ['PMV.Props.C06', 'PMV.Lemmas.DualRep2', 'PMV.Lemmas.DualProg', 'PMV.Lemmas.DualElem']
PARALLEL = True
MANIFEST = {
    'text': 'Kernel-checked soundness theorem against Mathlib\'s HasDerivAt (PMV/Props/C06.lean, der_sound): for every '
            'expression tree of any depth over polymath\'s scalar derivative clauses (written as in the source: '
            '_add/_sub/_mul/_div_derivs with the key-set merges, powers, trig/inverse trig, exp/log/sqrt, arctan2 off '
            'its branch cut), wherever the element and its derivative are left unmasked the attached derivative is the '
            'derivative; and ONE composition theorem (progw_rep / progw_sound, PMV/Lemmas/DualProg.lean) for every '
            'well-typed item program over the whole catalogue (Scalars, 2-/3-vectors, quaternions, 2x2/3x3 matrices, '
            'rotations, incl. to_matrix3, twovec, sep, inverse -M^-1 dM M^-1), whose `run` is the function the driver '
            'executes. The model is tied to /repo on every run: random trees (depth <= 4) over the differentiable '
            'API are evaluated by the real code and by the compiled Float instance of the same definitions and compared '
            'within 1e-9; independently, every tree is checked against Richardson-extrapolated central finite '
            'differences of the real code.',
    'design': 'DESIGN.md §3 C06, DESIGN.d/C06.md',
    'technique': 'Lean 4 proof (induction over expression trees, Mathlib real analysis) + model/code correspondence + '
                 'finite-difference oracle',
    'note': 'Trusted: Lean kernel, Mathlib; libm/LAPACK/IEEE rounding are not modelled (theorems are over the reals, the '
            'Float instance is what the tie runs). Array structure (broadcast, sum/mean over array axes, indexing, '
            'reshape, stack) is expanded by the harness with NumPy object arrays, not modelled in Lean.',
}
RULE = ('random expression trees, depth 1..4, over the catalogue in c06_ops.py (arithmetic, powers, trig/exp/log/sqrt, '
        'arctan2, dot/norm/cross/outer/unit/perp/proj/sep, element_mul/div, matrix product/inverse/transpose, axis '
        'rotations, twovec, quaternion products/conversions, sum/mean, indexing, reshaping, stack/from_scalars); leaf '
        'shapes (), (2,), (3,), (2,3) and broadcastable reductions; 1-2 derivative keys with denominators (), (2,), (3,); '
        'each leaf carries each key with probability 0.6 (all subsets for trees with <= 3 leaves in the subset stream); '
        'points are rejected unless every intermediate value is >= 0.1-0.3 away from the singular set of its operation; '
        'a stream of operands that carry a denominator (2,)/(3,) THEMSELVES through the operations admitting one; '
        'a stream of reused operands with warm caches and Python-number fast paths; '
        'a separate stream places operands on/inside the masked domain (tie only); a stream checks recursive=False / '
        'wod / without_derivs; a case is non-trivial when at least one leaf carries a key; distinct = distinct request '
        'line or tree')
ASSUMPTIONS = [
    'smooth points: the generator rejects points within 0.1-0.3 of a singularity (division by 0, radicand 0, |x|=1, '
    'branch cut of arctan2, abs at 0, parallel vectors for sep/twovec); the theorems carry the exact condition E.ok',
    'floating-point rounding is not modelled: the tie compares within 1e-9 * max(1, peak magnitude of the evaluation)',
    'np.linalg.inv is modelled by the cofactor inverse (LAPACK contract: inverse up to rounding)',
    'E.ok is a single flag for value and derivative; it implies but is not equal to polymath\'s unmasked condition at '
    'abs(0), on the arctan2 branch cut and for keyless constants on a singular boundary (excluded by the generator)',
]
TRUSTED_EXTRA = ['Mathlib v4.33 real analysis (HasDerivAt, Real.arctan, Real.arcsin, Real.rpow, ...)',
                 'definition atan2R of the four-quadrant arctangent in Lemmas/DualReal.lean (readable, 5 lines)',
                 'NumPy structural operations on object arrays (broadcast, reshape, index, stack) used to expand array '
                 'programs into per-element programs']

KEYSETS = [{'t': []}, {'t': []}, {'p': [2]}, {'q': [3]}, {'t': [], 'p': [2]}, {'t': [], 'q': [3]},
           # several keys with EQUAL denominators (buffers shared between keys would show)
           {'t': [], 'u': []}, {'p': [2], 'r': [2]}, {'t': [], 'u': [], 'q': [3]}]
H = 2.0 ** -9


# ------------------------------------------------------------------ generation
PROD = {}
for name, spec in OPS.items():
    for (ats, rt) in spec['sigs']:
        PROD.setdefault(rt, []).append((name, ats))

WEIGHT = {'unrotate': 3, 'mdot': 3, 'mmdot': 2, 'unrotate_m': 1, 'from_ra_dec_length': 2, 'from_cylindrical': 2, 'from_ra_dec': 1, 'from_cylindrical2': 1, 'add': 2, 'sub': 2, 'smul': 3, 'sdiv': 3, 'dot': 3, 'norm': 2, 'cross': 3, 'atan2': 3, 'matmul': 3, 'matvec': 3,
          'inverse': 3, 'rot': 3, 'rotate': 3, 'qmul': 3, 'unit': 2, 'perp': 2, 'proj': 2, 'sep': 2, 'outer': 2, 'ediv': 2,
          'emul': 2, 'twovec': 2, 'to_matrix3': 2, 'from_scalars3': 2, 'from_scalars2': 1, 'powg': 2, 'powi': 2}


def rparams(name, ats, rng):
    p = {}
    if name in ('smul', 'nscale', 'nadd'):
        p['side'] = rng.choice(['r', 'l'])
    if name in ('nscale', 'ndiv', 'nadd', 'nsub', 'rsub', 'rdiv'):
        p['c'] = rng.choice([2.0, -1.5, 0.5, 3.0, -0.25, 1.75])
    if name == 'powi':
        p['n'] = rng.choice([5, -2, -3, 6])
    if name == 'powg':
        p['e'] = rng.choice([0.7, 1.5, -1.3, 2.5, 3.0, 2.0])
    if name == 'abs':
        p['form'] = rng.choice(['op', 'method'])
    if name == 'to_scalar':
        p['i'] = rng.randrange(O.VN[ats[0]])
    if name in ('m_to_scalar', 'r_to_scalar'):
        n = O.MN[ats[0]]
        p['i'] = rng.randrange(n); p['j'] = rng.randrange(n)
    if name == 'row_vector':
        p['i'] = rng.randrange(O.MN[ats[0]])
    if name == 'rot':
        p['axis'] = rng.randrange(3); p['form'] = rng.choice(['xyz', 'axis'])
    if name == 'rotate':
        p['form'] = rng.choice(['rotate', 'mul'])
    if name == 'rT':
        p['form'] = rng.choice(['T', 'recip'])
    if name == 'transpose':
        p['form'] = rng.choice(['T', 'transpose'])
    if name == 'inverse':
        p['form'] = rng.choice(['inverse', 'recip'])
    if name == 'mdot':
        p['a1'] = rng.choice([0, 1, -1, -2]); p['a2'] = rng.choice([0, -1])
    if name == 'mmdot':
        p['a1'] = rng.choice([0, 1, -1, -2]); p['a2'] = rng.choice([0, 1, -1, -2])
    if name == 'from_ra_dec':
        p['len'] = rng.choice(['none', 'one', 'num'])
        p['c'] = rng.choice([1.0, 2.0, 0.5, -1.5])
    if name in ('to_ra_dec_length', 'to_cylindrical'):
        p['i'] = rng.randrange(3)
    if name == 'twovec':
        p['a1'] = rng.randrange(3); p['a2'] = (p['a1'] + rng.choice([1, 2])) % 3
    return p


WARM = ['wod', 'antimask', 'mul2', 'self_mul', 'func', 'without_derivs', 'add0']
NUMOPS = ['nadd', 'nsub', 'rsub', 'nscale', 'ndiv']
FUNCS = ['sin', 'cos', 'tan', 'asin', 'acos', 'atan', 'exp', 'log', 'sqrt', 'abs', 'recip', 'pow2', 'pow3', 'pow4', 'powi',
         'powg', 'powh', 'pownh', 'pown1']


class Gen:
    def __init__(self, rng, keys, pkey=0.6, reuse=0.3, pstruct=0.2, pcls=0.3):
        self.rng, self.keys, self.pkey, self.reuse, self.pstruct, self.pcls = rng, keys, pkey, reuse, pstruct, pcls
        self.nleaf = 0
        self.nid = 0
        self.pool = {}

    def share(self, node, t, shape):
        """register a node as reusable: every later occurrence is the SAME object (DAG)"""
        self.nid += 1
        node['nid'] = self.nid
        self.pool.setdefault((t, tuple(shape)), []).append(node)
        return node

    def reused(self, t, shape, leaf_only=False):
        c = [n for n in self.pool.get((t, tuple(shape)), []) if not leaf_only or n['op'] == 'leaf']
        if c and self.rng.random() < self.reuse:
            return copy.deepcopy(self.rng.choice(c))
        return None

    def leaf(self, t, shape):
        r = self.reused(t, shape, True)
        if r is not None:
            return r
        node = self.fresh_leaf(t, shape)
        if self.reuse > 0:
            if self.rng.random() < 0.5:
                node['warm'] = self.rng.sample(WARM, self.rng.choice([1, 1, 2, 3]))
            self.share(node, t, shape)
        return node

    def structured_item(self, t):
        """edge-valued items: exactly unit length, axis-aligned, equal components, integer-valued, norms exactly
        1, 2, 0.5; matrices: identity-like / permutation / integer; scalars: 1, 2, 0.5, -1, multiples of pi/2"""
        rng = self.rng
        if t == 'S':
            return [rng.choice([1.0, 2.0, 0.5, -1.0, -2.0, 0.25, 3.0, np.pi / 2, np.pi, -np.pi / 2, 0.75])]
        if t in ('V2', 'V3', 'Q'):
            n = len(ITEM[t]) and ITEM[t][0]
            kind = rng.choice(['axis', 'axis', 'pyth', 'equal', 'int'])
            if kind == 'axis':
                v = [0.0] * n; v[rng.randrange(n)] = rng.choice([1.0, -1.0, 1.0, 2.0, 0.5, -2.0])
                return v
            if kind == 'pyth':
                base = {2: [[0.6, 0.8], [0.8, -0.6], [-0.6, 0.8]], 3: [[0.6, 0.8, 0.0], [0.0, 0.6, -0.8], [0.8, 0.0, 0.6], [1 / 3, 2 / 3, 2 / 3], [2 / 3, -2 / 3, 1 / 3]],
                        4: [[0.5, 0.5, 0.5, 0.5], [0.6, 0.0, 0.8, 0.0], [0.5, -0.5, 0.5, -0.5], [0.0, 0.6, 0.0, -0.8]]}[n]
                v = list(rng.choice(base)); sc = rng.choice([1.0, 1.0, 1.0, 2.0, 0.5])
                return [x * sc for x in v]
            if kind == 'equal':
                c = rng.choice([1.0, -1.0, 2.0, 0.5])
                return [c] * n
            return [float(rng.choice([-2, -1, 1, 2, 3])) for _ in range(n)]
        n = ITEM[t][0]
        kind = rng.choice(['ident', 'perm', 'int', 'diag'])
        m = np.zeros((n, n))
        if kind == 'ident':
            m = np.eye(n) * rng.choice([1.0, 1.0, 2.0, -1.0, 0.5])
        elif kind == 'perm':
            perm = list(range(n)); rng.shuffle(perm)
            for i, j in enumerate(perm):
                m[i, j] = rng.choice([1.0, -1.0])
        elif kind == 'diag':
            for i in range(n):
                m[i, i] = rng.choice([1.0, 2.0, 0.5, -1.0, 3.0])
        else:
            m = np.array([[float(rng.choice([-2, -1, 0, 1, 2, 3])) for _ in range(n)] for _ in range(n)])
        return [float(x) for x in m.reshape(-1)]

    def fresh_leaf(self, t, shape, structured=None):
        node = self._fresh_leaf(t, shape, structured)
        if len(O.ALTCLS.get(t, [])) > 1 and self.rng.random() < self.pcls:
            node['cls'] = self.rng.choice(O.ALTCLS[t])
            node['dcls'] = self.rng.choice(O.ALTCLS[t])
        return node

    def _fresh_leaf(self, t, shape, structured=None):
        rng = self.rng
        if structured is None:
            structured = rng.random() < self.pstruct
        if structured:
            ne = int(np.prod(shape, dtype=int))
            vals = [x for _ in range(ne) for x in self.structured_item(t)]
            n = len(vals)
            derivs = {}
            for k, den in self.keys.items():
                if rng.random() < self.pkey:
                    nd = int(np.prod(den, dtype=int))
                    derivs[k] = [round(rng.uniform(-2, 2), 4) for _ in range(n * nd)]     # generic direction
            self.nleaf += 1
            return {'op': 'leaf', 't': t, 'shape': list(shape), 'vals': vals, 'derivs': derivs}
        item = ITEM[t]
        n = int(np.prod(shape, dtype=int)) * int(np.prod(item, dtype=int))
        if t == 'S' and rng.random() < 0.5:
            vals = [round(rng.uniform(0.3, 1.8), 4) for _ in range(n)]
        else:
            vals = [round(rng.uniform(-2, 2), 4) for _ in range(n)]
        derivs = {}
        for k, den in self.keys.items():
            if rng.random() < self.pkey:
                nd = int(np.prod(den, dtype=int))
                derivs[k] = [round(rng.uniform(-2, 2), 4) for _ in range(n * nd)]
        self.nleaf += 1
        return {'op': 'leaf', 't': t, 'shape': list(shape), 'vals': vals, 'derivs': derivs}

    def loose(self, shape):
        """a shape that broadcasts to `shape`"""
        rng = self.rng
        if not shape or rng.random() < 0.5:
            return tuple(shape)
        r = rng.random()
        if r < 0.3:
            return ()
        s = [d if rng.random() < 0.5 else 1 for d in shape]
        if r < 0.6 and len(s) > 1:
            s = s[1:]
        return tuple(s)

    def node(self, t, shape, depth, exact):
        rng = self.rng
        shape = tuple(shape)
        if depth <= 0 or t not in PROD or (depth <= 2 and rng.random() < 0.15):
            if t == 'R3':       # rotations only come from constructors
                return {'op': 'rot', 't': 'R3', 'p': rparams('rot', ('S',), rng),
                        'args': [self.leaf('S', shape if exact else self.loose(shape))]}
            return self.leaf(t, shape if exact else self.loose(shape))
        if rng.random() < 0.14:
            s = self.structural(t, shape, depth)
            if s is not None:
                return s
        if rng.random() < 0.5:
            r = self.reused(t, shape)
            if r is not None:
                return r
        cands = PROD[t]
        ws = [WEIGHT.get(n, 1) for n, _ in cands]
        name, ats = rng.choices(cands, weights=ws)[0]
        args = []
        for i, at in enumerate(ats):
            a = self.node(at, shape, depth - 1, exact and i == 0)
            if at == 'S' and name in FUNCS + ['atan2', 'smul', 'sdiv', 'rot'] and rng.random() < 0.35:
                # Python-number fast paths (x + c, x - c, c - x, x * c, x / c) right under the function
                nop = rng.choice(NUMOPS)
                a = {'op': nop, 't': 'S', 'p': rparams(nop, ('S',), rng), 'args': [a]}
            args.append(a)
        node = {'op': name, 't': t, 'p': rparams(name, ats, rng), 'args': args}
        if exact and self.reuse > 0 and rng.random() < 0.3:
            self.share(node, t, shape)
        return node

    # ---- operands that have a denominator THEMSELVES (keys then have denominator ()): only the operations that admit one
    def dleaf(self, t, shape, den):
        node = self.fresh_leaf(t, shape)
        nD = int(np.prod(den, dtype=int))
        n = len(node['vals'])
        node['den'] = list(den)
        node['vals'] = [round(self.rng.uniform(-2, 2), 4) for _ in range(n * nD)]
        node['derivs'] = {k: [round(self.rng.uniform(-2, 2), 4) for _ in range(n * nD)] for k in node['derivs']}
        return node

    def dnode(self, t, shape, depth, den):
        """a tree whose result carries the denominator `den`"""
        rng = self.rng
        shape = tuple(shape)
        if depth <= 0 or t == 'R3':
            return self.dleaf(t if t != 'R3' else 'M3', shape, den)
        if rng.random() < 0.15:
            kind = rng.choice(['sum', 'mean', 'getitem', 'stack'])
            if kind in ('sum', 'mean') and len(shape) < 2:
                k = rng.randrange(len(shape) + 1); n = rng.choice([2, 3])
                return {'op': kind, 't': t, 'p': {'axis': k}, 'args': [self.dnode(t, shape[:k] + (n,) + shape[k:], depth - 1, den)]}
            if kind == 'getitem' and len(shape) < 2:
                n = rng.choice([2, 3])
                return {'op': 'getitem', 't': t, 'p': {'index': [rng.randrange(-n, n)]}, 'args': [self.dnode(t, (n,) + shape, depth - 1, den)]}
            if kind == 'stack' and shape and shape[0] <= 3:
                return {'op': 'stack', 't': t, 'p': {}, 'args': [self.dnode(t, shape[1:], depth - 1, den) for _ in range(shape[0])]}
        V = {'V2': 2, 'V3': 3}
        M = {'M2': 'V2', 'M3': 'V3'}
        c = [('add', (t, t), [(0, 1)]), ('sub', (t, t), [(0, 1)]), ('neg', (t,), [(0,)]), ('nscale', (t,), [(0,)]),
             ('ndiv', (t,), [(0,)]), ('smul', (t, 'S'), [(0,), (1,)]), ('sdiv', (t, 'S'), [(0,)])]
        if t == 'S':
            c += [('dot', (v, v), [(0,), (1,)]) for v in V] + [('cross', ('V2', 'V2'), [(0,), (1,)])]
            c += [('to_scalar', (v,), [(0,)]) for v in V] + [('m_to_scalar', (m,), [(0,)]) for m in M] + [('to_parts0', ('Q',), [(0,)])]
        if t in V:
            m = 'M2' if t == 'V2' else 'M3'
            c += [('emul', (t, t), [(0,), (1,)]), ('matvec', (m, t), [(0,), (1,)]), ('row_vector', (m,), [(0,)])]
            c += [('from_scalars%d' % V[t], ('S',) * V[t], [tuple(range(V[t]))])]
            if t == 'V3':
                c += [('cross', ('V3', 'V3'), [(0,), (1,)]), ('to_parts1', ('Q',), [(0,)])]
        if t in M:
            c += [('outer', (M[t], M[t]), [(0,), (1,)]), ('matmul', (t, t), [(0,), (1,)]), ('transpose', (t,), [(0,)])]
        if t == 'Q':
            c += [('qmul', ('Q', 'Q'), [(0,), (1,)]), ('qconj', ('Q',), [(0,)]), ('from_parts', ('S', 'V3'), [(0, 1)])]
        name, ats, carriers = rng.choice(c)
        carry = rng.choice(carriers)
        args = []
        for i, at in enumerate(ats):
            if i in carry:
                args.append(self.dnode(at, shape, depth - 1, den))
            else:
                args.append(self.node(at, shape, depth - 1, False))
        return {'op': name, 't': t, 'p': rparams(name, ats, rng), 'args': args}

    def reduce_spec(self, shape, lens=(2, 3)):
        """child shape and an axis argument of sum()/mean() that reduces it to `shape`: None, +-int, tuple or list
        of axes with negative and mixed-sign entries"""
        rng = self.rng
        shape = tuple(shape)
        m = rng.choice([1, 1, 2]) if len(shape) <= 1 else 1
        if len(shape) + m > 3:
            return None, None
        child = list(shape)
        for _ in range(m):
            child.insert(rng.randrange(len(child) + 1), None)
        axes = [i for i, c in enumerate(child) if c is None]
        child = tuple(rng.choice(lens) if c is None else c for c in child)
        r = len(child)
        signed = [a if rng.random() < 0.5 else a - r for a in axes]
        form = rng.choice(['int', 'tuple', 'list']) if m == 1 else rng.choice(['tuple', 'list'])
        if len(axes) == r and rng.random() < 0.3:
            return child, {'axis': None}
        if form == 'int':
            return child, {'axis': signed[0]}
        rng.shuffle(signed)
        return child, {'axis': signed, 'axform': form}

    def structural(self, t, shape, depth):
        rng = self.rng
        kind = rng.choice(['sum', 'mean', 'getitem', 'getitem', 'reshape', 'swap_axes', 'stack', 'flatten', 'bcast'])
        if kind in ('sum', 'mean'):
            if t == 'R3':
                return None          # Matrix3.sum()/mean() are unsupported by design (TypeError)
            child, p = self.reduce_spec(shape)
            if child is None:
                return None
            return {'op': kind, 't': t, 'p': p, 'args': [self.node(t, child, depth - 1, True)]}
        if kind == 'getitem':
            if len(shape) >= 3:
                return None
            if rng.random() < 0.6 or not shape:
                n = rng.choice([2, 3]); i = rng.randrange(-n, n)
                return {'op': 'getitem', 't': t, 'p': {'index': [i]}, 'args': [self.node(t, (n,) + shape, depth - 1, True)]}
            n = shape[0] + rng.choice([1, 2])
            start = rng.randrange(n - shape[0] + 1)
            ix = [[start, start + shape[0], None]]
            return {'op': 'getitem', 't': t, 'p': {'index': ix}, 'args': [self.node(t, (n,) + shape[1:], depth - 1, True)]}
        if kind == 'reshape':
            n = int(np.prod(shape, dtype=int))
            opts = {6: [(6,), (2, 3), (3, 2)], 4: [(4,), (2, 2)], 2: [(2,), (1, 2), (2, 1)], 3: [(3,), (1, 3), (3, 1)], 1: [(), (1,)]}.get(n)
            if not opts:
                return None
            if not shape:
                return None          # reshape(()) is C15's defect #26 (shaper.py keeps `ravel()[0]`)
            child = rng.choice([o for o in opts if o != shape] or opts)
            return {'op': 'reshape', 't': t, 'p': {'shape': list(shape)}, 'args': [self.node(t, child, depth - 1, True)]}
        if kind == 'swap_axes':
            if len(shape) != 2:
                return None
            return {'op': 'swap_axes', 't': t, 'p': {'a1': rng.choice([0, -2]), 'a2': rng.choice([1, -1])},
                    'args': [self.node(t, (shape[1], shape[0]), depth - 1, True)]}
        if kind == 'stack':
            if not shape or shape[0] > 3 or t == 'R3':
                return None
            kids = [self.node(t, shape[1:], depth - 1, i == 0) for i in range(shape[0])]
            return {'op': 'stack', 't': t, 'p': {}, 'args': kids}
        if kind == 'flatten':
            if len(shape) != 1 or shape[0] not in (4, 6):
                return None
            child = (2, 2) if shape[0] == 4 else rng.choice([(2, 3), (3, 2)])
            return {'op': 'flatten', 't': t, 'p': {}, 'args': [self.node(t, child, depth - 1, True)]}
        if kind == 'bcast':
            if not shape:
                return None
            return {'op': 'bcast', 't': t, 'p': {'shape': list(shape)}, 'args': [self.node(t, self.loose(shape), depth - 1, True)]}
        return None


def leaves(node):
    if node['op'] == 'leaf':
        return [node]
    return [l for a in node['args'] for l in leaves(a)]


def subtrees(node):
    res = []
    for a in node.get('args', []):
        res += subtrees(a)
    res.append(node)
    return res


def tree_ops(node):
    return [] if node['op'] == 'leaf' else [node['op']] + [o for a in node['args'] for o in tree_ops(a)]


def smooth(tree, keys):
    """(ok, peak) — the tree evaluates on the real code comfortably inside every domain"""
    peak = [1.0]
    try:
        with warnings.catch_warnings():
            warnings.simplefilter('ignore')
            O.ev(tree, keys, 'plain', None, True, peak)
        return True, peak[0]
    except Bad:
        return False, 0.0
    except Exception as e:
        if 'denom' in str(e):
            return False, 0.0   # an operation that by design does not admit the operand's denominator
        return True, 1.0        # the real code raises: keep the case, the oracle reports it


def mk_case(tree, keys, mode='fd', kind=None):
    case = {'tree': tree, 'keys': keys, 'mode': mode}
    case['req'] = request(case)
    ops = tree_ops(tree)
    case['kind'] = kind or (mode + ':' + (tree['op'] if tree['op'] != 'leaf' else 'leaf') + ('' if case['req'] is not None else ':oracle-only'))
    case['nontrivial'] = any(l['derivs'] for l in leaves(tree))
    if case['req'] is None:
        case['id'] = repr(tree)[:4000]
    return case


ROOT_SHAPES = [(), (), (), (2,), (3,), (2, 3), (2, 1), (1,), (1, 3), (1, 2)]
ROOT_TYPES = ['S', 'S', 'S', 'V3', 'V3', 'V2', 'M2', 'M3', 'R3', 'Q']


def gen_tree(rng, keys, depth, t=None, shape=None, pkey=0.6):
    for _ in range(60):
        g = Gen(rng, keys, pkey)
        tree = g.node(t or rng.choice(ROOT_TYPES), shape if shape is not None else rng.choice(ROOT_SHAPES), depth, True)
        if tree['op'] == 'leaf':
            continue
        ok, _ = smooth(tree, keys)
        if ok:
            return tree
    return None


# masked-domain stream (tie only): operation applied to an operand on / beyond the edge of its domain
def masked_cases(rng):
    keys = {'t': []}
    out = []

    def leaf(t, vals, shape=(), d=True):
        n = len(vals)
        return {'op': 'leaf', 't': t, 'shape': list(shape), 'vals': [float(v) for v in vals],
                'derivs': {'t': [round(rng.uniform(-2, 2), 3) for _ in range(n)]} if d else {}}
    S = lambda v, d=True: leaf('S', v if isinstance(v, list) else [v], () if not isinstance(v, list) else (len(v),), d)
    un = lambda o, a, p=None: {'op': o, 't': 'S', 'p': p or {}, 'args': [a]}
    for o, bad in (('sqrt', [-1.0, 0.0, 2.0]), ('log', [-1.0, 0.0, 2.0]), ('asin', [-1.5, 1.0, 0.5, -1.0]), ('acos', [1.5, -1.0, 0.25, 1.0]),
                   ('recip', [0.0, 2.0]), ('pown1', [0.0, 2.0]), ('pownh', [0.0, -1.0, 2.0]), ('powh', [0.0, -2.0, 2.0])):
        out.append(mk_case(un(o, S(bad)), keys, 'mask', 'mask:' + o))
        for v in bad:
            out.append(mk_case(un(o, S(v)), keys, 'mask', 'mask:' + o))
    out.append(mk_case({'op': 'sdiv', 't': 'S', 'p': {}, 'args': [S([1.0, 2.0, 3.0]), S([0.0, 2.0, 0.0])]}, keys, 'mask', 'mask:sdiv'))
    out.append(mk_case({'op': 'sdiv', 't': 'V3', 'p': {}, 'args': [leaf('V3', [1, 2, 3]), S(0.0)]}, keys, 'mask', 'mask:sdiv'))
    out.append(mk_case({'op': 'atan2', 't': 'S', 'p': {}, 'args': [S([0.0, 1.0]), S([0.0, 1.0])]}, keys, 'mask', 'mask:atan2'))
    out.append(mk_case({'op': 'ndiv', 't': 'S', 'p': {'c': 0.0}, 'args': [S([1.0, 2.0])]}, keys, 'mask', 'mask:ndiv'))
    out.append(mk_case({'op': 'unit', 't': 'V3', 'p': {}, 'args': [leaf('V3', [0, 0, 0, 1, 2, 2], (2,))]}, keys, 'mask', 'mask:unit'))
    out.append(mk_case({'op': 'norm', 't': 'S', 'p': {}, 'args': [leaf('V3', [0, 0, 0, 1, 2, 2], (2,))]}, keys, 'mask', 'mask:norm'))
    out.append(mk_case({'op': 'ediv', 't': 'V3', 'p': {}, 'args': [leaf('V3', [1, 2, 3]), leaf('V3', [1, 0, 3])]}, keys, 'mask', 'mask:ediv'))
    out.append(mk_case({'op': 'inverse', 't': 'M2', 'p': {}, 'args': [leaf('M2', [1, 2, 2, 4, 1, 2, 3, 4], (2,))]}, keys, 'mask', 'mask:inverse'))
    # masked operand elements propagate
    m = leaf('S', [0.5, 1.5, 2.5], (3,)); m['mask'] = [False, True, False]
    for o in ('sin', 'sqrt', 'pow2'):
        out.append(mk_case(un(o, copy.deepcopy(m)), keys, 'mask', 'mask:operand'))
    out.append(mk_case({'op': 'smul', 't': 'S', 'p': {}, 'args': [copy.deepcopy(m), S(2.0)]}, keys, 'mask', 'mask:operand'))
    return out


# recursive=False / wod / without_derivs stream
STRIP = {
    'wod': (('S',), lambda a: a.wod), 'wod_v': (('V3',), lambda a: a.wod), 'wod_m': (('M3',), lambda a: a.wod),
    'without_derivs': (('S',), lambda a: a.without_derivs()), 'without_derivs_q': (('Q',), lambda a: a.without_derivs()),
    'clone': (('V3',), lambda a: a.clone(recursive=False)),
    'sin': (('S',), lambda a: a.sin(recursive=False)), 'cos': (('S',), lambda a: a.cos(recursive=False)),
    'tan': (('S',), lambda a: a.tan(recursive=False)), 'asin': (('S',), lambda a: (a * 0.2).arcsin(recursive=False)),
    'acos': (('S',), lambda a: (a * 0.2).arccos(recursive=False)), 'atan': (('S',), lambda a: a.arctan(recursive=False)),
    'exp': (('S',), lambda a: a.exp(recursive=False)), 'log': (('S',), lambda a: (a * a + 1.).log(recursive=False)),
    'sqrt': (('S',), lambda a: (a * a + 1.).sqrt(recursive=False)), 'abs': (('S',), lambda a: a.abs(recursive=False)),
    'recip': (('S',), lambda a: (a * a + 1.).reciprocal(recursive=False)),
    'pow2': (('S',), lambda a: a.__pow__(2, recursive=False)), 'pow5': (('S',), lambda a: a.__pow__(5, recursive=False)),
    'pow07': (('S',), lambda a: (a * a + 1.).__pow__(0.7, recursive=False)),
    'neg': (('S',), lambda a: a.__neg__(recursive=False)),
    'atan2': (('S', 'S'), lambda a, b: a.arctan2(b, recursive=False)),
    'add': (('S', 'S'), lambda a, b: a.__add__(b, recursive=False)), 'sub': (('S', 'S'), lambda a, b: a.__sub__(b, recursive=False)),
    'mul': (('S', 'S'), lambda a, b: a.__mul__(b, recursive=False)), 'div': (('S', 'S'), lambda a, b: a.__truediv__(b * b + 1., recursive=False)),
    'mul_num': (('S',), lambda a: a.__mul__(2.5, recursive=False)), 'div_num': (('S',), lambda a: a.__truediv__(2.5, recursive=False)),
    'add_num': (('S',), lambda a: a.__add__(2.5, recursive=False)),
    'vadd': (('V3', 'V3'), lambda a, b: a.__add__(b, recursive=False)),
    'vmul_s': (('V3', 'S'), lambda a, b: a.__mul__(b, recursive=False)), 'smul_v': (('S', 'V3'), lambda a, b: a.__mul__(b, recursive=False)),
    'vdiv_s': (('V3', 'S'), lambda a, b: a.__truediv__(b * b + 1., recursive=False)),
    'dot': (('V3', 'V3'), lambda a, b: a.dot(b, recursive=False)), 'norm': (('V3',), lambda a: a.norm(recursive=False)),
    'norm_sq': (('V3',), lambda a: a.norm_sq(recursive=False)), 'cross': (('V3', 'V3'), lambda a, b: a.cross(b, recursive=False)),
    'outer': (('V3', 'V3'), lambda a, b: a.outer(b, recursive=False)), 'unit': (('V3',), lambda a: a.unit(recursive=False)),
    'perp': (('V3', 'V3'), lambda a, b: a.perp(b, recursive=False)), 'proj': (('V3', 'V3'), lambda a, b: a.proj(b, recursive=False)),
    'sep': (('V3', 'V3'), lambda a, b: a.sep(b, recursive=False)), 'ucross': (('V3', 'V3'), lambda a, b: a.ucross(b, recursive=False)),
    'emul': (('V3', 'V3'), lambda a, b: a.element_mul(b, recursive=False)), 'ediv': (('V3', 'V3'), lambda a, b: a.element_div(b.element_mul(b) + (1., 1., 1.), recursive=False)),
    'to_scalar': (('V3',), lambda a: a.to_scalar(1, recursive=False)),
    'from_scalars': (('S', 'S', 'S'), lambda a, b, c: O.Vector3.from_scalars(a, b, c, recursive=False)),
    'matmul': (('M3', 'M3'), lambda a, b: a.__mul__(b, recursive=False)), 'matvec': (('M3', 'V3'), lambda a, b: a.__mul__(b, recursive=False)),
    'transpose': (('M3',), lambda a: a.transpose(recursive=False)),
    'inverse': (('M2',), lambda a: (a + O.Matrix([[3., 0.], [0., 3.]])).inverse(recursive=False)),
    'rot': (('S',), lambda a: O.Matrix3.z_rotation(a, recursive=False)),
    'qmul': (('Q', 'Q'), lambda a, b: a.__mul__(b, recursive=False)), 'qconj': (('Q',), lambda a: a.conj(recursive=False)),
    'to_matrix3': (('Q',), lambda a: a.to_matrix3(recursive=False)),
    'from_parts': (('S', 'V3'), lambda a, b: O.Quaternion.from_parts(a, b, recursive=False)),
    'to_parts': (('Q',), lambda a: a.to_parts(recursive=False)[1]),
    'sum': (('S',), lambda a: a.sum(recursive=False)), 'mean': (('V3',), lambda a: a.mean(recursive=False)),
    'reshape': (('S',), lambda a: a.reshape((1,) + a.shape, recursive=False)),
    'stack': (('S', 'S'), lambda a, b: O.Qube.stack(a, b, recursive=False)),
}


def strip_cases(rng, reps):
    out = []
    for name in sorted(STRIP):
        ats, _ = STRIP[name]
        for r in range(reps):
            keys = rng.choice(KEYSETS)
            g = Gen(rng, keys, 1.0 if r == 0 else 0.7, reuse=0)
            shape = rng.choice([(), (2,), (3,)])
            args = [g.leaf(t, shape) for t in ats]
            out.append({'mode': 'strip', 'name': name, 'args': args, 'keys': keys, 'req': None,
                        'id': 'strip:%s:%r' % (name, args), 'kind': 'strip:' + name, 'nontrivial': True})
    return out


def gen_cases(rng, tier):
    thorough = tier == 'thorough'
    n_rand = 6000 if thorough else 900
    cases = []
    # 1. every catalogued operation at the root, shallow (depth 1-2), every key set
    for name, spec in sorted(OPS.items()):
        for (ats, rt) in spec['sigs']:
            for keys in (KEYSETS if thorough else [KEYSETS[0], KEYSETS[2], KEYSETS[5]]):
                for _ in range(3 if thorough else 1):
                    for _try in range(40):
                        g = Gen(rng, keys, 0.65)
                        shape = rng.choice(ROOT_SHAPES)
                        d = rng.choice([0, 0, 1])
                        tree = {'op': name, 't': rt, 'p': rparams(name, ats, rng),
                                'args': [g.node(at, shape, d, i == 0) for i, at in enumerate(ats)]}
                        if smooth(tree, keys)[0]:
                            cases.append(mk_case(tree, keys))
                            break
    # 2. all subsets of operands carrying the key, for binary/ternary operations
    for name in ('add', 'sub', 'smul', 'sdiv', 'atan2', 'dot', 'cross', 'outer', 'emul', 'ediv', 'matmul', 'matvec', 'qmul',
                 'unrotate', 'unrotate_m', 'mdot', 'mmdot',
                 'from_scalars3', 'from_parts', 'perp', 'proj', 'withnorm', 'rotate', 'stack'):
        sigs = OPS[name]['sigs'] if name != 'stack' else [(('S', 'S'), 'S'), (('V3', 'V3', 'V3'), 'V3')]
        for (ats, rt) in sigs[:2]:
            for keys in ({'t': []}, {'p': [2]}):
                k = list(keys)[0]
                for sub in range(2 ** len(ats)):
                    for _try in range(40):
                        g = Gen(rng, keys, 1.0, reuse=0)
                        shape = rng.choice([(), (2,)])
                        kids = []
                        for i, at in enumerate(ats):
                            if at == 'R3':
                                kid = g.node('R3', shape, 0, True)
                                lf = kid['args'][0]
                            else:
                                kid = lf = g.leaf(at, shape)
                            if not (sub >> i) & 1:
                                lf['derivs'] = {}
                            kids.append(kid)
                        tree = {'op': name, 't': rt, 'p': rparams(name, ats, rng) if name != 'stack' else {}, 'args': kids}
                        if name == 'stack':
                            tree['t'] = ats[0]
                        if smooth(tree, keys)[0]:
                            cases.append(mk_case(tree, keys, kind='subset:' + name))
                            break
    # 2b. reused operands with a warm cache: f(x (+-*/) c) and g(x) * f(x (+-*/) c) with the SAME object x, for every
    #     unary function f and every Python-number fast path, x touched beforehand in every catalogued way
    for f in FUNCS:
        for nop in NUMOPS:
            for form in ('warm', 'dag'):
                for _try in range(60):
                    keys = rng.choice(KEYSETS)
                    g = Gen(rng, keys, 1.0, reuse=1.0)
                    shape = rng.choice([(), (), (2,), (3,)])
                    x = g.fresh_leaf('S', shape)
                    x['warm'] = [rng.choice(WARM)] if form == 'warm' else []
                    g.share(x, 'S', shape)
                    inner = {'op': nop, 't': 'S', 'p': rparams(nop, ('S',), rng), 'args': [copy.deepcopy(x)]}
                    tree = {'op': f, 't': 'S', 'p': rparams(f, ('S',), rng), 'args': [inner]}
                    if form == 'dag':
                        first = {'op': rng.choice(['sin', 'pow2', 'exp', 'atan']), 't': 'S', 'p': {}, 'args': [copy.deepcopy(x)]}
                        tree = {'op': 'smul', 't': 'S', 'p': {'side': 'r'}, 'args': [first, tree]}
                    if smooth(tree, keys)[0]:
                        cases.append(mk_case(tree, keys, kind='reuse:%s:%s' % (form, f)))
                        break
    # 2h. constructor-like and multi-argument class methods: each argument carries ITS OWN keys, several keys per argument with
    #     equal denominators, all subsets of (argument, key), structured exact values 0, +-1 that could trigger shortcuts
    CTORS = [(n, ats) for n in ('from_ra_dec_length', 'from_ra_dec', 'from_cylindrical', 'from_cylindrical2', 'twovec', 'rot', 'from_parts', 'from_scalars3',
                                'from_scalars2', 'from_rotation', 'withnorm', 'to_matrix3')
             for (ats, _) in OPS[n]['sigs'][:1]]
    for (name, ats) in CTORS:
        rt = [r for (a, r) in OPS[name]['sigs'] if a == ats][0]
        for keys in ({'t': [], 'u': []}, {'p': [2], 'r': [2]}, {'t': [], 'u': [], 'v': []}):
            klist = sorted(keys)
            for rep in range(12 if thorough else 5):
                for _try in range(40):
                    g = Gen(rng, keys, 1.0, reuse=0, pstruct=0.0, pcls=0.0)
                    shape = rng.choice([(), (), (2,)])
                    kids = []
                    for i, at in enumerate(ats):
                        exact1 = rng.random() < 0.35
                        kid = g.fresh_leaf(at, shape, structured=False)
                        if exact1:          # exact special values: 1, -1, 0 for scalars, unit / axis vectors otherwise
                            ne = int(np.prod(shape, dtype=int))
                            if at == 'S':
                                kid['vals'] = [rng.choice([1.0, 1.0, -1.0, 0.0])] * ne
                            else:
                                kid['vals'] = [x for _ in range(ne) for x in g.structured_item(at)]
                        # this argument's own key subset (rep 0: disjoint keys per argument)
                        own = [klist[i % len(klist)]] if rep == 0 else [k for k in klist if rng.random() < 0.6]
                        kid['derivs'] = {k: kid['derivs'][k] for k in own if k in kid['derivs']}
                        kids.append(kid)
                    if name in ('from_ra_dec_length', 'withnorm', 'from_cylindrical') and rep % 2 == 1:
                        # the length / norm / radius argument EXACTLY 1 (scalar or array of ones) but carrying its keys
                        k = {'from_ra_dec_length': 2, 'withnorm': 1, 'from_cylindrical': 0}[name]
                        kids[k]['vals'] = [1.0] * len(kids[k]['vals'])
                        if not kids[k]['derivs']:
                            kk = rng.choice(klist); nd = int(np.prod(keys[kk], dtype=int))
                            kids[k]['derivs'] = {kk: [round(rng.uniform(-2, 2), 4) for _ in range(len(kids[k]['vals']) * nd)]}
                    tree = {'op': name, 't': rt, 'p': rparams(name, ats, rng), 'args': kids}
                    if smooth(tree, keys)[0]:
                        cases.append(mk_case(tree, keys, kind='ctor:' + name))
                        break
    # 2f. operands whose shapes differ only by unit leading axes (same size, different rank) and general broadcasting
    #     pairs, all key subsets, followed by a step that uses the leading axes of the result AND of its derivatives
    #     (indexing, slicing, reduction, reshaping); the oracle also demands derivative shape == parent shape
    BPAIRS = [((1, 3), (3,)), ((1,), ()), ((1, 1, 2), (2,)), ((1, 2), (2,)), ((1, 1), ()), ((1, 1, 3), (1, 3)), ((2, 3), (3,)),
              ((2, 1), (3,)), ((1, 3), (2, 1))]
    BOPS = [('add', ('S', 'S')), ('sub', ('S', 'S')), ('smul', ('S', 'S')), ('sdiv', ('S', 'S')), ('atan2', ('S', 'S')),
            ('add', ('V3', 'V3')), ('smul', ('V3', 'S')), ('dot', ('V3', 'V3')), ('cross', ('V3', 'V3')), ('emul', ('V2', 'V2')),
            ('matvec', ('M3', 'V3')), ('qmul', ('Q', 'Q')), ('from_scalars2', ('S', 'S')), ('outer', ('V2', 'V2'))]
    for (name, ats) in BOPS:
        rt = [r for (a, r) in OPS[name]['sigs'] if a == ats][0]
        for (s1, s2) in (BPAIRS if thorough else BPAIRS[:6]):
            for swap in (False, True):
                for sub in (1, 2, 3):
                    for _try in range(30):
                        keys = rng.choice([{'t': []}, {'p': [2]}, {'t': [], 'q': [3]}])
                        g = Gen(rng, keys, 1.0, reuse=0, pstruct=0.0, pcls=0.0)
                        shapes = (s2, s1) if swap else (s1, s2)
                        kids = [g.fresh_leaf(at, sh) for at, sh in zip(ats, shapes)]
                        for i, kid in enumerate(kids):
                            if not (sub >> i) & 1:
                                kid['derivs'] = {}
                        tree = {'op': name, 't': rt, 'p': rparams(name, ats, rng), 'args': kids}
                        out = tuple(np.broadcast_shapes(s1, s2))
                        step = rng.choice(['getitem0', 'slice', 'sum0', 'sumneg', 'mean0', 'reshape', 'flatten', 'swap', 'none'])
                        if step == 'getitem0':
                            tree = {'op': 'getitem', 't': rt, 'p': {'index': [rng.choice([0, -1])]}, 'args': [tree]}
                        elif step == 'slice' and len(out) >= 2 and out[1] >= 2:
                            tree = {'op': 'getitem', 't': rt, 'p': {'index': [0, [1, None, None]]}, 'args': [tree]}
                        elif step in ('sum0', 'mean0'):
                            tree = {'op': step[:-1], 't': rt, 'p': {'axis': rng.choice([0, -len(out), [0], [-len(out)]]), 'axform': 'tuple'}, 'args': [tree]}
                        elif step == 'sumneg':
                            tree = {'op': 'sum', 't': rt, 'p': {'axis': rng.choice([-1, len(out) - 1, None])}, 'args': [tree]}
                        elif step == 'reshape':
                            tree = {'op': 'reshape', 't': rt, 'p': {'shape': [int(np.prod(out, dtype=int))]}, 'args': [tree]}
                        elif step == 'flatten' and len(out) >= 2:
                            tree = {'op': 'flatten', 't': rt, 'p': {}, 'args': [tree]}
                        elif step == 'swap' and len(out) >= 2:
                            tree = {'op': 'swap_axes', 't': rt, 'p': {'a1': 0, 'a2': -1}, 'args': [tree]}
                        if smooth(tree, keys)[0]:
                            cases.append(mk_case(tree, keys, kind='bcast:' + name))
                            break
    # 2g. mixed-class operand pairs (subclass vs base class: Vector3/Vector, Pair/Vector, Matrix3/Matrix) whose derivatives are of
    #     either class, through the binary vector operations and stack
    MIX = [(n, ats) for n in ('add', 'sub', 'dot', 'cross', 'emul', 'ediv', 'perp', 'proj', 'sep', 'outer', 'ucross')
           for (ats, _) in OPS[n]['sigs'] if len(ats) == 2 and ats[0] in ('V2', 'V3') and ats[1] == ats[0]]
    for (name, ats) in MIX:
        rt = [r for (a, r) in OPS[name]['sigs'] if a == ats][0]
        alts = O.ALTCLS[ats[0]]
        for c0 in alts:
            for c1 in alts:
                for (d0, d1) in ([(a, b) for a in alts for b in alts] if thorough else [(alts[1], alts[1]), (alts[0], alts[1]), (alts[1], alts[0])]):
                    if c0 == c1 == d0 == d1:
                        continue
                    for sub in ((1, 2, 3) if thorough else (3, rng.choice([1, 2]))):
                        for _try in range(30):
                            keys = rng.choice([{'t': []}, {'p': [2]}])
                            g = Gen(rng, keys, 1.0, reuse=0, pstruct=0.1, pcls=0.0)
                            shape = rng.choice([(), (2,)])
                            kids = [g.fresh_leaf(ats[0], shape), g.fresh_leaf(ats[1], shape)]
                            for kid, c, d in zip(kids, (c0, c1), (d0, d1)):
                                kid['cls'] = c; kid['dcls'] = d
                            for i, kid in enumerate(kids):
                                if not (sub >> i) & 1:
                                    kid['derivs'] = {}
                            tree = {'op': name, 't': rt, 'p': rparams(name, ats, rng), 'args': kids}
                            if smooth(tree, keys)[0]:
                                cases.append(mk_case(tree, keys, kind='mixcls:' + name))
                                break
    # stack of a Matrix3 (from a rotation constructor / to_matrix3 / twovec) with a plain Matrix, both orders, and of
    # Vector3 with Vector, Pair with Vector
    for rep in range(8 if thorough else 3):
        for mk3 in ('rot', 'to_matrix3', 'twovec'):
            for order in (0, 1):
                for _try in range(30):
                    keys = rng.choice([{'t': []}, {'p': [2]}, {'t': [], 'q': [3]}])
                    g = Gen(rng, keys, 0.8, reuse=0, pcls=0.0)
                    shape = rng.choice([(), (2,)])
                    ats = OPS[mk3]['sigs'][0][0]
                    r3 = {'op': mk3, 't': 'R3', 'p': rparams(mk3, ats, rng), 'args': [g.fresh_leaf(a, shape) for a in ats]}
                    m3 = g.fresh_leaf('M3', shape)
                    kids = [r3, m3] if order == 0 else [m3, r3]
                    tree = {'op': 'stack', 't': 'M3', 'p': {}, 'args': kids}
                    if rng.random() < 0.5:
                        tree = {'op': 'getitem', 't': 'M3', 'p': {'index': [rng.choice([0, 1])]}, 'args': [tree]}
                    if smooth(tree, keys)[0]:
                        cases.append(mk_case(tree, keys, kind='mixcls:stack'))
                        break
        for t in ('V3', 'V2'):
            for _try in range(30):
                keys = rng.choice([{'t': []}, {'p': [2]}])
                g = Gen(rng, keys, 0.8, reuse=0, pcls=0.0)
                shape = rng.choice([(), (2,)])
                kids = [g.fresh_leaf(t, shape) for _ in range(2)]
                alts = O.ALTCLS[t]
                kids[0]['cls'], kids[0]['dcls'] = alts[rep % 2], rng.choice(alts)
                kids[1]['cls'], kids[1]['dcls'] = alts[1 - rep % 2], rng.choice(alts)
                tree = {'op': 'stack', 't': t, 'p': {}, 'args': kids}
                if smooth(tree, keys)[0]:
                    cases.append(mk_case(tree, keys, kind='mixcls:stack'))
                    break
    # 2d. structured edge-valued operands (exactly unit vectors, axis-aligned, equal components, integers, norms
    #     1/2/0.5, identity/permutation matrices, angles at multiples of pi/2) with GENERIC derivatives, for every
    #     operation that has a non-scalar argument or result
    for name, spec in sorted(OPS.items()):
        for (ats, rt) in spec['sigs']:
            if all(a == 'S' for a in ats) and rt == 'S':
                continue
            for rep in range(6 if thorough else 3):
                for _try in range(40):
                    keys = rng.choice(KEYSETS)
                    g = Gen(rng, keys, 0.8, reuse=0, pstruct=1.0)
                    shape = rng.choice([(), (), (2,), (3,)])
                    tree = {'op': name, 't': rt, 'p': rparams(name, ats, rng),
                            'args': [g.node(at, shape, 0, i == 0) for i, at in enumerate(ats)]}
                    if rep % 3 == 2:       # one level of composition on top
                        cands = [(n2, a2) for (n2, a2) in PROD.get(rt, []) if rt in a2 and n2 not in ('twovec',)]
                        for (n2, a2) in rng.sample(cands, min(len(cands), 1)):
                            tree = {'op': n2, 't': rt, 'p': rparams(n2, a2, rng),
                                    'args': [tree if (a == rt and k == a2.index(rt)) else g.node(a, shape, 0, False) for k, a in enumerate(a2)]}
                    if smooth(tree, keys)[0]:
                        cases.append(mk_case(tree, keys, kind='edge:' + name))
                        break
    # 2e. every axis form of sum()/mean(): None, +-int, tuples and lists with negative / mixed-sign entries, on operands of
    #     rank 1-3 whose leading axis lengths include the keys' denominator lengths
    for kind in ('sum', 'mean'):
        for keys in ({'p': [2]}, {'q': [3]}, {'t': [], 'p': [2]}, {'t': []}):
            dl = [d[0] for d in keys.values() if d] or [2]
            for t in ('S', 'V3', 'M2'):
                for rep in range(10 if thorough else 4):
                    g = Gen(rng, keys, 0.9, reuse=0, pstruct=0.0)
                    out = rng.choice([(), (dl[0],), (3,), (2,)])
                    child, p = g.reduce_spec(out, lens=(dl[0], dl[0], 2, 3))
                    if child is None:
                        continue
                    tree = {'op': kind, 't': t, 'p': p, 'args': [g.fresh_leaf(t, child)]}
                    if smooth(tree, keys)[0]:
                        cases.append(mk_case(tree, keys, kind='axes:' + kind))
    # 2c. operands that have a denominator themselves ((2,) or (3,)); key `t` with denominator ()
    for t in ['S', 'V2', 'V3', 'M2', 'M3', 'Q']:
        for rep in range(40 if thorough else 12):
            for _try in range(40):
                keys = {'t': []}
                g = Gen(rng, keys, 0.7, reuse=0.2)
                shape = rng.choice([(), (), (2,), (3,)])
                tree = g.dnode(t, shape, rng.choice([1, 2, 2, 3]), rng.choice([(2,), (3,)]))
                if tree['op'] != 'leaf' and smooth(tree, keys)[0]:
                    cases.append(mk_case(tree, keys, kind='den:' + tree['op']))
                    break
    # 3. random deep trees
    for i in range(n_rand):
        keys = rng.choice(KEYSETS)
        depth = rng.choice([2, 3, 3, 4, 4])
        tree = gen_tree(rng, keys, depth)
        if tree is not None:
            cases.append(mk_case(tree, keys, kind=None))
    # 4. masked-domain stream, strip stream
    cases += masked_cases(rng)
    cases += strip_cases(rng, 4 if thorough else 2)
    return cases


# ------------------------------------------------------------------ request for the model
def request(case):
    if case['mode'] == 'strip':
        return None
    E = O.Env(case['keys'])
    try:
        arr = O.sym(case['tree'], E)
    except Exception:
        return None
    if arr is None:
        return None
    dirs = [['%s.%d' % (k, j), E.denv[(k, j)]] for (k, j) in E.dirs]
    return ['c06', 'run', ['env'] + E.env, ['um'] + E.um, ['dirs'] + dirs, ['progs'] + list(arr.arr.reshape(-1))]


# ------------------------------------------------------------------ observation of the real code
def parse_sx(s):
    toks = s.replace('(', ' ( ').replace(')', ' ) ').split()
    pos = [0]

    def rd():
        t = toks[pos[0]]; pos[0] += 1
        if t == '(':
            l = []
            while toks[pos[0]] != ')':
                l.append(rd())
            pos[0] += 1
            return l
        return t
    return rd()


def expanded(m, shape):
    return np.broadcast_to(np.asarray(m, dtype=bool), shape).reshape(-1)


def observe(r, keys):
    """[[label, elem...]...]; elem = 'm' | 'n' | [floats]; one elem per (array element, index into the RESULT's own
    denominator), the key's denominator index is part of the label"""
    shape = r._shape_
    n = int(np.prod(shape, dtype=int))
    isz = int(np.prod(r._numer_, dtype=int))
    rden = tuple(r._denom_)
    nD = int(np.prod(rden, dtype=int))
    rm = np.repeat(expanded(r._mask_, shape), nD)
    anym = rm.copy()
    for d in r._derivs_.values():
        anym = anym | np.repeat(expanded(d._mask_, shape), nD)
    v = np.broadcast_to(np.asarray(r._values_, dtype=float), shape + tuple(r._numer_) + rden).reshape(n, isz, nD)
    v = np.moveaxis(v, 2, 1).reshape(n * nD, isz)
    out = [['val'] + ['m' if anym[e] else [float(x) for x in v[e]] for e in range(n * nD)]]
    for k in sorted(keys):
        nd = int(np.prod(keys[k], dtype=int))
        for j in range(nd):
            label = '%s.%d' % (k, j)
            if k not in r._derivs_:
                out.append([label] + ['n'] * (n * nD))
                continue
            d = r._derivs_[k]
            dv = np.broadcast_to(np.asarray(d._values_, dtype=float), shape + tuple(d._numer_) + tuple(d._denom_)).reshape(n, isz, nD, nd)
            dv = np.moveaxis(dv[..., j], 2, 1).reshape(n * nD, isz)
            dm = np.repeat(expanded(d._mask_, shape), nD) | rm
            out.append([label] + ['m' if dm[e] else [float(x) for x in dv[e]] for e in range(n * nD)])
    return out


def obs_sx(o):
    return [[g[0]] + [e if isinstance(e, str) else [O.bits(x) for x in e] for e in g[1:]] for g in o]


def agree(model, own, atol):
    """model: parsed s-expression of the driver's line; own: observe() output"""
    if not isinstance(model, list) or len(model) != len(own):
        return False
    vmask = [e == 'm' for e in own[0][1:]]
    for gm, go in zip(model, own):
        if not isinstance(gm, list) or len(gm) != len(go) or gm[0] != go[0]:
            return False
        for i, (em, eo) in enumerate(zip(gm[1:], go[1:])):
            if vmask[i] and gm[0] != 'val':
                continue        # masked element: which keys a masked element still lists is unspecified
            if isinstance(eo, str) or isinstance(em, str):
                if em != eo:
                    return False
                continue
            if len(em) != len(eo):
                return False
            for bm, x in zip(em, eo):
                y = O.unbits(bm)
                if not (abs(x - y) <= atol + 1e-9 * max(abs(x), abs(y))):
                    return False
    return True


def run_strip(case):
    ats, f = STRIP[case['name']]
    args = [O.make_leaf(a, case['keys'], 'full') for a in case['args']]
    return f(*args)


def impl(case):
    """Scheme (documented in DESIGN.d/C06.md §3): the real code's values are compared HERE against the numbers
    of the compiled model within the tolerance; on agreement the model's own line is returned verbatim (so
    check.py's string comparison succeeds), otherwise the real code's observation — rounding noise can
    therefore never produce a mismatch, any difference beyond 1e-9*scale always does."""
    with warnings.catch_warnings():
        warnings.simplefilter('ignore')
        if case['mode'] == 'strip':
            try:
                r = run_strip(case)
            except Exception as e:
                return C.exc_name(e)
            return ['keys'] + sorted(r._derivs_)
        try:
            peak = [1.0]
            r = O.ev(case['tree'], case['keys'], 'full', None, False, None)
            own = observe(r, case['keys'])
        except Exception as e:
            return C.exc_name(e) + ':' + type(e).__name__
    if case.get('req') is None:
        return 'swept'
    for g in own:
        for e in g[1:]:
            if not isinstance(e, str):
                peak[0] = max([peak[0]] + [abs(x) for x in e if np.isfinite(x)])
    line = C.run_driver(PROP, [C.sx(case['req'])])[0]
    try:
        model = parse_sx(line)
    except Exception:
        model = None
    if model is not None and agree(model, own, 1e-9 * peak[0]):
        return line
    return obs_sx(own)


# ------------------------------------------------------------------ direct oracle: finite differences
def fd_check(tree, keys):
    """None, or (what, detail) for the first disagreement between the attached derivative and Richardson-
    extrapolated central differences of the real code; also the key-set rule"""
    r = O.ev(tree, keys, 'full')
    want = sorted({k for l in leaves(tree) for k in l['derivs']})
    have = sorted(r._derivs_)
    if want != have:
        return ('keys', 'result carries derivative keys %s, operands carry %s' % (have, want))
    shape = r._shape_
    rm = expanded(r._mask_, shape)
    for k in want:
        den = tuple(keys[k])
        d = r._derivs_[k]
        rden = tuple(r._denom_)
        if tuple(d._denom_) != rden + den or tuple(d._numer_) != tuple(r._numer_) or tuple(d._shape_) != tuple(shape):
            return ('shape', 'derivative %s has shape %s numer %s denom %s; result shape %s numer %s, key denominator %s'
                    % (k, d._shape_, d._numer_, d._denom_, shape, r._numer_, den))
        nd = int(np.prod(den, dtype=int))
        dv = np.asarray(d._values_, dtype=float).reshape(tuple(shape) + tuple(r._numer_) + rden + (nd,))
        dm = expanded(d._mask_, shape) | rm
        for j in range(nd):
            def central(h):
                vs, ms = [], []
                for hh in (h, -h):
                    q = O.ev(tree, keys, 'plain', (k, j, hh))
                    vs.append(np.broadcast_to(np.asarray(q._values_, dtype=float), tuple(shape) + tuple(r._numer_) + rden))
                    ms.append(expanded(q._mask_, shape))
                return (vs[0] - vs[1]) / (2 * h), ms[0] | ms[1], float(np.max(np.abs(vs[0]))) if vs[0].size else 1.0
            got = dv[..., j]
            # stage 1: two step sizes; agreement within the (generous) tolerance passes
            d0, m0, fmax = central(H)
            d1, m1, _ = central(H / 2)
            rich = (4 * d1 - d0) / 3
            err = np.abs(rich - d1)
            bad_el = dm | m0 | m1
            scale = max(1.0, fmax, float(np.max(np.abs(got))) if got.size else 1.0)
            good = np.broadcast_to((~bad_el).reshape(tuple(shape) + (1,) * (len(r._numer_) + len(rden))), got.shape)
            if not np.all(np.isfinite(got[good])):
                return ('nonfinite', 'derivative %s[%d] has a non-finite unmasked value' % (k, j))
            suspect = (np.abs(got - rich) > 30 * err + 1e-7 * scale) & good
            if not np.any(suspect):
                continue
            # stage 2: a disagreement is reported only if the finite differences demonstrably converge: five more
            # halvings; the Richardson values must contract (each change at most half the previous one, or below
            # the rounding floor) and the final change must be small against the disagreement; otherwise ABSTAIN.
            ds, bad2 = [d0, d1], bad_el.copy()
            for lev in range(2, 7):
                dk, mk, _ = central(H / 2 ** lev)
                ds.append(dk); bad2 = bad2 | mk
            R = [(4 * ds[i + 1] - ds[i]) / 3 for i in range(len(ds) - 1)]
            e = [np.abs(R[i + 1] - R[i]) for i in range(len(R) - 1)]
            floor = 1e-9 * scale
            conv = np.ones(got.shape, dtype=bool)
            for i in range(1, len(e)):
                conv &= (e[i] <= np.maximum(0.5 * e[i - 1], floor))
            est, err2 = R[-1], e[-1] + floor
            diff = np.abs(got - est)
            good2 = np.broadcast_to((~bad2).reshape(tuple(shape) + (1,) * (len(r._numer_) + len(rden))), got.shape)
            wrong = suspect & good2 & conv & np.isfinite(est) & (diff > 100 * err2 + 1e-7 * scale)
            if np.any(wrong):
                ix = tuple(int(i) for i in np.argwhere(wrong)[0])
                return ('value', 'd/d%s[%d] at element %s: attached %.12g, finite differences %.12g (+- %.3g)'
                        % (k, j, ix, got[ix], est[ix], 100 * err2[ix] + 1e-7 * scale))
    return None


def known_condition(node, keys):
    """a tag that makes the signature of a failure specific to a recorded defect's trigger condition"""
    try:
        if node['op'] in ('from_parts', 'from_rotation', 'twovec'):
            for a in node['args']:
                q = O.ev(a, keys, 'full')
                if (isinstance(q, O.Vector) and not isinstance(q, O.Vector3) and q._numer_ == (3,) and q._drank_ > 0
                        and q._derivs_):
                    return 'asvector3den'      # KF-C06-1: Vector3.as_vector3 of a base-class Vector with a denominator
    except Exception:
        pass
    return None


def oracle(case):
    with warnings.catch_warnings():
        warnings.simplefilter('ignore')
        if case['mode'] == 'strip':
            try:
                r = run_strip(case)
            except Exception as e:
                return ('strip:%s:exception:%s' % (case['name'], type(e).__name__), 'recursive=False/wod call raised %r' % (e,))
            if r._derivs_:
                return ('strip:%s:keeps-derivs' % case['name'],
                        '%s with recursive=False / wod returned an object that still carries derivatives %s' % (case['name'], sorted(r._derivs_)))
            return None
        if case['mode'] == 'mask':
            return None
        tree, keys = case['tree'], case['keys']
        try:
            res = fd_check(tree, keys)
        except Exception as e:
            res = ('exception:' + type(e).__name__, 'evaluation raised %r' % (e,))
        if res is None:
            return None
        # locate the smallest failing subtree: its root operation names the culprit
        culprit, what, cnode = tree['op'], res, tree
        for st in subtrees(tree):
            if st['op'] == 'leaf' or st is tree:
                continue
            try:
                r2 = fd_check(st, keys)
            except Exception as e:
                r2 = ('exception:' + type(e).__name__, 'evaluation raised %r' % (e,))
            if r2 is not None:
                culprit, what, cnode = st['op'], r2, st
                break
        sig = 'deriv:%s:%s' % (culprit, what[0])
        tag = known_condition(cnode, keys)
        if tag:
            sig += ':' + tag
        return (sig, 'operation %s: %s' % (culprit, what[1]))


def neighbours(case):
    if case.get('mode') != 'fd':
        return
    for st in subtrees(case['tree']):
        if st['op'] != 'leaf' and st is not case['tree']:
            yield mk_case(copy.deepcopy(st), case['keys'])
