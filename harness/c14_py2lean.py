"""T2 tie for C14: regenerate, from /repo's current source, the per-element Boolean functions computed by
tvl_and / tvl_or (polymath/extensions/tvl.py) and by the strict operators & | ^ ~ (polymath/qube.py), by symbolic
execution of their straight-line bodies, and write them as Lean definitions in lean/PMV/Gen/Tvl.lean.
The theorems of lean/PMV/Props/C14Gen.lean (truth tables, closed by `decide`) are then re-checked against what the
code says now.

Accepted Python subset (anything else -> Untranslatable, reported as a broken tie, never skipped silently):
  x = <expr>           with <expr> built from  & | ^ ~,  np.logical_not(e), np.logical_and/or/xor(e,f),
                       Qube.and_(e,f), Qube.or_(e,f), (e != 0), (e == 0),
                       self._values_, self._mask_, self.antimask, arg._values_, arg._mask_, arg.antimask
  self = Qube.BOOLEAN_CLASS.as_boolean(self)   (identity on Boolean operands; the harness only sends Booleans)
  if Qube.is_one_false(<obj>._mask_): … else: …   -> case split on the representation flag of <obj>
  if isinstance(arg, np.ma.MaskedArray): …        -> skipped (the modelled operands are Qubes)
  if isinstance(arg, Qube): return BOOLEAN_CLASS(v, m)   -> the modelled branch
  result = Qube.BOOLEAN_CLASS(v, m)  /  return Qube.BOOLEAN_CLASS(v, m)   -> output
"""
import ast, os, sys

class Untranslatable(Exception):
    pass

LEAVES = {('self', '_values_'): 'sv', ('self', '_mask_'): 'sm', ('arg', '_values_'): 'av', ('arg', '_mask_'): 'am'}
ANTI = {('self', 'antimask'): '(!sm)', ('arg', 'antimask'): '(!am)'}
FLAG = {'self': 'sf', 'arg': 'af'}


def dotted(n):
    if isinstance(n, ast.Name):
        return n.id
    if isinstance(n, ast.Attribute):
        return dotted(n.value) + '.' + n.attr
    return None


class Sym:
    def __init__(self):
        self.env = {}
        self.out = None

    def expr(self, e):
        if isinstance(e, ast.Name):
            if e.id in self.env:
                return self.env[e.id]
            raise Untranslatable('unbound name ' + e.id)
        if isinstance(e, ast.Attribute) and isinstance(e.value, ast.Name):
            k = (e.value.id, e.attr)
            if k in LEAVES: return LEAVES[k]
            if k in ANTI: return ANTI[k]
            raise Untranslatable('attribute ' + ast.unparse(e))
        if isinstance(e, ast.BinOp) and isinstance(e.op, (ast.BitAnd, ast.BitOr, ast.BitXor)):
            op = {ast.BitAnd: '&&', ast.BitOr: '||', ast.BitXor: '^^'}[type(e.op)]
            return '(%s %s %s)' % (self.expr(e.left), op, self.expr(e.right))
        if isinstance(e, ast.UnaryOp) and isinstance(e.op, ast.Invert):
            return '(!%s)' % self.expr(e.operand)
        if isinstance(e, ast.Compare) and len(e.ops) == 1 and isinstance(e.comparators[0], ast.Constant) \
                and e.comparators[0].value == 0:
            inner = self.expr(e.left)             # Boolean data: (v != 0) is v, (v == 0) is !v
            if isinstance(e.ops[0], ast.NotEq): return inner
            if isinstance(e.ops[0], ast.Eq): return '(!%s)' % inner
        if isinstance(e, ast.Call):
            f = dotted(e.func)
            a = e.args
            if f == 'np.logical_not' and len(a) == 1: return '(!%s)' % self.expr(a[0])
            two = {'np.logical_and': '&&', 'Qube.and_': '&&', 'np.logical_or': '||', 'Qube.or_': '||',
                   'np.logical_xor': '^^'}
            if f in two and len(a) == 2: return '(%s %s %s)' % (self.expr(a[0]), two[f], self.expr(a[1]))
        raise Untranslatable('expression ' + ast.unparse(e))

    def ctor(self, e):
        if isinstance(e, ast.Call) and dotted(e.func) in ('Qube.BOOLEAN_CLASS', 'Boolean') and 1 <= len(e.args) <= 2:
            v = self.expr(e.args[0])
            m = self.expr(e.args[1]) if len(e.args) == 2 else 'false'
            return (v, m)
        return None

    def block(self, stmts):
        for st in stmts:
            if self.out is not None:
                return
            if isinstance(st, ast.Expr) and isinstance(st.value, ast.Constant):
                continue                                          # docstring
            if isinstance(st, ast.Assign) and len(st.targets) == 1 and isinstance(st.targets[0], ast.Name):
                t = st.targets[0].id
                if t in ('self', 'arg') and isinstance(st.value, ast.Call) and \
                        (dotted(st.value.func) or '').endswith('as_boolean'):
                    continue
                c = self.ctor(st.value)
                if c is not None:
                    if t == 'arg':          # arg = BOOLEAN_CLASS(arg != 0) inside the MaskedArray branch
                        raise Untranslatable('re-binding of arg outside the skipped MaskedArray branch')
                    self.out = c
                    return
                self.env[t] = self.expr(st.value)
                continue
            if isinstance(st, ast.Return):
                c = self.ctor(st.value)
                if c is None:
                    raise Untranslatable('return ' + ast.unparse(st.value))
                self.out = c
                return
            if isinstance(st, ast.If):
                test = st.test
                if isinstance(test, ast.Call) and dotted(test.func) == 'isinstance' and len(test.args) == 2:
                    what = dotted(test.args[1])
                    if what == 'np.ma.MaskedArray':
                        continue                                  # not a modelled operand kind
                    if what == 'Qube' and dotted(test.args[0]) == 'arg':
                        self.block(st.body)                       # modelled operands are Qubes
                        return
                if isinstance(test, ast.Call) and dotted(test.func) == 'Qube.is_one_false' and len(test.args) == 1 \
                        and isinstance(test.args[0], ast.Attribute) and test.args[0].attr == '_mask_' \
                        and isinstance(test.args[0].value, ast.Name) and test.args[0].value.id in FLAG:
                    flag = FLAG[test.args[0].value.id]
                    a, b = Sym(), Sym()
                    a.env, b.env = dict(self.env), dict(self.env)
                    a.block(st.body); b.block(st.orelse)
                    if a.out or b.out:
                        raise Untranslatable('return inside a representation branch')
                    for k in set(a.env) | set(b.env):
                        if a.env.get(k) != b.env.get(k):
                            if k not in a.env or k not in b.env:
                                raise Untranslatable('name %s bound in one branch only' % k)
                            self.env[k] = '(bif %s then %s else %s)' % (flag, a.env[k], b.env[k])
                        else:
                            self.env[k] = a.env[k]
                    continue
            raise Untranslatable('statement ' + ast.unparse(st).split('\n')[0])


def find_func(tree, name, cls=None):
    body = tree.body
    if cls:
        for n in body:
            if isinstance(n, ast.ClassDef) and n.name == cls:
                body = n.body
                break
    for n in body:
        if isinstance(n, ast.FunctionDef) and n.name == name:
            return n
    raise Untranslatable('function %s not found' % name)


TARGETS = [('polymath/extensions/tvl.py', None, 'tvl_and'), ('polymath/extensions/tvl.py', None, 'tvl_or'),
           ('polymath/qube.py', 'Qube', '__and__'), ('polymath/qube.py', 'Qube', '__or__'),
           ('polymath/qube.py', 'Qube', '__xor__'), ('polymath/qube.py', 'Qube', '__invert__')]


def generate(repo):
    defs, errors = [], []
    for path, cls, fn in TARGETS:
        lean_name = fn.strip('_')
        lean_name = {'and': 'strict_and', 'or': 'strict_or', 'xor': 'strict_xor', 'invert': 'strict_not'}.get(lean_name, lean_name)
        try:
            tree = ast.parse(open(os.path.join(repo, path)).read())
            f = find_func(tree, fn, cls)
            s = Sym()
            s.block(f.body)
            if s.out is None:
                raise Untranslatable('no result constructed')
            v, m = s.out
            defs.append('/-- regenerated from %s:%d `%s` -/\ndef %s (sf af sv sm av am : Bool) : Bool × Bool :=\n  (%s,\n   %s)\n'
                        % (path, f.lineno, fn, lean_name, v, m))
        except (Untranslatable, SyntaxError, OSError) as e:
            errors.append('%s:%s: %s' % (path, fn, e))
            # keep the project compiling; the obligation about this function is then unprovable on purpose
            defs.append('/-- NOT TRANSLATABLE (%s): placeholder that fails its obligations -/\n'
                        'def %s (sf af sv sm av am : Bool) : Bool × Bool := (!(sv && av) && (sm == am) != sf, sf != af)\n'
                        % (str(e).replace('-/', '- /'), lean_name))
    src = ('/- GENERATED by harness/c14_py2lean.py from /repo on every run — do not edit. -/\n'
           'set_option linter.unusedVariables false\nnamespace PMV.Gen.Tvl\n\n' + '\n'.join(defs) + '\nend PMV.Gen.Tvl\n')
    return src, errors


def regen(repo, lean_dir):
    src, errors = generate(repo)
    path = os.path.join(lean_dir, 'PMV', 'Gen', 'Tvl.lean')
    os.makedirs(os.path.dirname(path), exist_ok=True)
    if not os.path.exists(path) or open(path).read() != src:
        open(path, 'w').write(src)
    return {'file': 'PMV/Gen/Tvl.lean', 'functions': len(TARGETS), 'untranslatable': errors, 'obligations': 0}


if __name__ == '__main__':
    print(generate(sys.argv[1] if len(sys.argv) > 1 else '/repo')[0])


# ======================================================================================================
# Lane reductions: tvl_any / tvl_all (both mask branches) and Qube.any / Qube.all (array branch).
# Accepted shape of the function body:   if not self._shape_: … elif <mask is a single bool>: SCALAR else: ARRAY
# where SCALAR / ARRAY are straight-line assignments ending in  args = (values, mask).
# Element-wise expressions over self._values_ (v), self._mask_ (m; in the scalar branch the constant b),
# self.antimask, & | ^ ~, np.logical_not/and/or, Qube.or_/and_;  np.any(E, axis=axis) / np.all(E, axis=axis) of an
# element-wise E is a REDUCTION (numbered a0, a1, …); `self._size_ > 0` is the reduction "np.any(True)";
# bool(x), `x and y`, `x or y` and the same operators combine reductions and the scalar mask b.

class RedSym:
    def __init__(self, scalar_branch):
        self.scalar = scalar_branch
        self.env = {}
        self.reds = []          # (kind 'any'|'all', element-wise expr over v m)

    def add_red(self, kind, e):
        key = (kind, e)
        if key not in self.reds:
            self.reds.append(key)
        return ('r', 'a%d' % self.reds.index(key))

    def ev(self, e):
        """returns ('e', expr over v m) element-wise or ('r', expr over a_i and b) reduced"""
        if isinstance(e, ast.Name):
            if e.id in self.env:
                return self.env[e.id]
            raise Untranslatable('unbound name ' + e.id)
        if isinstance(e, ast.Attribute) and isinstance(e.value, ast.Name) and e.value.id == 'self':
            if e.attr == '_values_': return ('e', 'v')
            if e.attr == '_mask_': return ('r', 'b') if self.scalar else ('e', 'm')
            if e.attr == 'antimask': return ('r', '(!b)') if self.scalar else ('e', '(!m)')
            raise Untranslatable('attribute ' + ast.unparse(e))
        if isinstance(e, ast.Compare) and len(e.ops) == 1 and isinstance(e.ops[0], ast.Gt) \
                and ast.unparse(e.left) == 'self._size_' and ast.unparse(e.comparators[0]) == '0':
            return self.add_red('any', 'true')
        if isinstance(e, ast.BoolOp):
            parts = [self.ev(x) for x in e.values]
            if any(k != 'r' for k, _ in parts):
                raise Untranslatable('and/or on arrays')
            op = ' && ' if isinstance(e.op, ast.And) else ' || '
            return ('r', '(' + op.join(x for _, x in parts) + ')')
        if isinstance(e, ast.BinOp) and isinstance(e.op, (ast.BitAnd, ast.BitOr, ast.BitXor)):
            (k1, x), (k2, y) = self.ev(e.left), self.ev(e.right)
            if k1 != k2:
                raise Untranslatable('mixing element-wise and reduced operands: ' + ast.unparse(e))
            op = {ast.BitAnd: '&&', ast.BitOr: '||', ast.BitXor: '^^'}[type(e.op)]
            return (k1, '(%s %s %s)' % (x, op, y))
        if isinstance(e, ast.UnaryOp) and isinstance(e.op, (ast.Invert, ast.Not)):
            k, x = self.ev(e.operand)
            return (k, '(!%s)' % x)
        if isinstance(e, ast.Call):
            f = dotted(e.func)
            if f == 'bool' and len(e.args) == 1:
                return self.ev(e.args[0])
            if f in ('np.any', 'np.all') and len(e.args) == 1 and [k.arg for k in e.keywords] == ['axis']:
                k, x = self.ev(e.args[0])
                if k != 'e':
                    raise Untranslatable('reduction of a reduced value')
                return self.add_red(f[3:], x)
            if f == 'np.logical_not' and len(e.args) == 1:
                k, x = self.ev(e.args[0]); return (k, '(!%s)' % x)
            two = {'np.logical_and': '&&', 'Qube.and_': '&&', 'np.logical_or': '||', 'Qube.or_': '||'}
            if f in two and len(e.args) == 2:
                (k1, x), (k2, y) = self.ev(e.args[0]), self.ev(e.args[1])
                if k1 != k2:
                    raise Untranslatable('mixing element-wise and reduced operands: ' + ast.unparse(e))
                return (k1, '(%s %s %s)' % (x, two[f], y))
        raise Untranslatable('expression ' + ast.unparse(e))

    def run(self, stmts):
        for st in stmts:
            if isinstance(st, ast.Assign) and len(st.targets) == 1 and isinstance(st.targets[0], ast.Name):
                t = st.targets[0].id
                if t == 'args':
                    if not (isinstance(st.value, ast.Tuple) and len(st.value.elts) == 2):
                        raise Untranslatable('args is not a pair')
                    (k1, x), (k2, y) = self.ev(st.value.elts[0]), self.ev(st.value.elts[1])
                    if k1 != 'r' or k2 != 'r':
                        raise Untranslatable('result is not reduced')
                    return (x, y)
                self.env[t] = self.ev(st.value)
                continue
            raise Untranslatable('statement ' + ast.unparse(st).split('\n')[0])
        raise Untranslatable('no args = (values, mask)')


def is_scalar_mask_test(t):
    s = ast.unparse(t)
    return s in ('np.isscalar(self._mask_)', 'isinstance(self._mask_, (bool, np.bool_))', 'isinstance(self._mask_, bool)')


RED_TARGETS = [('polymath/extensions/tvl.py', None, 'tvl_any', 'kor', '.f', True),
               ('polymath/extensions/tvl.py', None, 'tvl_all', 'kand', '.t', True),
               ('polymath/qube.py', 'Qube', 'any', 'ignOr', '.m', False),
               ('polymath/qube.py', 'Qube', 'all', 'ignAnd', '.m', False)]


def gen_reductions(repo):
    out, errors, nobl = [], [], 0
    for path, cls, fn, op, unit, with_scalar in RED_TARGETS:
        try:
            tree = ast.parse(open(os.path.join(repo, path)).read())
            f = find_func(tree, fn, cls)
            top = [st for st in f.body if isinstance(st, ast.If) and ast.unparse(st.test) == 'not self._shape_']
            if len(top) != 1 or len(top[0].orelse) != 1 or not isinstance(top[0].orelse[0], ast.If) \
                    or not is_scalar_mask_test(top[0].orelse[0].test):
                raise Untranslatable('branch structure (shapeless / scalar mask / array mask) not recognised')
            inner = top[0].orelse[0]
            branches = [('arr', False, inner.orelse)] + ([('sca', True, inner.body)] if with_scalar else [])
            for tag, scalar, stmts in branches:
                s = RedSym(scalar)
                val, msk = s.run(stmts)
                n = len(s.reds)
                if not 1 <= n <= 3:
                    raise Untranslatable('%d reductions (supported: 1..3)' % n)
                name = '%s_%s' % (fn, tag)
                barg = '(b : Bool) ' if scalar else ''
                bapp = ' b' if scalar else ''
                avars = ' '.join('a%d' % i for i in range(n))
                lines = ['/-- regenerated from %s:%d `%s`, %s-mask branch -/' % (path, f.lineno, fn, 'scalar' if scalar else 'array')]
                for i, (kind, e) in enumerate(s.reds):
                    lines.append('def %s_p%d (v m : Bool) : Bool := %s' % (name, i, e))
                lines.append('def %s_comb %s(%s : Bool) : Bool × Bool := (%s, %s)' % (name, barg, avars, val, msk))
                ks = ['true' if kind == 'any' else 'false' for kind, _ in s.reds]
                redcalls = ' '.join('(red %s %s_p%d xs)' % (ks[i], name, i) for i in range(n))
                lines.append('def %s %s(xs : List (Bool × Bool)) : Bool × Bool := %s_comb%s %s' % (name, barg, name, bapp, redcalls))
                # obligation: the lane function is the fold of the documented operator, for every lane.
                # The accumulator invariant is the set of REACHABLE accumulator tuples, computed here by closure
                # (finite: 2^n tuples), so that the one-step equation is only demanded where it can be needed.
                def pyexpr(e):
                    return e.replace('&&', ' and ').replace('||', ' or ').replace('^^', ' != ').replace('!', ' not ').replace('true', 'True').replace('false', 'False')
                preds = [pyexpr(e) for _, e in s.reds]
                kinds = [kind for kind, _ in s.reds]

                def reach(bval):
                    init = tuple(k == 'all' for k in kinds)
                    seen, todo = {init}, [init]
                    while todo:
                        acc = todo.pop()
                        for v in (False, True):
                            for m in ((bval,) if scalar else (False, True)):
                                xs = [bool(eval(pe, {'v': v, 'm': m})) for pe in preds]
                                nxt = tuple((x or a) if k == 'any' else (x and a) for x, a, k in zip(xs, acc, kinds))
                                if nxt not in seen:
                                    seen.add(nxt); todo.append(nxt)
                    return sorted(seen)

                def inv(bval):
                    terms = ['(' + ' && '.join('%sa%d' % ('' if t[i] else '!', i) for i in range(n)) + ')' for t in reach(bval)]
                    return '(fun %s => %s)' % (avars, ' || '.join(terms))
                args = ' '.join(ks) + ' ' + ' '.join('%s_p%d' % (name, i) for i in range(n))
                if scalar:
                    body = ('  cases b with\n'
                            '  | false => exact fold%d %s (%s_comb false) %s %s (fun _ m => m == false) %s (by decide) (by decide) xs hP\n'
                            '  | true => exact fold%d %s (%s_comb true) %s %s (fun _ m => m == true) %s (by decide) (by decide) xs hP'
                            % (n, args, name, op, unit, inv(False), n, args, name, op, unit, inv(True)))
                    hyp = '(hP : ∀ c ∈ xs, (c.2 == b) = true) '
                else:
                    body = ('  exact fold%d %s %s_comb %s %s (fun _ _ => true) %s (by decide) (by decide) xs (fun _ _ => rfl)'
                            % (n, args, name, op, unit, inv(None)))
                    hyp = ''
                lines.append('theorem %s_fold %s(xs : List (Bool × Bool)) %s:\n    t3of (%s%s xs) = (xs.map pairT3).foldr %s %s := by\n%s'
                             % (name, barg, hyp, name, bapp, op, unit, body))
                out.append('\n'.join(lines) + '\n')
                nobl += 1
        except (Untranslatable, SyntaxError, OSError) as e:
            errors.append('%s:%s: %s' % (path, fn, e))
            out.append('/-- NOT TRANSLATABLE (%s): an obligation that cannot be proved, so that the tie is reported broken -/\n'
                       'theorem %s_untranslatable : (0 : Nat) = 1 := by decide\n' % (str(e).replace('-/', '- /'), fn))
    src = ('import PMV.Lemmas.RedFold\n/- GENERATED by harness/c14_py2lean.py from /repo on every run — do not edit.\n'
           '   Lane reductions of tvl.py / qube.py with the obligation that each is the fold of its documented operator. -/\n'
           'set_option linter.unusedVariables false\nnamespace PMV.Gen.Red\nopen PMV.Logic3\n\n' + '\n'.join(out) + '\nend PMV.Gen.Red\n')
    return src, errors, nobl


_regen_elementwise = regen


def regen(repo, lean_dir):
    info = _regen_elementwise(repo, lean_dir)
    src, errors, nobl = gen_reductions(repo)
    path = os.path.join(lean_dir, 'PMV', 'Gen', 'TvlRed.lean')
    if not os.path.exists(path) or open(path).read() != src:
        open(path, 'w').write(src)
    info['files'] = [info.pop('file'), 'PMV/Gen/TvlRed.lean']
    info['reduction_branches'] = nobl
    info['untranslatable'] = info['untranslatable'] + errors
    return info


# ======================================================================================================
# Comparisons: Qube.__eq__ / __ne__ (qube.py), Scalar.__lt__ __le__ __gt__ __ge__ (scalar.py) and the mask rule of
# tvl.py `_tvl_op`.  Each is executed symbolically once per REPRESENTATION CONFIGURATION
#     py  : shape (), the comparison of the values is one Python/NumPy scalar, masks are single bools
#     pyb : the same with builtins=False (ordered comparisons only)
#     sca : values with a shape, both masks single bools (their & and ^ are single bools)
#     arr : values with a shape, the combined mask is an array
# into one Boolean function of (c, sm, am): c = the raw comparison of the two items, sm/am = the operands' mask bits at
# the element.  Accepted statements (anything else -> Untranslatable: the tie is reported broken):
#   arg = self._compatible_arg(arg) / Scalar.as_scalar(arg); Units.require_compatible(…); `if …_denom_…: raise`
#   if arg is None: return <True|False>                       -> recorded as the incompatible-operand answer
#   compare = (self._values_ <op> arg._values_)               -> c, <op> recorded
#   if self._rank_: compare = np.all|np.any(compare, axis=…)  -> item reduction recorded (c is then the whole-item compare)
#   x = <mask expression over self._mask_, arg._mask_, antimask, & | ^ ~, and/or/not, Qube.or_/and_, np.logical_*>
#   if np.shape(x) and np.shape(x) != np.shape(compare): x = np.broadcast_to(x, …) …     -> identity on elements
#   if not Units.can_match(…): …                               -> skipped (modelled operands have compatible units)
#   if np.isscalar(compare) [and builtins]: / if np.isscalar(x): / if np.shape(x):  -> decided by the configuration
#   if <mask expression>: <body>                               -> conditional (single-bool masks only)
#   compare.fill(K) ; compare[x] = K ; compare &= <mask expression>
#   result = Qube.BOOLEAN_CLASS(compare) ; result._truth_if_all_|_truth_if_any_ = True ; return result|bool(compare)|K

class CmpSym:
    def __init__(self, cfg):
        self.cfg = cfg                  # 'py' | 'pyb' | 'sca' | 'arr'
        self.meta = {'sym': None, 'itemred': 'none', 'incompat': None, 'truth': 'none'}

    # --- mask / compare expressions
    def ex(self, e, env):
        if isinstance(e, ast.Constant) and isinstance(e.value, bool):
            return 'true' if e.value else 'false'
        if isinstance(e, ast.Name):
            if e.id in env: return env[e.id]
            raise Untranslatable('unbound name ' + e.id)
        if isinstance(e, ast.Attribute) and isinstance(e.value, ast.Name):
            k = (e.value.id, e.attr)
            if k == ('self', '_mask_'): return 'sm'
            if k == ('arg', '_mask_'): return 'am'
            if k == ('self', 'antimask'): return '(!sm)'
            if k == ('arg', 'antimask'): return '(!am)'
            raise Untranslatable('attribute ' + ast.unparse(e))
        if isinstance(e, ast.Compare) and len(e.ops) == 1 and ast.unparse(e.left) == 'self._values_' \
                and ast.unparse(e.comparators[0]) == 'arg._values_':
            sym = {ast.Eq: 'eq', ast.NotEq: 'ne', ast.Lt: 'lt', ast.LtE: 'le', ast.Gt: 'gt', ast.GtE: 'ge'}.get(type(e.ops[0]))
            if sym is None or self.meta['sym'] not in (None, sym):
                raise Untranslatable('comparison ' + ast.unparse(e))
            self.meta['sym'] = sym
            return 'c'
        if isinstance(e, ast.BinOp) and isinstance(e.op, (ast.BitAnd, ast.BitOr, ast.BitXor)):
            op = {ast.BitAnd: '&&', ast.BitOr: '||', ast.BitXor: '^^'}[type(e.op)]
            return '(%s %s %s)' % (self.ex(e.left, env), op, self.ex(e.right, env))
        if isinstance(e, ast.BoolOp):
            if self.cfg == 'arr':
                raise Untranslatable('and/or on array masks')
            op = ' && ' if isinstance(e.op, ast.And) else ' || '
            return '(' + op.join(self.ex(x, env) for x in e.values) + ')'
        if isinstance(e, ast.UnaryOp) and isinstance(e.op, (ast.Invert, ast.Not)):
            return '(!%s)' % self.ex(e.operand, env)
        if isinstance(e, ast.Call):
            f = dotted(e.func)
            if f == 'bool' and len(e.args) == 1: return self.ex(e.args[0], env)
            if f == 'np.logical_not' and len(e.args) == 1: return '(!%s)' % self.ex(e.args[0], env)
            two = {'np.logical_and': '&&', 'Qube.and_': '&&', 'np.logical_or': '||', 'Qube.or_': '||', 'np.logical_xor': '^^'}
            if f in two and len(e.args) == 2:
                return '(%s %s %s)' % (self.ex(e.args[0], env), two[f], self.ex(e.args[1], env))
        raise Untranslatable('expression ' + ast.unparse(e))

    # --- tests decided by the representation configuration: True / False / None (symbolic)
    def static(self, t):
        s = ast.unparse(t)
        scalar_cmp = self.cfg in ('py', 'pyb')
        if s == 'np.isscalar(compare)': return scalar_cmp
        if s == 'np.isscalar(compare) and builtins': return self.cfg == 'py'
        if s.startswith('np.isscalar(') and s.endswith(')') and s[12:-1].isidentifier(): return self.cfg != 'arr'
        if s.startswith('np.shape(') and s.endswith(')') and s[9:-1].isidentifier(): return self.cfg == 'arr'
        return None

    def run(self, stmts, env):
        """-> ('ret', expr) | ('cont', env)"""
        env = dict(env)
        for i, st in enumerate(stmts):
            rest = stmts[i + 1:]
            if isinstance(st, ast.Expr) and isinstance(st.value, ast.Constant):
                continue
            if isinstance(st, ast.Expr) and isinstance(st.value, ast.Call):
                f = dotted(st.value.func)
                if f == 'Units.require_compatible':
                    continue
                if f == 'compare.fill' and len(st.value.args) == 1:
                    env['compare'] = self.ex(st.value.args[0], env)
                    continue
                raise Untranslatable('call ' + ast.unparse(st))
            if isinstance(st, ast.Assign) and len(st.targets) == 1:
                t, v = st.targets[0], st.value
                if isinstance(t, ast.Name):
                    if t.id == 'arg' and isinstance(v, ast.Call) and dotted(v.func) in ('self._compatible_arg', 'Scalar.as_scalar'):
                        continue
                    if t.id == 'result' and isinstance(v, ast.Call) and dotted(v.func) in ('Qube.BOOLEAN_CLASS', 'Boolean') \
                            and len(v.args) == 1:
                        env['result'] = self.ex(v.args[0], env)
                        continue
                    env[t.id] = self.ex(v, env)
                    continue
                if isinstance(t, ast.Attribute) and ast.unparse(t) in ('result._truth_if_all_', 'result._truth_if_any_') \
                        and isinstance(v, ast.Constant) and v.value is True:
                    self.meta['truth'] = 'ifAll' if t.attr == '_truth_if_all_' else 'ifAny'
                    continue
                if isinstance(t, ast.Subscript) and ast.unparse(t.value) == 'compare' and self.cfg == 'arr':
                    env['compare'] = '(bif %s then %s else %s)' % (self.ex(t.slice, env), self.ex(v, env), env['compare'])
                    continue
                raise Untranslatable('assignment ' + ast.unparse(st))
            if isinstance(st, ast.AugAssign) and isinstance(st.target, ast.Name) and isinstance(st.op, (ast.BitAnd, ast.BitOr)):
                op = '&&' if isinstance(st.op, ast.BitAnd) else '||'
                env[st.target.id] = '(%s %s %s)' % (env[st.target.id], op, self.ex(st.value, env))
                continue
            if isinstance(st, ast.Return):
                v = st.value
                if isinstance(v, ast.Name) and v.id == 'result':
                    return ('ret', env['result'])
                return ('ret', self.ex(v, env))
            if isinstance(st, ast.If):
                s = ast.unparse(st.test)
                if s == 'arg is None':
                    if not (len(st.body) == 1 and isinstance(st.body[0], ast.Return) and isinstance(st.body[0].value, ast.Constant)
                            and isinstance(st.body[0].value.value, bool)) or st.orelse:
                        raise Untranslatable('incompatible-operand exit')
                    self.meta['incompat'] = st.body[0].value.value
                    continue
                if s == 'self._rank_':
                    b = st.body
                    if len(b) == 1 and isinstance(b[0], ast.Assign) and ast.unparse(b[0].targets[0]) == 'compare' \
                            and isinstance(b[0].value, ast.Call) and dotted(b[0].value.func) in ('np.all', 'np.any') \
                            and ast.unparse(b[0].value.args[0]) == 'compare' and not st.orelse:
                        self.meta['itemred'] = dotted(b[0].value.func)[3:]
                        continue
                    raise Untranslatable('item reduction')
                if s.startswith('not Units.can_match(') and not st.orelse:
                    continue
                if ('_denom_' in s) and len(st.body) == 1 and isinstance(st.body[0], ast.Raise) and not st.orelse:
                    continue
                if ' != np.shape(compare)' in s and s.startswith('np.shape('):
                    for b in st.body:
                        if not (isinstance(b, ast.Assign) and isinstance(b.value, ast.Call) and dotted(b.value.func) == 'np.broadcast_to'
                                and ast.unparse(b.targets[0]) == ast.unparse(b.value.args[0])):
                            raise Untranslatable('broadcast fix-up ' + ast.unparse(b))
                    if st.orelse: raise Untranslatable('broadcast fix-up with else')
                    continue
                dec = self.static(st.test)
                if dec is not None:
                    r = self.run((st.body if dec else st.orelse) + rest, env)
                    return r
                # symbolic condition on single-bool masks
                if self.cfg == 'arr':
                    raise Untranslatable('truth value of an array mask: ' + s)
                cond = self.ex(st.test, env)
                ra = self.run(st.body + rest, env)
                rb = self.run(st.orelse + rest, env)
                if ra[0] != 'ret' or rb[0] != 'ret':
                    raise Untranslatable('path without a return')
                return ('ret', '(bif %s then %s else %s)' % (cond, ra[1], rb[1]))
            raise Untranslatable('statement ' + ast.unparse(st).split('\n')[0])
        return ('cont', env)


CMP_TARGETS = [('polymath/qube.py', 'Qube', '__eq__', 'eq', ('py', 'sca', 'arr')),
               ('polymath/qube.py', 'Qube', '__ne__', 'ne', ('py', 'sca', 'arr')),
               ('polymath/scalar.py', 'Scalar', '__lt__', 'lt', ('py', 'pyb', 'sca', 'arr')),
               ('polymath/scalar.py', 'Scalar', '__le__', 'le', ('py', 'pyb', 'sca', 'arr')),
               ('polymath/scalar.py', 'Scalar', '__gt__', 'gt', ('py', 'pyb', 'sca', 'arr')),
               ('polymath/scalar.py', 'Scalar', '__ge__', 'ge', ('py', 'pyb', 'sca', 'arr'))]
ALL_CFG = ('py', 'pyb', 'sca', 'arr')


def tvl_mask_rule(repo):
    """mask handed to comparison._set_mask_ on the element-wise path of tvl.py `_tvl_op`"""
    tree = ast.parse(open(os.path.join(repo, 'polymath/extensions/tvl.py')).read())
    f = find_func(tree, '_tvl_op')
    s = CmpSym('arr')
    env = {}
    out = None
    for st in f.body:
        if isinstance(st, ast.Expr) and isinstance(st.value, ast.Constant):
            continue
        if isinstance(st, ast.If):
            t = ast.unparse(st.test)
            if t == 'isinstance(arg, Qube)':
                if not (len(st.body) == 1 and isinstance(st.body[0], ast.Assign) and ast.unparse(st.body[0].targets[0]) == 'arg_mask'):
                    raise Untranslatable('arg_mask binding')
                env['arg_mask'] = s.ex(st.body[0].value, env)
                continue
            if t == 'isinstance(comparison, bool)':
                continue            # single truth value (shape () / incompatible operands): covered by T1 only
            if ' != comparison._shape_' in t and t.startswith('np.shape('):
                for b in st.body:
                    if not (isinstance(b, ast.Assign) and isinstance(b.value, ast.Call) and dotted(b.value.func) == 'np.broadcast_to'
                            and ast.unparse(b.targets[0]) == ast.unparse(b.value.args[0])):
                        raise Untranslatable('broadcast fix-up ' + ast.unparse(b))
                continue
            raise Untranslatable('statement ' + t)
        if isinstance(st, ast.Assign) and len(st.targets) == 1 and isinstance(st.targets[0], ast.Name):
            env[st.targets[0].id] = s.ex(st.value, env)
            continue
        if isinstance(st, ast.Expr) and isinstance(st.value, ast.Call) and dotted(st.value.func) == 'comparison._set_mask_' \
                and len(st.value.args) == 1:
            out = s.ex(st.value.args[0], env)
            continue
        if isinstance(st, ast.Return) and ast.unparse(st.value) == 'comparison':
            break
        raise Untranslatable('statement ' + ast.unparse(st).split('\n')[0])
    if out is None:
        raise Untranslatable('no comparison._set_mask_(…)')
    return out, f.lineno


def gen_comparisons(repo):
    out, errors = [], []
    for path, cls, fn, name, cfgs in CMP_TARGETS:
        try:
            tree = ast.parse(open(os.path.join(repo, path)).read())
            f = find_func(tree, fn, cls)
            exprs, metas = {}, []
            for cfg in cfgs:
                s = CmpSym(cfg)
                r = s.run(f.body, {})
                if r[0] != 'ret':
                    raise Untranslatable('no return on configuration ' + cfg)
                exprs[cfg] = r[1]
                metas.append(s.meta)
            # a Python bool (configuration py) carries no truth flag; every object-returning configuration must set the same one
            objm = [mm for cfg, mm in zip(cfgs, metas) if cfg != 'py']
            if any({k: v for k, v in mm.items() if k != 'truth'} != {k: v for k, v in metas[0].items() if k != 'truth'} for mm in metas) \
                    or any(mm['truth'] != objm[0]['truth'] for mm in objm):
                raise Untranslatable('configurations disagree on operator / item reduction / truth flag')
            m = objm[0]
            if m['sym'] is None:
                raise Untranslatable('no comparison of the values found')
            lines = ['/-- regenerated from %s:%d `%s` -/' % (path, f.lineno, fn),
                     'def %s_sym : CmpOp := .%s' % (name, m['sym']),
                     'def %s_itemred : ItemRed := .%s' % (name, m['itemred']),
                     'def %s_truth : TruthFlag := .%s' % (name, m['truth']),
                     'def %s_incompat : Option Bool := %s' % (name, 'none' if m['incompat'] is None else 'some ' + str(m['incompat']).lower())]
            for cfg in ALL_CFG:
                e = exprs.get(cfg, exprs['py'] if cfg == 'pyb' else None)
                lines.append('def %s_%s (c sm am : Bool) : Bool := %s' % (name, cfg, e))
            out.append('\n'.join(lines) + '\n')
        except (Untranslatable, SyntaxError, OSError, KeyError) as e:
            errors.append('%s:%s: %s' % (path, fn, e))
            lines = ['/-- NOT TRANSLATABLE (%s): placeholders that fail their obligations -/' % str(e).replace('-/', '- /'),
                     'def %s_sym : CmpOp := .%s' % (name, 'ne' if name == 'eq' else 'eq'),
                     'def %s_itemred : ItemRed := .none' % name, 'def %s_truth : TruthFlag := .none' % name,
                     'def %s_incompat : Option Bool := none' % name]
            for cfg in ALL_CFG:
                lines.append('def %s_%s (c sm am : Bool) : Bool := (c ^^ sm) ^^ am' % (name, cfg))
            out.append('\n'.join(lines) + '\n')
    try:
        e, ln = tvl_mask_rule(repo)
        out.append('/-- regenerated from polymath/extensions/tvl.py:%d `_tvl_op`: the mask given to the comparison (element-wise path) -/\n'
                   'def tvl_mask (sm am : Bool) : Bool := %s\n' % (ln, e))
    except (Untranslatable, SyntaxError, OSError, KeyError) as e:
        errors.append('polymath/extensions/tvl.py:_tvl_op: %s' % e)
        out.append('/-- NOT TRANSLATABLE (%s) -/\ndef tvl_mask (sm am : Bool) : Bool := !(sm || am)\n' % str(e).replace('-/', '- /'))
    src = ('import PMV.Model.CmpMeta\n/- GENERATED by harness/c14_py2lean.py from /repo on every run — do not edit.\n'
           '   ==, !=, <, <=, >, >= as Boolean functions of (raw comparison c, mask bits sm am), one per representation\n'
           '   configuration (py: shape () -> Python bool; pyb: shape (), builtins=False; sca: single-bool masks; arr: array mask). -/\n'
           'set_option linter.unusedVariables false\nnamespace PMV.Gen.Cmp\nopen PMV.Logic3\n\n' + '\n'.join(out) + '\nend PMV.Gen.Cmp\n')
    return src, errors


_regen_2 = regen


def regen(repo, lean_dir):
    info = _regen_2(repo, lean_dir)
    src, errors = gen_comparisons(repo)
    path = os.path.join(lean_dir, 'PMV', 'Gen', 'Cmp.lean')
    if not os.path.exists(path) or open(path).read() != src:
        open(path, 'w').write(src)
    info['files'].append('PMV/Gen/Cmp.lean')
    info['comparison_functions'] = len(CMP_TARGETS) + 1
    info['untranslatable'] = info['untranslatable'] + errors
    return info


# ======================================================================================================
# Truth testing: Qube.__bool__ as a decision list over (truth_if_all, truth_if_any, has a shape, single mask is True).
# Accepted: a sequence of `if <flag>: return bool(np.all|np.any(self.as_mask_where_nonzero()))` / `if <flag>: raise ValueError(…)`
# with <flag> one of self._truth_if_all_, self._truth_if_any_, self._shape_, self._mask_, closed by a return of the same form.

BOOL_FLAGS = {'self._truth_if_all_': 'tAll', 'self._truth_if_any_': 'tAny', 'self._shape_': 'shaped', 'self._mask_': 'masked'}


def gen_bool(repo):
    try:
        tree = ast.parse(open(os.path.join(repo, 'polymath/qube.py')).read())
        f = find_func(tree, '__bool__', 'Qube')

        def outcome(st):
            if isinstance(st, ast.Raise) and isinstance(st.exc, ast.Call) and dotted(st.exc.func) == 'ValueError':
                return '.raises'
            if isinstance(st, ast.Return):
                s = ast.unparse(st.value)
                if s == 'bool(np.all(self.as_mask_where_nonzero()))': return '.allNonzero'
                if s == 'bool(np.any(self.as_mask_where_nonzero()))': return '.anyNonzero'
            raise Untranslatable('outcome ' + ast.unparse(st).split('\n')[0])
        expr, closed = [], None
        for st in f.body:
            if isinstance(st, ast.Expr) and isinstance(st.value, ast.Constant):
                continue
            if isinstance(st, ast.If) and not st.orelse and len(st.body) == 1 and ast.unparse(st.test) in BOOL_FLAGS:
                expr.append((BOOL_FLAGS[ast.unparse(st.test)], outcome(st.body[0])))
                continue
            closed = outcome(st)
            break
        if closed is None:
            raise Untranslatable('no closing return')
        body = closed
        for flag, o in reversed(expr):
            body = '(bif %s then %s else %s)' % (flag, o, body)
        d = '/-- regenerated from polymath/qube.py:%d `__bool__` -/\ndef bool_gen (tAll tAny shaped masked : Bool) : BoolOut := %s\n' % (f.lineno, body)
        return d, []
    except (Untranslatable, SyntaxError, OSError) as e:
        return ('/-- NOT TRANSLATABLE (%s): placeholder that fails its obligation -/\n'
                'def bool_gen (tAll tAny shaped masked : Bool) : BoolOut := .raises\n' % str(e).replace('-/', '- /')), ['polymath/qube.py:__bool__: %s' % e]


_gen_comparisons_0 = gen_comparisons


def gen_comparisons(repo):
    src, errors = _gen_comparisons_0(repo)
    d, e2 = gen_bool(repo)
    return src.replace('\nend PMV.Gen.Cmp\n', '\n' + d + '\nend PMV.Gen.Cmp\n'), errors + e2


# ======================================================================================================
# Qube._compatible_arg: which tests decide "cannot be equal" for operands of the same class, in order.
# Accepted: `if not isinstance(arg, type(self)): <conversion attempt>` with an `else:` holding a sequence of
# `if <test>: return None`, then `try: (self, arg) = Qube.broadcast(self, arg) except ValueError: return None`, `return arg`.

COMPAT_TESTS = {'not Units.can_match(self._units_, arg._units_)': '.units', 'self._item_ != arg._item_': '.item'}


def gen_compat(repo):
    try:
        tree = ast.parse(open(os.path.join(repo, 'polymath/qube.py')).read())
        f = find_func(tree, '_compatible_arg', 'Qube')
        checks = []
        body = [st for st in f.body if not (isinstance(st, ast.Expr) and isinstance(st.value, ast.Constant))]
        if len(body) != 3 or not isinstance(body[0], ast.If) or ast.unparse(body[0].test) != 'not isinstance(arg, type(self))':
            raise Untranslatable('top-level structure')
        for st in body[0].orelse:
            if isinstance(st, ast.If) and not st.orelse and len(st.body) == 1 and isinstance(st.body[0], ast.Return) \
                    and ast.unparse(st.body[0].value) == 'None' and ast.unparse(st.test) in COMPAT_TESTS:
                checks.append(COMPAT_TESTS[ast.unparse(st.test)])
            else:
                raise Untranslatable('same-class test ' + ast.unparse(st).split('\n')[0])
        t = body[1]
        if not (isinstance(t, ast.Try) and len(t.body) == 1 and ast.unparse(t.body[0]) in ('(self, arg) = Qube.broadcast(self, arg)', 'self, arg = Qube.broadcast(self, arg)')
                and len(t.handlers) == 1 and ast.unparse(t.handlers[0].type) == 'ValueError'
                and len(t.handlers[0].body) == 1 and ast.unparse(t.handlers[0].body[0]) == 'return None'
                and not t.orelse and not t.finalbody):
            raise Untranslatable('broadcast test')
        checks.append('.broadcast')
        if not (isinstance(body[2], ast.Return) and ast.unparse(body[2].value) == 'arg'):
            raise Untranslatable('final return')
        return ('/-- regenerated from polymath/qube.py:%d `_compatible_arg` (operands of one class): the tests that answer "cannot be equal" -/\n'
                'def compat_checks : List CompatCheck := [%s]\n' % (f.lineno, ', '.join(checks))), []
    except (Untranslatable, SyntaxError, OSError) as e:
        return ('/-- NOT TRANSLATABLE (%s): placeholder that fails its obligation -/\ndef compat_checks : List CompatCheck := []\n'
                % str(e).replace('-/', '- /')), ['polymath/qube.py:_compatible_arg: %s' % e]


_gen_comparisons_1 = gen_comparisons


def gen_comparisons(repo):
    src, errors = _gen_comparisons_1(repo)
    d, e2 = gen_compat(repo)
    return src.replace('\nend PMV.Gen.Cmp\n', '\n' + d + '\nend PMV.Gen.Cmp\n'), errors + e2
