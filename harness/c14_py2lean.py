"""T2 tie for C14: regenerate, from /repo's current source, the per-element Boolean functions computed by
tvl_and / tvl_or (polymath/extensions/tvl.py) and by the strict operators & | ^ ~ (polymath/qube.py), by symbolic
execution of their straight-line bodies, and write them as Lean definitions in lean/PMV/Gen/Tvl.lean.
The theorems of lean/PMV/Props/C14Gen.lean (truth tables, closed by `decide`) are then re-checked against what the
code says now.

Accepted Python subset (anything else -> Untranslatable, reported as a broken tie, never skipped silently):
  x = <expr>           with <expr> built from  & | ^ ~,  np.logical_not(e), np.logical_and/or/xor(e,f),
                       Qube.and_(e,f), Qube.or_(e,f), (e != 0), (e == 0),
                       self._values_, self._mask_, self.antimask, arg._values_, arg._mask_, arg.antimask
  self = Qube.BOOLEAN_CLASS.as_boolean(self)   (identity on Boolean operands; the harness only sends Booleans)
  if Qube.is_one_false(<obj>._mask_): … else: …   -> case split on the representation flag of <obj>
  if isinstance(arg, np.ma.MaskedArray): …        -> skipped (the modelled operands are Qubes)
  if isinstance(arg, Qube): return BOOLEAN_CLASS(v, m)   -> the modelled branch
  result = Qube.BOOLEAN_CLASS(v, m)  /  return Qube.BOOLEAN_CLASS(v, m)   -> output
"""
import ast, os, sys

class Untranslatable(Exception):
    pass

LEAVES = {('self', '_values_'): 'sv', ('self', '_mask_'): 'sm', ('arg', '_values_'): 'av', ('arg', '_mask_'): 'am'}
ANTI = {('self', 'antimask'): '(!sm)', ('arg', 'antimask'): '(!am)'}
FLAG = {'self': 'sf', 'arg': 'af'}


def dotted(n):
    if isinstance(n, ast.Name):
        return n.id
    if isinstance(n, ast.Attribute):
        return dotted(n.value) + '.' + n.attr
    return None


class Sym:
    def __init__(self):
        self.env = {}
        self.out = None

    def expr(self, e):
        if isinstance(e, ast.Name):
            if e.id in self.env:
                return self.env[e.id]
            raise Untranslatable('unbound name ' + e.id)
        if isinstance(e, ast.Attribute) and isinstance(e.value, ast.Name):
            k = (e.value.id, e.attr)
            if k in LEAVES: return LEAVES[k]
            if k in ANTI: return ANTI[k]
            raise Untranslatable('attribute ' + ast.unparse(e))
        if isinstance(e, ast.BinOp) and isinstance(e.op, (ast.BitAnd, ast.BitOr, ast.BitXor)):
            op = {ast.BitAnd: '&&', ast.BitOr: '||', ast.BitXor: '^^'}[type(e.op)]
            return '(%s %s %s)' % (self.expr(e.left), op, self.expr(e.right))
        if isinstance(e, ast.UnaryOp) and isinstance(e.op, ast.Invert):
            return '(!%s)' % self.expr(e.operand)
        if isinstance(e, ast.Compare) and len(e.ops) == 1 and isinstance(e.comparators[0], ast.Constant) \
                and e.comparators[0].value == 0:
            inner = self.expr(e.left)             # Boolean data: (v != 0) is v, (v == 0) is !v
            if isinstance(e.ops[0], ast.NotEq): return inner
            if isinstance(e.ops[0], ast.Eq): return '(!%s)' % inner
        if isinstance(e, ast.Call):
            f = dotted(e.func)
            a = e.args
            if f == 'np.logical_not' and len(a) == 1: return '(!%s)' % self.expr(a[0])
            two = {'np.logical_and': '&&', 'Qube.and_': '&&', 'np.logical_or': '||', 'Qube.or_': '||',
                   'np.logical_xor': '^^'}
            if f in two and len(a) == 2: return '(%s %s %s)' % (self.expr(a[0]), two[f], self.expr(a[1]))
        raise Untranslatable('expression ' + ast.unparse(e))

    def ctor(self, e):
        if isinstance(e, ast.Call) and dotted(e.func) in ('Qube.BOOLEAN_CLASS', 'Boolean') and 1 <= len(e.args) <= 2:
            v = self.expr(e.args[0])
            m = self.expr(e.args[1]) if len(e.args) == 2 else 'false'
            return (v, m)
        return None

    def block(self, stmts):
        for st in stmts:
            if self.out is not None:
                return
            if isinstance(st, ast.Expr) and isinstance(st.value, ast.Constant):
                continue                                          # docstring
            if isinstance(st, ast.Assign) and len(st.targets) == 1 and isinstance(st.targets[0], ast.Name):
                t = st.targets[0].id
                if t in ('self', 'arg') and isinstance(st.value, ast.Call) and \
                        (dotted(st.value.func) or '').endswith('as_boolean'):
                    continue
                c = self.ctor(st.value)
                if c is not None:
                    if t == 'arg':          # arg = BOOLEAN_CLASS(arg != 0) inside the MaskedArray branch
                        raise Untranslatable('re-binding of arg outside the skipped MaskedArray branch')
                    self.out = c
                    return
                self.env[t] = self.expr(st.value)
                continue
            if isinstance(st, ast.Return):
                c = self.ctor(st.value)
                if c is None:
                    raise Untranslatable('return ' + ast.unparse(st.value))
                self.out = c
                return
            if isinstance(st, ast.If):
                test = st.test
                if isinstance(test, ast.Call) and dotted(test.func) == 'isinstance' and len(test.args) == 2:
                    what = dotted(test.args[1])
                    if what == 'np.ma.MaskedArray':
                        continue                                  # not a modelled operand kind
                    if what == 'Qube' and dotted(test.args[0]) == 'arg':
                        self.block(st.body)                       # modelled operands are Qubes
                        return
                if isinstance(test, ast.Call) and dotted(test.func) == 'Qube.is_one_false' and len(test.args) == 1 \
                        and isinstance(test.args[0], ast.Attribute) and test.args[0].attr == '_mask_' \
                        and isinstance(test.args[0].value, ast.Name) and test.args[0].value.id in FLAG:
                    flag = FLAG[test.args[0].value.id]
                    a, b = Sym(), Sym()
                    a.env, b.env = dict(self.env), dict(self.env)
                    a.block(st.body); b.block(st.orelse)
                    if a.out or b.out:
                        raise Untranslatable('return inside a representation branch')
                    for k in set(a.env) | set(b.env):
                        if a.env.get(k) != b.env.get(k):
                            if k not in a.env or k not in b.env:
                                raise Untranslatable('name %s bound in one branch only' % k)
                            self.env[k] = '(bif %s then %s else %s)' % (flag, a.env[k], b.env[k])
                        else:
                            self.env[k] = a.env[k]
                    continue
            raise Untranslatable('statement ' + ast.unparse(st).split('\n')[0])


def find_func(tree, name, cls=None):
    body = tree.body
    if cls:
        for n in body:
            if isinstance(n, ast.ClassDef) and n.name == cls:
                body = n.body
                break
    for n in body:
        if isinstance(n, ast.FunctionDef) and n.name == name:
            return n
    raise Untranslatable('function %s not found' % name)


TARGETS = [('polymath/extensions/tvl.py', None, 'tvl_and'), ('polymath/extensions/tvl.py', None, 'tvl_or'),
           ('polymath/qube.py', 'Qube', '__and__'), ('polymath/qube.py', 'Qube', '__or__'),
           ('polymath/qube.py', 'Qube', '__xor__'), ('polymath/qube.py', 'Qube', '__invert__')]


def generate(repo):
    defs, errors = [], []
    for path, cls, fn in TARGETS:
        lean_name = fn.strip('_')
        lean_name = {'and': 'strict_and', 'or': 'strict_or', 'xor': 'strict_xor', 'invert': 'strict_not'}.get(lean_name, lean_name)
        try:
            tree = ast.parse(open(os.path.join(repo, path)).read())
            f = find_func(tree, fn, cls)
            s = Sym()
            s.block(f.body)
            if s.out is None:
                raise Untranslatable('no result constructed')
            v, m = s.out
            defs.append('/-- regenerated from %s:%d `%s` -/\ndef %s (sf af sv sm av am : Bool) : Bool × Bool :=\n  (%s,\n   %s)\n'
                        % (path, f.lineno, fn, lean_name, v, m))
        except (Untranslatable, SyntaxError, OSError) as e:
            errors.append('%s:%s: %s' % (path, fn, e))
            # keep the project compiling; the obligation about this function is then unprovable on purpose
            defs.append('/-- NOT TRANSLATABLE (%s): placeholder that fails its obligations -/\n'
                        'def %s (sf af sv sm av am : Bool) : Bool × Bool := (!(sv && av) && (sm == am) != sf, sf != af)\n'
                        % (str(e).replace('-/', '- /'), lean_name))
    src = ('/- GENERATED by harness/c14_py2lean.py from /repo on every run — do not edit. -/\n'
           'set_option linter.unusedVariables false\nnamespace PMV.Gen.Tvl\n\n' + '\n'.join(defs) + '\nend PMV.Gen.Tvl\n')
    return src, errors


def regen(repo, lean_dir):
    src, errors = generate(repo)
    path = os.path.join(lean_dir, 'PMV', 'Gen', 'Tvl.lean')
    os.makedirs(os.path.dirname(path), exist_ok=True)
    if not os.path.exists(path) or open(path).read() != src:
        open(path, 'w').write(src)
    return {'file': 'PMV/Gen/Tvl.lean', 'functions': len(TARGETS), 'untranslatable': errors, 'obligations': 0}


if __name__ == '__main__':
    print(generate(sys.argv[1] if len(sys.argv) > 1 else '/repo')[0])
