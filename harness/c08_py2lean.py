"""C08 / T2 translator: guard-before-write table of every public mutator, from the source, with Python's `ast`.

For every mutator method of the library (item assignment, every in-place operator, set_units, delete_deriv(s),
insert_deriv(s); found by name in every class body of polymath/*.py and in the extension modules that are attached to
Qube) every control-flow path through the body is enumerated (if/else both ways, loop bodies zero or one time,
try bodies with and without the handlers) and abstracted to the ordered list of *events* that matter for C08:

    guard              self.require_writable()
    roGuard(other..)   `if <self.readonly | self._readonly_> and c1 and c2 ...: raise`, not taken; `other` = the c_i,
                       normalised to  keyPresent | notOverride | other:<src>
    raise              a `raise` statement or a call of a helper that always raises (Qube._raise_*); ends the path
    write(target)      assignment / augmented assignment / del / setattr / delattr whose target is an attribute or an
                       element of `self` (`_cache_` excluded: clearing the cache is not a change of state)
    call(m)            a call  self.m(...) / super().m(...) / Qube.m(self, ...)  of another method of the table, or an item
                       assignment into one of self's derivative objects (which is `__setitem__` of that object)
    ret                return / end of body

and the path condition is kept as far as it mentions `override` (truthy / falsy / unknown).

The Lean side (PMV/Props/C08.lean, `guards_ok`) closes by `decide` the obligation: on every path on which `override`
is not known to be truthy, the first event that is not `ret` is guard, roGuard (with only the documented exemptions),
raise, or a call of a table method --- never a bare write.

The translator and the syntax subset it understands are part of the trusted base.  Anything it cannot classify is
emitted as an `unknown(<src>)` event, which the Lean predicate treats like a write (fails closed).
"""
import ast, os, sys

INPLACE = ['__iadd__', '__isub__', '__imul__', '__itruediv__', '__idiv__', '__ifloordiv__', '__imod__', '__ipow__',
           '__iand__', '__ior__', '__ixor__', '__ilshift__', '__irshift__', '__imatmul__']
MUTATORS = ['__setitem__'] + INPLACE + ['set_units', 'delete_deriv', 'delete_derivs', 'insert_deriv', 'insert_derivs']
MAX_PATHS = 4000


def repo_root():
    return os.environ.get('PMV_REPO') or '/repo'


def find_methods(root):
    """[(owner, name, FunctionDef, file, self-name)] for every mutator definition"""
    res = []
    pdir = os.path.join(root, 'polymath')
    files = sorted(f for f in os.listdir(pdir) if f.endswith('.py'))
    for f in files:
        tree = ast.parse(open(os.path.join(pdir, f)).read())
        for node in tree.body:
            if isinstance(node, ast.ClassDef):
                for sub in node.body:
                    if isinstance(sub, ast.FunctionDef) and sub.name in MUTATORS:
                        res.append((node.name, sub.name, sub, 'polymath/' + f))
    edir = os.path.join(pdir, 'extensions')
    # which extension functions are attached to Qube, and under which name
    attached = {}
    init = ast.parse(open(os.path.join(edir, '__init__.py')).read())
    for node in init.body:
        if isinstance(node, ast.Assign) and len(node.targets) == 1 and isinstance(node.targets[0], ast.Attribute) \
                and isinstance(node.targets[0].value, ast.Name) and node.targets[0].value.id == 'Qube' \
                and isinstance(node.value, ast.Attribute) and isinstance(node.value.value, ast.Name):
            attached[(node.value.value.id, node.value.attr)] = node.targets[0].attr
    for f in sorted(x for x in os.listdir(edir) if x.endswith('.py') and x != '__init__.py'):
        tree = ast.parse(open(os.path.join(edir, f)).read())
        for node in tree.body:
            if isinstance(node, ast.FunctionDef):
                name = attached.get((f[:-3], node.name))
                if name in MUTATORS:
                    res.append(('Qube', name, node, 'polymath/extensions/' + f))
    return res


def src(node):
    try:
        return ast.unparse(node)
    except Exception:
        return '?'


class Walker:
    def __init__(self, fn):
        self.fn = fn
        self.selfname = fn.args.args[0].arg if fn.args.args else 'self'
        self.paths = []
        # names bound to derivative objects of self:  for key, d in self._derivs_.items()
        self.deriv_names = set()

    # ---- classification helpers
    def is_self(self, n):
        return isinstance(n, ast.Name) and n.id == self.selfname

    def rooted_in_self(self, n):
        """target expression is an attribute / element reached from `self`"""
        while isinstance(n, (ast.Attribute, ast.Subscript)):
            n = n.value
        return self.is_self(n)

    def root_attr(self, n):
        """first attribute below self in a target chain"""
        last = None
        while isinstance(n, (ast.Attribute, ast.Subscript)):
            if isinstance(n, ast.Attribute) and self.is_self(n.value):
                last = n.attr
            n = n.value
        return last

    def is_ro_test(self, n):
        return isinstance(n, ast.Attribute) and self.is_self(n.value) and n.attr in ('readonly', '_readonly_')

    def norm_cond(self, n):
        s = src(n)
        if isinstance(n, ast.UnaryOp) and isinstance(n.op, ast.Not) and isinstance(n.operand, ast.Name) \
                and n.operand.id == 'override':
            return 'notOverride'
        if isinstance(n, ast.Compare) and len(n.ops) == 1 and isinstance(n.ops[0], ast.In) \
                and self.rooted_in_self(n.comparators[0]) and self.root_attr(n.comparators[0]) == '_derivs_':
            return 'keyPresent'
        return 'other:' + s

    def always_raises(self, body):
        return len(body) >= 1 and self.stmt_raises(body[-1]) and all(
            isinstance(s, (ast.Expr, ast.Assign)) or self.stmt_raises(s) for s in body)

    def stmt_raises(self, s):
        if isinstance(s, ast.Raise):
            return True
        if isinstance(s, ast.Expr) and isinstance(s.value, ast.Call):
            f = s.value.func
            if isinstance(f, ast.Attribute) and (f.attr.startswith('_raise_') or f.attr.startswith('raise_')):
                return True
        return False

    # ---- events of an expression (calls only)
    def expr_events(self, e):
        evs = []
        for n in ast.walk(e) if e is not None else []:
            if isinstance(n, ast.Call):
                f = n.func
                if isinstance(f, ast.Attribute):
                    if self.is_self(f.value) and f.attr == 'require_writable':
                        evs.append(('guard',))
                    elif f.attr in MUTATORS and (self.is_self(f.value)
                                                 or (isinstance(f.value, ast.Call) and isinstance(f.value.func, ast.Name)
                                                     and f.value.func.id == 'super')
                                                 or (isinstance(f.value, ast.Name) and n.args and self.is_self(n.args[0]))):
                        evs.append(('call', f.attr))
                    elif f.attr in ('clear', 'fill', 'pop', 'update', 'append', 'sort', 'resize', 'setflags', 'itemset', 'put') \
                            and self.rooted_in_self(f.value) and self.root_attr(f) not in (None, '_cache_'):
                        evs.append(('write', self.root_attr(f) + '.' + f.attr + '()'))
                elif isinstance(f, ast.Name) and f.id in ('setattr', 'delattr') and n.args and self.is_self(n.args[0]):
                    evs.append(('write', f.id))
        return evs

    def target_events(self, t):
        if isinstance(t, (ast.Tuple, ast.List)):
            return [e for x in t.elts for e in self.target_events(x)]
        if isinstance(t, ast.Name):
            return []
        if self.rooted_in_self(t):
            a = self.root_attr(t)
            if a == '_cache_':
                return []
            return [('write', a or src(t))]
        # item assignment into a derivative object of self is __setitem__ of that object
        if isinstance(t, ast.Subscript) and isinstance(t.value, ast.Name) and t.value.id in self.deriv_names:
            return [('call', '__setitem__')]
        if isinstance(t, (ast.Attribute, ast.Subscript)):
            root = t
            while isinstance(root, (ast.Attribute, ast.Subscript)):
                root = root.value
            if isinstance(root, ast.Name) and root.id in self.locals_from_self:
                return [('write', 'alias:' + src(t))]
        return []

    # ---- path enumeration: a path is (events, override-knowledge, finished)
    def run(self):
        self.locals_from_self = set()
        for n in ast.walk(self.fn):
            # for key, d in self._derivs_.items(): d is a derivative object of self
            if isinstance(n, ast.For) and isinstance(n.iter, ast.Call) and isinstance(n.iter.func, ast.Attribute) \
                    and n.iter.func.attr == 'items' and self.rooted_in_self(n.iter.func.value) \
                    and self.root_attr(n.iter.func) == '_derivs_' and isinstance(n.target, ast.Tuple):
                self.deriv_names.add(n.target.elts[1].id)
            # x = self._values_[...]  (a view of self's array): writes through x count
            if isinstance(n, ast.Assign) and len(n.targets) == 1 and isinstance(n.targets[0], ast.Name) \
                    and isinstance(n.value, (ast.Attribute, ast.Subscript)) and self.rooted_in_self(n.value) \
                    and self.root_attr(n.value) in ('_values_', '_mask_'):
                self.locals_from_self.add(n.targets[0].id)
        done = []
        for evs, ov, fin in self.block(self.fn.body, [([], 'unknown', False)]):
            if not fin:
                evs = evs + [('ret',)]
            done.append((evs, ov))
        return done

    def block(self, stmts, states):
        for s in stmts:
            nxt = []
            for st in states:
                if st[2]:
                    nxt.append(st)
                else:
                    nxt.extend(self.stmt(s, st))
            states = nxt
            if len(states) > MAX_PATHS:
                raise RuntimeError('too many paths in ' + self.fn.name)
        return states

    def stmt(self, s, st):
        evs, ov, _ = st
        if isinstance(s, ast.Raise) or self.stmt_raises(s):
            pre = self.expr_events(s.exc if isinstance(s, ast.Raise) else None)
            return [(evs + pre + [('raise',)], ov, True)]
        if isinstance(s, ast.Return):
            return [(evs + self.expr_events(s.value) + [('ret',)], ov, True)]
        if isinstance(s, (ast.Pass, ast.Import, ast.ImportFrom, ast.Global, ast.Nonlocal, ast.Continue, ast.Break)):
            return [st]
        if isinstance(s, ast.Expr):
            return [(evs + self.expr_events(s.value), ov, False)]
        if isinstance(s, ast.Assign):
            e = self.expr_events(s.value)
            for t in s.targets:
                e = e + self.target_events(t)
            return [(evs + e, ov, False)]
        if isinstance(s, ast.AugAssign):
            return [(evs + self.expr_events(s.value) + self.target_events(s.target), ov, False)]
        if isinstance(s, ast.AnnAssign):
            return [(evs + self.expr_events(s.value) + self.target_events(s.target), ov, False)]
        if isinstance(s, ast.Delete):
            e = []
            for t in s.targets:
                e += self.target_events(t)
            return [(evs + e, ov, False)]
        if isinstance(s, ast.If):
            return self.if_stmt(s, st)
        if isinstance(s, (ast.For, ast.While)):
            head = self.expr_events(s.iter if isinstance(s, ast.For) else s.test)
            base = (evs + head, ov, False)
            once = self.block(s.body, [base])
            # a loop body that finished the path (raise/return) stays finished; otherwise continue after the loop
            out = [base] + once
            if s.orelse:
                out = [x for st2 in out for x in ([st2] if st2[2] else self.block(s.orelse, [st2]))]
            return out
        if isinstance(s, ast.Try):
            body = self.block(s.body, [st])
            out = list(body)
            for h in s.handlers:
                out += self.block(h.body, [st])          # exception before any event of the body
            if s.orelse:
                out = [x for st2 in out for x in ([st2] if st2[2] else self.block(s.orelse, [st2]))]
            if s.finalbody:
                out = [x for st2 in out for x in self.block(s.finalbody, [(st2[0], st2[1], False)])]
            return out
        if isinstance(s, ast.With):
            return self.block(s.body, [st])
        return [(evs + [('unknown', type(s).__name__)], ov, False)]

    def if_stmt(self, s, st):
        evs, ov, _ = st
        test = s.test
        head = self.expr_events(test)
        conj = test.values if isinstance(test, ast.BoolOp) and isinstance(test.op, ast.And) else [test]
        # conditional read-only guard:  if self.readonly and ...: raise
        if any(self.is_ro_test(c) for c in conj) and self.always_raises(s.body):
            others = [self.norm_cond(c) for c in conj if not self.is_ro_test(c)]
            taken = (evs + head + [('raise',)], ov, True)
            nottaken = (evs + head + [('roGuard', others)], ov, False)
            rest = self.block(s.orelse, [nottaken]) if s.orelse else [nottaken]
            return [taken] + rest
        # `if self.readonly and not override:` around a checking loop (insert_derivs): the body is explored with the
        # knowledge, the else side records the roGuard it amounts to if every path of the body that does not raise has no event
        if any(self.is_ro_test(c) for c in conj) and not s.orelse:
            others = [self.norm_cond(c) for c in conj if not self.is_ro_test(c)]
            inner = self.block(s.body, [(evs + head, ov, False)])
            raising = [p for p in inner if p[2] and p[0] and p[0][-1] == ('raise',)]
            silent = [p for p in inner if not p[2] and p[0] == evs + head]
            if raising and len(raising) + len(silent) == len(inner):
                # body = "raise if <inner condition>": a conditional guard whose exemptions are `others` + inner tests
                inner_tests = [self.norm_cond(n.test) for n in ast.walk(s) if isinstance(n, ast.If) and n is not s]
                return raising + [(evs + head + [('roGuard', others + inner_tests)], ov, False)]
        # knowledge about `override`
        def knows(tst):
            if isinstance(tst, ast.Name) and tst.id == 'override':
                return ('truthy', 'falsy')
            if isinstance(tst, ast.UnaryOp) and isinstance(tst.op, ast.Not) and isinstance(tst.operand, ast.Name) \
                    and tst.operand.id == 'override':
                return ('falsy', 'truthy')
            return (None, None)
        kt, kf = knows(test)
        out = []
        if not (kt and ov != 'unknown' and ov != kt):
            out += self.block(s.body, [(evs + head, kt or ov, False)])
        if not (kf and ov != 'unknown' and ov != kf):
            out += self.block(s.orelse, [(evs + head, kf or ov, False)]) if s.orelse else [(evs + head, kf or ov, False)]
        return out


def lock_sites(root=None):
    """The places where `Qube.broadcast_to` locks its SOURCE (`self.as_readonly(...)`): for every such call the list of
    conditions it stands under inside the function, innermost `if` tests split into their `and` conjuncts, as source
    text.  On the checked tree both calls stand under `else` branches of shape tests and under `if _protected:`; the Lean
    obligation (`lock_sites_ok`) is that the only NAMED condition other than shape/type tests of the else-chain is
    `_protected` -- recorded here: the conjuncts of the innermost enclosing `if` whose body holds the call."""
    root = root or repo_root()
    tree = ast.parse(open(os.path.join(root, 'polymath', 'qube.py')).read())
    sites = []
    for cls in tree.body:
        if isinstance(cls, ast.ClassDef) and cls.name == 'Qube':
            for fn in cls.body:
                if isinstance(fn, ast.FunctionDef) and fn.name == 'broadcast_to':
                    selfname = fn.args.args[0].arg
                    def visit(stmts, conds):
                        for st in stmts:
                            if isinstance(st, ast.If):
                                t = st.test
                                conj = t.values if isinstance(t, ast.BoolOp) and isinstance(t.op, ast.And) else [t]
                                visit(st.body, [src(c) for c in conj])
                                visit(st.orelse, conds)
                            elif isinstance(st, (ast.For, ast.While, ast.With, ast.Try)):
                                visit(getattr(st, 'body', []), conds)
                            elif isinstance(st, ast.Expr) and isinstance(st.value, ast.Call) \
                                    and isinstance(st.value.func, ast.Attribute) and st.value.func.attr == 'as_readonly' \
                                    and isinstance(st.value.func.value, ast.Name) and st.value.func.value.id == selfname:
                                sites.append(list(conds))
                    visit(fn.body, [])
    return sites


def lean_str(s):
    return '"' + s.replace('\\', '\\\\').replace('"', '\\"').replace('\n', ' ') + '"'


def ev_lean(e):
    if e[0] == 'guard': return '.guard'
    if e[0] == 'raise': return '.raise'
    if e[0] == 'ret': return '.ret'
    if e[0] == 'write': return '.write ' + lean_str(e[1])
    if e[0] == 'call': return '.call ' + lean_str(e[1])
    if e[0] == 'roGuard': return '.roGuard [' + ', '.join(lean_str(x) for x in e[1]) + ']'
    return '.unknown ' + lean_str(str(e[1]))


def extract(root=None):
    """[(owner, method, file, lineno, [(events, override)])] with duplicate paths merged"""
    root = root or repo_root()
    table = []
    for owner, name, fn, f in find_methods(root):
        paths = Walker(fn).run()
        seen, uniq = set(), []
        for evs, ov in paths:
            # only the prefix up to and including the first non-ret event matters, plus whether a write follows; keep
            # the whole list but drop exact duplicates
            key = (tuple((e[0],) + tuple(tuple(x) if isinstance(x, list) else x for x in e[1:]) for e in evs), ov)
            if key not in seen:
                seen.add(key); uniq.append((evs, ov))
        table.append((owner, name, f, fn.lineno, uniq))
    table.sort(key=lambda t: (t[0], t[1]))
    return table


def render(table):
    out = ['/- GENERATED by harness/c08_py2lean.py from the source of polymath on every check run. Do not edit. -/',
           'import PMV.Model.ReadOnly', 'namespace PMV.Gen.Guards', 'open PMV.GuardEv', '']
    names = []
    for i, (owner, name, f, line, paths) in enumerate(table):
        nm = 'm%d' % i
        names.append(nm)
        out.append('/-- %s.%s  (%s:%d) -/' % (owner, name, f, line))
        out.append('def %s : Method := { owner := %s, name := %s, paths := [' % (nm, lean_str(owner), lean_str(name)))
        rows = []
        for evs, ov in paths:
            rows.append('  { override := .%s, evs := [%s] }' % (ov, ', '.join(ev_lean(e) for e in evs)))
        out.append(',\n'.join(rows) + '] }')
        out.append('')
    out.append('def table : List Method := [' + ', '.join(names) + ']')
    out.append('')
    out.append('/-- Qube.broadcast_to: the conditions under which each `self.as_readonly(...)` (locking the SOURCE) stands -/')
    out.append('def lockSites : List (List String) := [' +
               ', '.join('[' + ', '.join(lean_str(c) for c in site) + ']' for site in lock_sites()) + ']')
    out.append('')
    out.append('end PMV.Gen.Guards')
    return '\n'.join(out) + '\n'


def regen(verif):
    table = extract()
    path = os.path.join(verif, 'lean', 'PMV', 'Gen', 'Guards.lean')
    body = render(table)
    os.makedirs(os.path.dirname(path), exist_ok=True)
    if not os.path.exists(path) or open(path).read() != body:
        open(path, 'w').write(body)
    npaths = sum(len(t[4]) for t in table)
    return {'obligations': npaths + 1, 'methods': len(table), 'paths': npaths, 'lock_sites': lock_sites(),
            'table': 'lean/PMV/Gen/Guards.lean', 'source': repo_root()}


if __name__ == '__main__':
    t = extract(sys.argv[1] if len(sys.argv) > 1 else None)
    for owner, name, f, line, paths in t:
        print('%s.%s %s:%d  %d paths' % (owner, name, f, line, len(paths)))
        for evs, ov in paths[:12]:
            print('    ', ov, evs[:6], '...' if len(evs) > 6 else '')
