"""C05 — every object the API hands back is structurally well-formed."""
import json, os, random
import numpy as np
import common as C
import c05_dump as D
import c05_py2lean as T
import c05_sweep as S
import c05_prim as P

PROP = 'C05'
LEAN_MODULES = ['PMV.Props.C05']
PARALLEL = True
MANIFEST = {
    'text': 'Kernel-checked invariant theorems (PMV/Props/C05.lean) over a code-shaped, dump-level Lean model of the code that '
            'creates and modifies polymath objects (constructor validation/normalisation incl. Vector.__init__, insert_deriv(s) '
            'with the as_float / broadcast_to conversions through the constructor, delete_deriv(s), clone, wod, copy, '
            'without_deriv, as_readonly, as_float, broadcast_to, the low-level setters, __setstate__): ctor_wf (error or a '
            'well-formed object for ANY raw input), insertDeriv_wf, one preservation theorem per operation, step_wf and '
            'reachable_wf (every object produced by ANY list of the 16 operations with ANY arguments on well-formed starts '
            'is well-formed; induction over the list); WF is the conjunction of the property statement with class '
            'constraints taken from a table regenerated from the live classes on every run, and sanity theorems show that '
            'WF implies each clause. Tie: (1) an introspection-driven sweep calls every public callable of the 10 classes '
            'with generated arguments (sequences, after in-place mutation, after pickling), dumps every Qube found in the '
            'results and has the compiled Lean predicate judge the dump, compared clause by clause with a Python '
            'transcription, plus str()/repr(); (2) one-step correspondence of the modelled operations: the model applied '
            'to the dumps of the real operands must predict the dump of the real result (or the error).',
    'design': 'DESIGN.md §3 C05, DESIGN.d/C05.md',
    'technique': 'Lean 4 proof (invariant by induction over operation lists) + T2 class table + model/code correspondence + API sweep monitor',
    'note': 'Public methods outside the modelled operations are instances of "compute arrays, call the constructor / the setters, '
            'insert derivatives" only by inspection; that they keep to this discipline is monitored by the sweep, not proved. '
            'Trusted: Lean kernel; the dump function (harness/c05_dump.py); the hand-written model Model/WF.lean (checked by '
            'the one-step correspondence). Open finding KF-C05-5 (in-place mutation of a handed-out derivative object).',
}
RULE = ('sweep: for every class and every public attribute found by introspection (methods, static/class methods, properties, '
        'class constants, operators, constructor, pickle and deepcopy round trips) several programs whose last call is that '
        'attribute, preceded by 0-3 (quick) / 0-29 (thorough) random calls incl. in-place mutators and pickling; start objects '
        'over-represent rank 0, zero-length and unit axes, the five mask representations, derivatives, units, read-only; '
        'a sweep case is non-trivial when its last call returned at least one Qube; distinct = distinct request line. '
        'prim: random programs over the modelled operations, one case per step.')
ASSUMPTIONS = [
    'callers of the private setters _set_values_/_set_mask_ pass values of a numeric kind the class permits and Python-bool or '
    'bool-array masks (hypothesis `setterGuard` of the step function; the public callers are swept)',
    'a call that raises yields no object; what a rejected call leaves behind in its operands is property C19',
    'the numeric content of arrays is not modelled: arrays are (shape, kind, WRITEABLE); array sharing, array identity and '
    'the object cache are not modelled (the one-step correspondence re-reads the real dumps before every step and does '
    'not generate the steps whose outcome depends on them: first mask bit under broadcast_to(()), a stale cached wod twin, '
    'pickling an object that holds the same ndarray twice, in-place calls on a handed-out derivative object, Boolean.as_float)',
    'interpretation: "bookkeeping agrees with the arrays" includes the read-only flag (a read-only object has no writable array) '
    'and the numeric kind of the default value (the unpickler builds arrays of the default\'s kind)',
]
TRUSTED_EXTRA = ['harness/c05_dump.py reads __dict__ and ndarray.flags only (no polymath method is called while dumping)',
                 'harness/c05_py2lean.py reads the class attributes of the live classes (T2)']

_TABLE = None
def table():
    global _TABLE
    if _TABLE is None:
        _TABLE = T.class_table()
    return _TABLE


def regen():
    global _TABLE
    _TABLE = T.regen()
    return {'obligations': len(_TABLE), 'table': 'PMV/Gen/ClassTable.lean', 'rows': sorted(_TABLE)}


# ------------------------------------------------------------------------------------------------- running
_CACHE = {}

def _records(case):
    key = case['id']
    if _CACHE.get('key') != key:
        _CACHE['key'] = key
        _CACHE['val'] = S.run_program(case['prog'], table())
    return _CACHE['val']


def _prim(case):
    key = case['id']
    if _CACHE.get('key') != key:
        prog = case['prog']
        pool, results = P.run_prim(prog)
        r = results[-1]
        if r == 'error':
            obj = None
        elif r[0] == 'push':
            obj = r[1]
        else:
            obj = pool[r[1]]
        _CACHE['key'] = key
        _CACHE['val'] = (obj, None if obj is None else r[2])
    return _CACHE['val']


def impl(case):
    if case['op'] == 'sweep':
        return [r['v'] for r in _records(case)]
    obj, d = _prim(case)
    return 'error' if obj is None else d


def oracle(case):
    if case['op'] == 'sweep':
        recs = _records(case)
        fails = [r for r in recs if r['sig']]
        if not fails:
            return None
        pick = [r for r in fails if r['sig'] == case.get('focus')] or fails
        r = pick[0]
        return (r['sig'], 'step %d (%s), %s object %s: violated clauses %s%s; dump %s'
                % (r['step'], r['name'], r['role'], r['dump'][0], D.failed(r['v']),
                   ' str()/repr() raises ' + r['print'] if r['print'] else '', C.sx(r['dump'])))
    obj, d = _prim(case)
    if obj is None:
        return None
    v = D.clauses(d, table())
    pr = S.printable(obj)
    bad = D.failed(v) + (['print-' + pr] if pr else [])
    if bad:
        op = case['prog']['ops'][-1]
        return ('prim:%s:%s' % (op[0], '+'.join(bad)),
                'modelled operation %s produced an ill-formed %s: %s; dump %s' % (C.sx(op), d[0], bad, C.sx(d)))
    return None


# ------------------------------------------------------------------------------------------------- generation
def _run_gen(prog):
    recs = S.run_program(prog, T.class_table())
    return [(r['dump'], r['sig'], r['step'], r['role']) for r in recs]


def _pmap(f, items):
    jobs = int(os.environ.get('PMV_JOBS') or min(16, os.cpu_count() or 1))
    if len(items) < 400 or jobs <= 1:
        return [f(x) for x in items]
    import multiprocessing as mp
    with mp.get_context('fork').Pool(jobs) as pool:
        return pool.map(f, items, chunksize=25)


def gen_cases(rng, tier):
    thorough = tier == 'thorough'
    tab = table()
    cases = []
    # 1. the sweep
    progs = []
    reps = 6 if thorough else 3
    for cn in D.CLASS_NAMES:
        names = sorted(S.api_of(cn)) + ['<ctor>', '<pickle>', '<deepcopy>']
        for name in names:
            for r in range(reps):
                if thorough:
                    depth = rng.choice([1, 2, 3, 4, 6, 10, 20, 30])
                else:
                    depth = rng.choice([1, 1, 2, 3, 4])
                progs.append((cn, name, S.gen_program(rng, cn, name, depth)))
    # every in-place operator of every class x operand units {None, unitless, dimensionless ratios, ordinary}
    for cn, name, u, prog in S.gen_inplace_units(rng, 2 if thorough else 1):
        progs.append((cn, name + ':units=' + u, prog))
    # every in-place operator of every class x (same-rank operands with unit axes and array masks | plain numbers)
    for cn, name, what, prog in S.gen_inplace_shapes(rng, 2 if thorough else 1):
        progs.append((cn, name + ':' + what, prog))
    outs = _pmap(_run_gen, [p for _, _, p in progs])
    for n, ((cn, name, prog), out) in enumerate(zip(progs, outs)):
        dumps = [d for d, _, _, _ in out]
        sigs = []
        for _, sig, _, _ in out:
            if sig and sig not in sigs:
                sigs.append(sig)
        last = len(prog['steps']) - 1
        nontrivial = any(step == last and role == 'ret' for _, _, step, role in out)
        for focus in (sigs or [None]):
            cases.append({'op': 'sweep', 'id': 'sweep-%d' % n, 'prog': prog, 'focus': focus,
                          'req': ['c05', 'wf', dumps], 'kind': 'sweep:%s.%s' % (cn, name), 'nontrivial': nontrivial})
    # 2. one-step correspondence of the modelled operations
    nprog = 1500 if thorough else 600
    k = 0
    for n in range(nprog):
        prog, trace = P.gen_prim(rng, rng.choice([3, 5, 8, 12] if thorough else [3, 5, 8]), tab)
        for i, (dumps, op, res, clean) in enumerate(trace):
            if not clean:
                continue
            cases.append({'op': 'prim', 'id': 'prim-%d-%d' % (n, i), 'prog': {'starts': prog['starts'], 'ops': prog['ops'][:i + 1]},
                          'req': ['c05', 'step', dumps, op], 'kind': 'prim:' + op[0] + (':error' if res == 'error' else ''),
                          'nontrivial': res != 'error'})
            k += 1
    return cases


def neighbours(case):
    """shorter programs: drop one earlier step at a time (judged by the oracle only)"""
    if case['op'] != 'sweep':
        return
    steps = case['prog']['steps']
    for i in range(len(steps) - 1):
        prog = {'starts': case['prog']['starts'], 'steps': steps[:i] + steps[i + 1:]}
        yield {'op': 'sweep', 'id': case['id'] + '-drop%d' % i, 'prog': prog, 'focus': case.get('focus'), 'req': None}
