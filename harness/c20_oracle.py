"""Direct oracle of C20: the property judged on the real code with plain NumPy (numpy.poly*), independent of the
Lean model."""
import struct, warnings
import numpy as np
from absn import *
import common as C
from polymath import Polynomial


def unbits(n):
    return struct.unpack('<d', struct.pack('<Q', n))[0]

def trim(c):
    c = [int(x) for x in c]
    while c and c[0] == 0:
        c = c[1:]
    return c

def elems(o):
    """coefficient lists per leading element"""
    n = o['len']
    return [o['vals'][i * n:(i + 1) * n] for i in range(int(np.prod(o['shape'], dtype=int)))]

def bc(xs, shape, out):
    a = np.empty(len(xs), dtype=object)
    a[:] = xs
    return list(np.broadcast_to(a.reshape(shape), out).ravel())

def mkx(o, form):
    vals = np.array(o['vals'], dtype=float).reshape(o['shape'])
    if form == 'float':
        x = float(vals)
        return x, (lambda: True)
    if form == 'ndarray':
        snap = vals.copy()
        return vals, (lambda: np.array_equal(vals, snap))
    x = Scalar(vals, mk_mask(o['mask'], o['shape']))
    v0 = np.array(x._values_, copy=True)
    m0 = np.array(x._mask_, copy=True)
    d0 = dict(x._derivs_)
    def same():
        return (np.array_equal(np.asarray(x._values_), v0) and np.array_equal(np.asarray(x._mask_), m0)
                and np.shape(x._values_) == np.shape(v0) and x._derivs_ == d0)
    return x, same

def mkpoly(o):
    vals = np.array(o['vals'], dtype=float).reshape(list(o['shape']) + [o['len']])
    return Polynomial(vals, mk_mask(o['mask'], o['shape']))

NPOP = {'add': np.polyadd, 'sub': np.polysub, 'rsub': lambda p, q: np.polysub(q, p), 'mul': np.polymul,
        'iadd': np.polyadd, 'isub': np.polysub}
PYOP = {'add': lambda u, v: u + v, 'sub': lambda u, v: u - v, 'rsub': lambda u, v: v - u, 'mul': lambda u, v: u * v,
        'iadd': lambda u, v: u + v, 'isub': lambda u, v: u - v}


def sig(case, what):
    op = case['op']
    if op in ('roots', 'rootsd'):
        op += ':order%d' % (case['a']['len'] - 1)
    return op + ':' + what


def cmp_cells(case, got, out, masks, polys):
    """got = [shape, cells]; compare shape, mask pattern and trimmed coefficients"""
    if isinstance(got, str):
        return (sig(case, 'exception:' + got), '%s raised %s on valid operands' % (case['op'], got))
    shape, cells = got
    if list(shape) != list(out):
        return (sig(case, 'shape'), '%s: result shape %s, broadcasting gives %s' % (case['op'], shape, out))
    for i, cell in enumerate(cells):
        if (cell == 'm') != bool(masks[i]):
            return (sig(case, 'mask'), '%s: element %d masked=%s, union of operand masks says %s'
                    % (case['op'], i, cell == 'm', bool(masks[i])))
        if cell != 'm':
            if any(isinstance(x, str) for x in cell) or trim(cell) != trim(polys[i]):
                return (sig(case, 'value'), '%s: element %d has coefficients %s, numpy.poly* gives %s'
                        % (case['op'], i, cell, [int(x) for x in polys[i]]))
    return None


def judge(case, call, impl):
    op = case['op']
    if op in NPOP:
        return judge_binary(case, call, impl)
    if op in ('neg', 'deriv', 'pow', 'smul', 'sadd'):
        return judge_unary(case, call, impl)
    if op == 'eval':
        return judge_eval(case, impl)
    if op == 'roots':
        return judge_roots(case, impl(case))
    if op in ('evald', 'muld', 'derivd'):
        return judge_derivs(case, impl)
    if op == 'rootsd':
        return judge_roots_derivs(case, call)
    return None


# ------------------------------------------------------------------ derivatives (key d_dt)
def delems(o):
    n = o['len']
    d = o.get('d') or [0] * len(o['vals'])
    return [d[i * n:(i + 1) * n] for i in range(int(np.prod(o['shape'], dtype=int)))]


def judge_derivs(case, impl):
    op, a = case['op'], case['a']
    got = impl(case)
    if op == 'derivd':
        if isinstance(got, str):
            return (sig(case, 'exception:' + got), 'deriv() of a polynomial with derivatives: ' + got)
        ms = mask_bits(a['mask'], a['shape'])
        polys = [list(np.atleast_1d(np.polyder(p))) if len(p) > 1 else [0] for p in elems(a)]
        dpolys = [list(np.atleast_1d(np.polyder(p))) if len(p) > 1 else [0] for p in delems(a)]
        return cmp_cells(case, got[:2], a['shape'], ms, polys) or \
            cmp_cells(dict(case, op='derivd.d_dt'), [got[0], got[2]], a['shape'], ms, dpolys)
    b = case['b'] if op == 'muld' else case['x']
    out = np_bcast(a['shape'], b['shape'])
    if out is None:
        if got != 'ValueError':
            return (sig(case, 'no-ValueError'), '%s of incompatible shapes did not raise ValueError' % op)
        return None
    if isinstance(got, str):
        return (sig(case, 'exception:' + got), '%s with derivatives: %s' % (op, got))
    ma = bc(mask_bits(a['mask'], a['shape']), a['shape'], out)
    mb = bc(mask_bits(b['mask'], b['shape']), b['shape'], out)
    ms = [x or y for x, y in zip(ma, mb)]
    ea, da = bc(elems(a), a['shape'], out), bc(delems(a), a['shape'], out)
    if op == 'muld':
        eb, db = bc(elems(b), b['shape'], out), bc(delems(b), b['shape'], out)
        polys = [list(np.atleast_1d(np.polymul(p, q))) for p, q in zip(ea, eb)]
        dpolys = [list(np.atleast_1d(np.polyadd(np.polymul(q, dp), np.polymul(p, dq))))
                  for p, dp, q, dq in zip(ea, da, eb, db)]
        return cmp_cells(case, got[:2], out, ms, polys) or \
            cmp_cells(dict(case, op='muld.d_dt'), [got[0], got[2]], out, ms, dpolys)
    # evald
    xs = bc(list(b['vals']), b['shape'], out)
    dxs = bc(list(b.get('d') or [0] * len(b['vals'])), b['shape'], out)
    shape, vals, dvals = got
    if list(shape) != list(out):
        return (sig(case, 'shape'), 'eval: result shape %s, broadcasting gives %s' % (shape, out))
    for i in range(len(ms)):
        if (vals[i] == 'm') != bool(ms[i]) or (dvals[i] == 'm') != bool(ms[i]):
            return (sig(case, 'mask'), 'eval with derivatives: element %d mask differs from the union of masks' % i)
        if not ms[i]:
            ev = int(np.polyval(ea[i], xs[i]))
            ed = int(np.polyval(da[i], xs[i]) + (np.polyval(np.polyder(ea[i]), xs[i]) if len(ea[i]) > 1 else 0) * dxs[i])
            if vals[i] != ev:
                return (sig(case, 'value'), 'eval: p=%s at %s gives %s, polyval %s' % (ea[i], xs[i], vals[i], ev))
            if dvals[i] != ed:
                return (sig(case, 'd_dt'), 'eval: d/dt of p=%s (dp=%s) at x=%s (dx=%s) is %s, chain rule gives %s'
                        % (ea[i], da[i], xs[i], dxs[i], dvals[i], ed))
    return None


def judge_roots_derivs(case, call):
    a = case['a']
    n = a['len'] - 1
    try:
        with warnings.catch_warnings():
            warnings.simplefilter('ignore')
            r = call(case)
    except Exception as e:
        return (sig(case, 'exception:' + C.exc_name(e)), 'roots() of a polynomial with derivatives raised %r' % (e,))
    if 't' not in r.derivs:
        return (sig(case, 'no-derivative'), 'roots() of an order-%d polynomial dropped the derivatives' % n)
    cnt = int(np.prod(a['shape'], dtype=int))
    m = expanded_mask(r).reshape(n, cnt)
    v = np.broadcast_to(np.asarray(r._values_, dtype=float), r._shape_).reshape(n, cnt)
    d = r.d_dt
    dm = expanded_mask(d).reshape(n, cnt)
    dv = np.broadcast_to(np.asarray(d._values_, dtype=float), d._shape_).reshape(n, cnt)
    es, ds = elems(a), delems(a)
    for i in range(cnt):
        q = np.array(es[i], dtype=float)
        dq = np.array(ds[i], dtype=float)
        for k in range(n):
            if m[k, i]:
                continue
            x = v[k, i]
            slope = float(np.polyval(np.polyder(q), x))
            scale = float(np.polyval(np.abs(np.polyder(q)), abs(x))) + 1e-300
            if abs(slope) <= 1e-4 * scale:
                continue                    # (nearly) multiple root: dx/dt is unbounded
            exp = -float(np.polyval(dq, x)) / slope
            if dm[k, i]:
                return (sig(case, 'd_dt-masked'), 'root %r of %s: derivative masked although p\'(x) = %r' % (x, es[i], slope))
            if abs(dv[k, i] - exp) > 1e-8 * max(1.0, abs(exp)):
                return (sig(case, 'd_dt'), 'root %r of %s (dp=%s): dx/dt = %r, implicit differentiation gives %r'
                        % (float(x), es[i], ds[i], float(dv[k, i]), exp))
    return None


def scalar_obs(r):
    m = expanded_mask(r).ravel()
    v = np.broadcast_to(np.asarray(r._values_, dtype=float), r._shape_).ravel()
    return [list(r._shape_), ['m' if m[i] else float(v[i]) for i in range(len(m))]]


def judge_binary(case, call, impl):
    op, a, b = case['op'], case['a'], case['b']
    out = np_bcast(a['shape'], b['shape'])
    got = impl(case)
    bad = out is None
    if op in ('iadd', 'isub'):
        bad = bad or b['len'] > a['len'] or out != list(a['shape'])
    if bad:
        if got != 'ValueError':
            return (sig(case, 'no-ValueError'), '%s of incompatible operands returned %s instead of raising ValueError'
                    % (op, C.sx(got)[:200]))
        return None
    ea, eb = bc(elems(a), a['shape'], out), bc(elems(b), b['shape'], out)
    ma = bc(mask_bits(a['mask'], a['shape']), a['shape'], out)
    mb = bc(mask_bits(b['mask'], b['shape']), b['shape'], out)
    polys = [list(np.atleast_1d(NPOP[op](p, q))) for p, q in zip(ea, eb)]
    r = cmp_cells(case, got, out, [x or y for x, y in zip(ma, mb)], polys)
    if r:
        return r
    # evaluating the result equals combining the evaluations (the real eval on both sides)
    for xv in case.get('xs', []):
        with warnings.catch_warnings():
            warnings.simplefilter('error')
            try:
                res = call(case)
                lhs = scalar_obs(res.eval(Scalar(float(xv))))
                pa, pb = mkpoly(a), mkpoly(b)
                rhs = scalar_obs(PYOP[op](pa.eval(Scalar(float(xv))), pb.eval(Scalar(float(xv)))))
            except Exception as e:
                return (sig(case, 'meta-eval:exception:' + C.exc_name(e)), '%s: evaluating the result at %s raised %r' % (op, xv, e))
        if lhs != rhs:
            return (sig(case, 'meta-eval'), '(p %s q).eval(%s) = %s but combining p.eval and q.eval gives %s' % (op, xv, lhs, rhs))
    return None


def judge_unary(case, call, impl):
    op, a = case['op'], case['a']
    got = impl(case)
    es = elems(a)
    ms = mask_bits(a['mask'], a['shape'])
    if op == 'neg':
        polys = [[-x for x in p] for p in es]
    elif op == 'deriv':
        polys = [list(np.atleast_1d(np.polyder(p))) if len(p) > 1 else [0] for p in es]
    elif op == 'smul':
        polys = [list(np.atleast_1d(np.polymul(p, [case['k']]))) for p in es]
    elif op == 'sadd':
        k = [case['k']]
        f = {'p+k': lambda p: np.polyadd(p, k), 'k+p': lambda p: np.polyadd(k, p), 'p-k': lambda p: np.polysub(p, k),
             'k-p': lambda p: np.polysub(k, p)}[case['form']]
        polys = [list(np.atleast_1d(f(p))) for p in es]
    else:
        n = case['n']
        if n == 0:
            # the value is the constant polynomial 1; shape and mask of p**0 are not specified by the property
            if isinstance(got, str):
                return (sig(case, 'exception:' + got), 'p**0 raised ' + got)
            for cell in got[1]:
                if cell != 'm' and trim(cell) != [1]:
                    return (sig(case, 'value'), 'p**0 has coefficients %s' % (cell,))
            return None
        polys = []
        for p in es:
            q = [1]
            for _ in range(n):
                q = list(np.atleast_1d(np.polymul(q, p)))
            polys.append(q)
    r = cmp_cells(case, got, a['shape'], ms, polys)
    if r:
        return r
    if op in ('neg', 'pow'):
        for xv in case.get('xs', []):
            with warnings.catch_warnings():
                warnings.simplefilter('error')
                try:
                    lhs = scalar_obs(call(case).eval(Scalar(float(xv))))
                    e = mkpoly(a).eval(Scalar(float(xv)))
                    rhs = scalar_obs(-e if op == 'neg' else e ** case['n'])
                except Exception as ex:
                    return (sig(case, 'meta-eval:exception:' + C.exc_name(ex)), '%s: evaluating the result raised %r' % (op, ex))
            if lhs != rhs:
                return (sig(case, 'meta-eval'), '(%s p).eval(%s) = %s but combining gives %s' % (op, xv, lhs, rhs))
    return None


def judge_eval(case, impl):
    a, xo, form = case['a'], case['x'], case.get('xform', 'scalar')
    out = np_bcast(a['shape'], xo['shape'])
    p = mkpoly(a)
    pv0 = np.array(p._values_, copy=True)
    x, same = mkx(xo, form)
    try:
        with warnings.catch_warnings():
            warnings.simplefilter('error')
            r = p.eval(x)
    except Exception as e:
        r = C.exc_name(e)
    if not same():
        return (sig(case, 'argument-modified'), 'eval changed its argument x (order %d)' % (a['len'] - 1))
    if not np.array_equal(p._values_, pv0):
        return (sig(case, 'self-modified'), 'eval changed the polynomial')
    if out is None:
        if r != 'ValueError':
            return (sig(case, 'no-ValueError'), 'eval with incompatible shapes did not raise ValueError')
        return None
    if isinstance(r, str):
        return (sig(case, 'exception:' + r), 'eval raised %s (order %d)' % (r, a['len'] - 1))
    if not isinstance(r, Scalar):
        return (sig(case, 'type'), 'eval returned %s' % type(r).__name__)
    if list(r._shape_) != out:
        return (sig(case, 'shape'), 'eval: result shape %s, broadcasting gives %s' % (list(r._shape_), out))
    ea = bc(elems(a), a['shape'], out)
    ex = bc(list(xo['vals']), xo['shape'], out)
    ma = bc(mask_bits(a['mask'], a['shape']), a['shape'], out)
    mx = bc(mask_bits(xo['mask'], xo['shape']), xo['shape'], out)
    gm = expanded_mask(r).ravel()
    gv = np.broadcast_to(np.asarray(r._values_, dtype=float), r._shape_).ravel()
    for i in range(len(ea)):
        em = bool(ma[i] or mx[i])
        if bool(gm[i]) != em:
            return (sig(case, 'mask'), 'eval: element %d masked=%s, union of masks says %s' % (i, bool(gm[i]), em))
        if not em:
            ev = float(np.polyval(np.array(ea[i], dtype=float), float(ex[i])))
            if float(gv[i]) != ev:
                return (sig(case, 'value'), 'eval: p=%s at x=%s gives %r, numpy.polyval gives %r' % (ea[i], ex[i], float(gv[i]), ev))
    return None


# ------------------------------------------------------------------ roots
def near(u, v, tol):
    return abs(u - v) <= tol * max(1.0, abs(v))


def judge_roots(case, got):
    a = case['a']
    n = a['len'] - 1
    if n == 0:
        return None                         # roots of a constant: the code raises ValueError; the property is silent
    if isinstance(got, str):
        return (sig(case, 'exception:' + got), 'roots() of an order-%d polynomial raised %s' % (n, got))
    shape, cells = got
    if list(shape) != list(a['shape']):
        return (sig(case, 'shape'), 'roots: leading shape %s instead of %s' % (shape, a['shape']))
    mb = mask_bits(a['mask'], a['shape'])
    es = elems(a)
    for i, (row, lane) in enumerate(cells):
        vals = [None if z == 'm' else unbits(z) for z in lane]
        if len(vals) != n:
            return (sig(case, 'length'), 'roots: %d entries for order %d' % (len(vals), n))
        um = [v for v in vals if v is not None]
        c = es[i]
        if vals[:len(um)] != um:
            return (sig(case, 'masked-not-last'), 'roots of %s: masked entry before an unmasked root: %s' % (c, vals))
        if any(not (um[k] < um[k + 1]) for k in range(len(um) - 1)):
            return (sig(case, 'not-increasing'), 'roots of %s not strictly increasing (duplicate or unsorted): %s' % (c, um))
        if mb[i]:
            if um:
                return (sig(case, 'mask'), 'masked polynomial has unmasked roots %s' % (um,))
            continue
        q = trim(c)
        if not q:
            continue                        # the zero polynomial: the property does not say what its roots are
        deg = len(q) - 1
        qf = np.array(q, dtype=float)
        for r in um:
            if not np.isfinite(r):
                return (sig(case, 'nonfinite'), 'roots of %s: non-finite root %r' % (c, r))
            scale = float(np.polyval(np.abs(qf), abs(r)))
            if abs(float(np.polyval(qf, r))) > 1e-10 * scale:
                return (sig(case, 'residual'), 'root %r of %s evaluates to %r (scale %r)' % (r, c, float(np.polyval(qf, r)), scale))
        if deg == 0:
            exact = []
        elif deg == 1:
            exact = [-q[1] / q[0]]
        elif deg == 2 and n <= 2:
            D = q[1] * q[1] - 4 * q[0] * q[2]
            if D < 0: exact = []
            elif D == 0: exact = [-q[1] / (2.0 * q[0])]
            else:
                s = float(np.sqrt(D))
                exact = sorted([(-q[1] - s) / (2.0 * q[0]), (-q[1] + s) / (2.0 * q[0])])
        else:
            exact = None
        if exact is not None:
            if len(um) != len(exact) or any(not near(u, v, 1e-9) for u, v in zip(um, exact)):
                return (sig(case, 'real-roots'), 'roots of %s: got %s, the real roots are %s' % (c, um, exact))
            continue
        # order >= 3: numpy.roots with tolerance; clusters (multiple roots) are ill-conditioned
        # (a root of multiplicity m is spread over a disc of radius ~ eps**(1/m): up to ~2e-2 for m = 7)
        tr = np.roots(qf)
        CL = 0.03
        cluster = [sum(1 for w in tr if abs(z - w) <= CL * max(1.0, abs(z))) for z in tr]
        certain_real = [float(z.real) for z, k in zip(tr, cluster) if k == 1 and z.imag == 0]
        uncertain = [z for z, k in zip(tr, cluster) if k > 1 or (k == 1 and z.imag != 0 and abs(z.imag) <= 1e-6)]
        for t in certain_real:
            k = sum(1 for r in um if near(r, t, 1e-7))
            if k != 1:
                return (sig(case, 'real-roots'), 'roots of %s: simple real root %r returned %d times in %s' % (c, t, k, um))
        for r in um:
            ok = any(near(r, t, 1e-7) for t in certain_real) or \
                 any(abs(z.imag) <= CL * max(1.0, abs(z)) and near(r, z.real, CL) for z in uncertain)
            if not ok:
                return (sig(case, 'real-roots'), 'roots of %s: %r is not a real root (numpy.roots: %s)' % (c, r, list(tr)))
    return None
