"""Direct oracle of C20: the property judged on the real code with plain NumPy (numpy.poly*), independent of the
Lean model."""
import struct, warnings
import numpy as np
from absn import *
import common as C
from polymath import Polynomial


def unbits(n):
    return struct.unpack('<d', struct.pack('<Q', n))[0]

def trim(c):
    c = [int(x) for x in c]
    while c and c[0] == 0:
        c = c[1:]
    return c

def elems(o):
    """coefficient lists per leading element"""
    n = o['len']
    return [o['vals'][i * n:(i + 1) * n] for i in range(int(np.prod(o['shape'], dtype=int)))]

def bc(xs, shape, out):
    a = np.empty(len(xs), dtype=object)
    a[:] = xs
    return list(np.broadcast_to(a.reshape(shape), out).ravel())

def mkx(o, form):
    vals = np.array(o['vals'], dtype=float).reshape(o['shape'])
    if form == 'float':
        x = float(vals)
        return x, (lambda: True)
    if form == 'ndarray':
        snap = vals.copy()
        return vals, (lambda: np.array_equal(vals, snap))
    x = Scalar(vals, mk_mask(o['mask'], o['shape']))
    v0 = np.array(x._values_, copy=True)
    m0 = np.array(x._mask_, copy=True)
    d0 = dict(x._derivs_)
    def same():
        return (np.array_equal(np.asarray(x._values_), v0) and np.array_equal(np.asarray(x._mask_), m0)
                and np.shape(x._values_) == np.shape(v0) and x._derivs_ == d0)
    return x, same

def mkpoly(o):
    vals = np.array(o['vals'], dtype=float).reshape(list(o['shape']) + [o['len']])
    return Polynomial(vals, mk_mask(o['mask'], o['shape']))

NPOP = {'add': np.polyadd, 'sub': np.polysub, 'rsub': lambda p, q: np.polysub(q, p), 'mul': np.polymul,
        'iadd': np.polyadd, 'isub': np.polysub}
PYOP = {'add': lambda u, v: u + v, 'sub': lambda u, v: u - v, 'rsub': lambda u, v: v - u, 'mul': lambda u, v: u * v,
        'iadd': lambda u, v: u + v, 'isub': lambda u, v: u - v}


def sig(case, what):
    op = case['op']
    if op in ('roots', 'rootsd'):
        op += ':order%d' % (case['a']['len'] - 1)
    return op + ':' + what


def cmp_cells(case, got, out, masks, polys):
    """got = [shape, cells]; compare shape, mask pattern and trimmed coefficients"""
    if isinstance(got, str):
        return (sig(case, 'exception:' + got), '%s raised %s on valid operands' % (case['op'], got))
    shape, cells = got
    if list(shape) != list(out):
        return (sig(case, 'shape'), '%s: result shape %s, broadcasting gives %s' % (case['op'], shape, out))
    for i, cell in enumerate(cells):
        if (cell == 'm') != bool(masks[i]):
            return (sig(case, 'mask'), '%s: element %d masked=%s, union of operand masks says %s'
                    % (case['op'], i, cell == 'm', bool(masks[i])))
        if cell != 'm':
            if any(isinstance(x, str) for x in cell) or trim(cell) != trim(polys[i]):
                return (sig(case, 'value'), '%s: element %d has coefficients %s, numpy.poly* gives %s'
                        % (case['op'], i, cell, [int(x) for x in polys[i]]))
    return None


def judge(case, call, impl):
    op = case['op']
    if op in NPOP:
        return judge_binary(case, call, impl)
    if op in ('neg', 'deriv', 'pow', 'smul', 'sadd'):
        return judge_unary(case, call, impl)
    if op == 'eval':
        return judge_eval(case, impl)
    if op == 'roots':
        r = judge_roots(case, impl(case))
        if r is None and case['a']['len'] - 1 >= 3 and int(np.prod(case['a']['shape'], dtype=int)) > 0:
            r = check_eig_contract(case)
        return r
    if op == 'evald':
        return judge_derivs(case, impl)
    if op in ('bind', 'und', 'smuld', 'chaind'):
        return judge_dual(case, impl)
    if op == 'invline':
        return judge_invline(case, impl)
    if op == 'sdiv':
        return judge_sdiv(case, call)
    if op == 'eq':
        return judge_eq(case, call)
    if op == 'rootsd':
        return judge_roots_derivs(case, call)
    return None


# ------------------------------------------------------------------ dual (value, d/dt) reference arithmetic
def pl(x):
    return [int(v) for v in np.atleast_1d(x)]

def d_add(u, v): return (pl(np.polyadd(u[0], v[0])), pl(np.polyadd(u[1], v[1])), u[2] or v[2])
def d_sub(u, v): return (pl(np.polysub(u[0], v[0])), pl(np.polysub(u[1], v[1])), u[2] or v[2])
def d_mul(u, v): return (pl(np.polymul(u[0], v[0])),
                         pl(np.polyadd(np.polymul(v[0], u[1]), np.polymul(u[0], v[1]))), u[2] or v[2])
def d_neg(u): return ([-x for x in u[0]], [-x for x in u[1]], u[2])
def d_der(u): return (pl(np.polyder(u[0])) if len(u[0]) > 1 else [0], pl(np.polyder(u[1])) if len(u[1]) > 1 else [0], u[2])
def d_pow(u, n):
    r = ([1], [0], u[2])
    for _ in range(n):
        r = d_mul(r, u)
    return r
DBIN = {'add': d_add, 'sub': d_sub, 'rsub': lambda u, v: d_sub(v, u), 'mul': d_mul}
DUN = {'neg': lambda u, n: d_neg(u), 'deriv': lambda u, n: d_der(u), 'pow': d_pow, 'id': lambda u, n: u}

def dual_arr(o):
    es, ds, ms = elems(o), delems(o), mask_bits(o['mask'], o['shape'])
    a = np.empty(len(es), dtype=object)
    a[:] = [(list(e), list(d), bool(m)) for e, d, m in zip(es, ds, ms)]
    return a.reshape(o['shape'])

def dual_map2(f, a, b):
    out = np_bcast(list(a.shape), list(b.shape))
    if out is None:
        return None
    xa, xb = np.broadcast_to(a, out).ravel(), np.broadcast_to(b, out).ravel()
    r = np.empty(len(xa), dtype=object)
    r[:] = [f(u, v) for u, v in zip(xa, xb)]
    return r.reshape(out)

def dual_map(f, a):
    r = np.empty(a.size, dtype=object)
    r[:] = [f(u) for u in a.ravel()]
    return r.reshape(a.shape)


def judge_dual(case, impl):
    """ring operations on polynomials with derivatives: value AND derivative against dual-number arithmetic
    built from numpy.poly*, masks = union, shape = NumPy broadcast"""
    op = case['op']
    got = impl(case)
    a = dual_arr(case['a'])
    n = case.get('n', 0)
    value_only = False
    if op == 'bind':
        r = dual_map2(DBIN[case['sym']], a, dual_arr(case['b']))
    elif op == 'und':
        r = dual_map(lambda u: DUN[case['sym']](u, n), a)
        value_only = case['sym'] == 'pow' and n == 0
    elif op == 'smuld':
        k = case['k']
        r = dual_map(lambda u: ([k * x for x in u[0]], [k * x for x in u[1]], u[2]), a)
    else:
        s1, s2, s3 = case['syms']
        r = dual_map2(DBIN[s1], a, dual_arr(case['b']))
        if r is not None:
            r = dual_map2(DBIN[s2], r, dual_arr(case['c']))
        if r is not None:
            r = dual_map(lambda u: DUN[s3](u, n), r)
            value_only = s3 == 'pow' and n == 0
    if r is None:
        if got != 'ValueError':
            return (sig(case, 'no-ValueError'), '%s of incompatible shapes did not raise ValueError' % op)
        return None
    if isinstance(got, str):
        return (sig(case, 'exception:' + got), '%s on polynomials with derivatives raised %s' % (op, got))
    if value_only:
        # p**0: the constant 1 with derivative 0; its shape and mask are not specified
        for cell, dcell in zip(got[1], got[2]):
            if cell != 'm' and (trim(cell) != [1] or trim(dcell) != []):
                return (sig(case, 'value'), 'p**0 is %s with derivative %s' % (cell, dcell))
        return None
    flat = list(r.ravel())
    ms = [u[2] for u in flat]
    return cmp_cells(case, got[:2], list(r.shape), ms, [u[0] for u in flat]) or \
        cmp_cells(dict(case, op=op + '.d_dt'), [got[0], got[2]], list(r.shape), ms, [u[1] for u in flat])


def judge_sdiv(case, call):
    """p / k, p / Polynomial([k]), p *= k, p /= k …: coefficients (and derivative coefficients) times or over k;
    division by zero masks the element"""
    a, k, f = case['a'], case['k'], case['form']
    try:
        with warnings.catch_warnings():
            warnings.simplefilter('error')
            r = call(case)
    except Exception as e:
        return (sig(case, 'exception:' + C.exc_name(e)), '%s with k=%s raised %r' % (f, k, e))
    if not isinstance(r, Polynomial) or list(r._shape_) != list(a['shape']) or r._numer_ != (a['len'],):
        return (sig(case, 'shape'), '%s: result %r' % (f, r))
    mul = '*' in f
    ms = mask_bits(a['mask'], a['shape'])
    gm = expanded_mask(r).ravel()
    gv = np.broadcast_to(np.asarray(r._values_, dtype=float), tuple(r._shape_) + (a['len'],)).reshape(-1, a['len'])
    has_d = a.get('d') is not None
    if has_d and 't' not in r.derivs:
        return (sig(case, 'no-derivative'), '%s dropped the derivative' % f)
    dv = None
    if has_d:
        dv = np.broadcast_to(np.asarray(r.d_dt._values_, dtype=float), tuple(r._shape_) + (a['len'],)).reshape(-1, a['len'])
    for i, (e, d) in enumerate(zip(elems(a), delems(a))):
        em = bool(ms[i]) or (not mul and k == 0)
        if bool(gm[i]) != em:
            return (sig(case, 'mask'), '%s with k=%s: element %d masked=%s, expected %s' % (f, k, i, bool(gm[i]), em))
        if em:
            continue
        exp = [x * k for x in e] if mul else [x / k for x in e]
        if [float(x) for x in gv[i]] != [float(x) for x in exp]:
            return (sig(case, 'value'), '%s with k=%s of %s gives %s' % (f, k, e, list(gv[i])))
        if has_d:
            dexp = [x * k for x in d] if mul else [x / k for x in d]
            if [float(x) for x in dv[i]] != [float(x) for x in dexp]:
                return (sig(case, 'd_dt'), '%s with k=%s: derivative of %s (d=%s) is %s' % (f, k, e, d, list(dv[i])))
    return None


def judge_eq(case, call):
    """== and != of unmasked polynomials of possibly different order compare them as polynomials"""
    a, b = case['a'], case['b']
    try:
        r = call(case)
    except Exception as e:
        return (sig(case, 'exception:' + C.exc_name(e)), '%s raised %r' % (case['form'], e))
    exp = [trim(p) == trim(q) for p, q in zip(elems(a), elems(b))]
    if case['form'] == 'ne':
        exp = [not x for x in exp]
    if isinstance(r, (bool, np.bool_)):
        got = [bool(r)]
    else:
        got = [bool(x) for x in np.broadcast_to(np.asarray(r._values_), r._shape_).ravel()]
        if np.any(expanded_mask(r)):
            return (sig(case, 'mask'), 'comparison of unmasked polynomials is masked')
    if got != exp and not (len(got) == 1 and len(exp) != 1 and got[0] == (all(exp) if case['form'] == 'eq' else any(exp))):
        return (sig(case, 'value'), '%s of %s and %s gives %s, as polynomials %s' % (case['form'], elems(a), elems(b), got, exp))
    return None


def judge_invline(case, impl):
    """invert_line of y = a x + b is x = y/a - b/a: composing with the original gives the identity"""
    a = case['a']
    got = impl(case)
    if a['len'] != 2:
        if got != 'ValueError':
            return (sig(case, 'no-ValueError'), 'invert_line of an order-%d polynomial did not raise ValueError' % (a['len'] - 1))
        return None
    if isinstance(got, str):
        return (sig(case, 'exception:' + got), 'invert_line of a first-order polynomial raised ' + got)
    shape, cells = got
    if list(shape) != list(a['shape']):
        return (sig(case, 'shape'), 'invert_line: shape %s instead of %s' % (shape, a['shape']))
    ms = mask_bits(a['mask'], a['shape'])
    for i, (e, cell) in enumerate(zip(elems(a), cells)):
        em = bool(ms[i]) or e[0] == 0
        if (cell == 'm') != em:
            return (sig(case, 'mask'), 'invert_line of %s: masked=%s, expected %s' % (e, cell == 'm', em))
        if not em:
            u, v = unbits(cell[0]), unbits(cell[1])
            if not (near(u, 1.0 / e[0], 1e-12) and near(v, -e[1] / e[0], 1e-12)):
                return (sig(case, 'value'), 'invert_line of %s is (%r, %r), expected (%r, %r)' % (e, u, v, 1.0 / e[0], -e[1] / e[0]))
            for y in (0.0, 1.0, -2.5):
                x = u * y + v
                if abs(e[0] * x + e[1] - y) > 1e-9 * max(1.0, abs(y)):
                    return (sig(case, 'inverse'), 'invert_line of %s does not invert it at y=%r' % (e, y))
    return None


# ------------------------------------------------------------------ derivatives (key d_dt)
def delems(o):
    n = o['len']
    d = o.get('d') or [0] * len(o['vals'])
    return [d[i * n:(i + 1) * n] for i in range(int(np.prod(o['shape'], dtype=int)))]


def judge_derivs(case, impl):
    op, a = case['op'], case['a']
    got = impl(case)
    b = case['x']
    out = np_bcast(a['shape'], b['shape'])
    if out is None:
        if got != 'ValueError':
            return (sig(case, 'no-ValueError'), '%s of incompatible shapes did not raise ValueError' % op)
        return None
    if isinstance(got, str):
        return (sig(case, 'exception:' + got), '%s with derivatives: %s' % (op, got))
    ma = bc(mask_bits(a['mask'], a['shape']), a['shape'], out)
    mb = bc(mask_bits(b['mask'], b['shape']), b['shape'], out)
    ms = [x or y for x, y in zip(ma, mb)]
    ea, da = bc(elems(a), a['shape'], out), bc(delems(a), a['shape'], out)
    # evald
    xs = bc(list(b['vals']), b['shape'], out)
    dxs = bc(list(b.get('d') or [0] * len(b['vals'])), b['shape'], out)
    shape, vals, dvals = got
    if list(shape) != list(out):
        return (sig(case, 'shape'), 'eval: result shape %s, broadcasting gives %s' % (shape, out))
    for i in range(len(ms)):
        if (vals[i] == 'm') != bool(ms[i]) or (dvals[i] == 'm') != bool(ms[i]):
            return (sig(case, 'mask'), 'eval with derivatives: element %d mask differs from the union of masks' % i)
        if not ms[i]:
            ev = int(np.polyval(ea[i], xs[i]))
            ed = int(np.polyval(da[i], xs[i]) + (np.polyval(np.polyder(ea[i]), xs[i]) if len(ea[i]) > 1 else 0) * dxs[i])
            if vals[i] != ev:
                return (sig(case, 'value'), 'eval: p=%s at %s gives %s, polyval %s' % (ea[i], xs[i], vals[i], ev))
            if dvals[i] != ed:
                return (sig(case, 'd_dt'), 'eval: d/dt of p=%s (dp=%s) at x=%s (dx=%s) is %s, chain rule gives %s'
                        % (ea[i], da[i], xs[i], dxs[i], dvals[i], ed))
    return None


def judge_roots_derivs(case, call):
    a = case['a']
    n = a['len'] - 1
    try:
        with warnings.catch_warnings():
            warnings.simplefilter('error')
            r = call(case)
    except Exception as e:
        return (sig(case, 'exception:' + C.exc_name(e)), 'roots() of a polynomial with derivatives raised %r' % (e,))
    if 't' not in r.derivs:
        return (sig(case, 'no-derivative'), 'roots() of an order-%d polynomial dropped the derivatives' % n)
    cnt = int(np.prod(a['shape'], dtype=int))
    m = expanded_mask(r).reshape(n, cnt)
    v = np.broadcast_to(np.asarray(r._values_, dtype=float), r._shape_).reshape(n, cnt)
    d = r.d_dt
    dm = expanded_mask(d).reshape(n, cnt)
    dv = np.broadcast_to(np.asarray(d._values_, dtype=float), d._shape_).reshape(n, cnt)
    es, ds = elems(a), delems(a)
    for i in range(cnt):
        q = np.array(es[i], dtype=float)
        dq = np.array(ds[i], dtype=float)
        for k in range(n):
            if m[k, i]:
                continue
            x = v[k, i]
            slope = float(np.polyval(np.polyder(q), x))
            scale = float(np.polyval(np.abs(np.polyder(q)), abs(x))) + 1e-300
            if abs(slope) <= 1e-4 * scale:
                continue                    # (nearly) multiple root: dx/dt is unbounded
            exp = -float(np.polyval(dq, x)) / slope
            if dm[k, i]:
                return (sig(case, 'd_dt-masked'), 'root %r of %s: derivative masked although p\'(x) = %r' % (x, es[i], slope))
            if abs(dv[k, i] - exp) > 1e-8 * max(1.0, abs(exp)):
                return (sig(case, 'd_dt'), 'root %r of %s (dp=%s): dx/dt = %r, implicit differentiation gives %r'
                        % (float(x), es[i], ds[i], float(dv[k, i]), exp))
    return None


def scalar_obs(r):
    m = expanded_mask(r).ravel()
    v = np.broadcast_to(np.asarray(r._values_, dtype=float), r._shape_).ravel()
    return [list(r._shape_), ['m' if m[i] else float(v[i]) for i in range(len(m))]]


def judge_binary(case, call, impl):
    op, a, b = case['op'], case['a'], case['b']
    out = np_bcast(a['shape'], b['shape'])
    got = impl(case)
    bad = out is None
    if op in ('iadd', 'isub'):
        bad = bad or b['len'] > a['len'] or out != list(a['shape'])
    if bad:
        if got != 'ValueError':
            return (sig(case, 'no-ValueError'), '%s of incompatible operands returned %s instead of raising ValueError'
                    % (op, C.sx(got)[:200]))
        return None
    ea, eb = bc(elems(a), a['shape'], out), bc(elems(b), b['shape'], out)
    ma = bc(mask_bits(a['mask'], a['shape']), a['shape'], out)
    mb = bc(mask_bits(b['mask'], b['shape']), b['shape'], out)
    polys = [list(np.atleast_1d(NPOP[op](p, q))) for p, q in zip(ea, eb)]
    r = cmp_cells(case, got, out, [x or y for x, y in zip(ma, mb)], polys)
    if r:
        return r
    # evaluating the result equals combining the evaluations (the real eval on both sides)
    for xv in case.get('xs', []):
        with warnings.catch_warnings():
            warnings.simplefilter('error')
            try:
                res = call(case)
                lhs = scalar_obs(res.eval(Scalar(float(xv))))
                pa, pb = mkpoly(a), mkpoly(b)
                rhs = scalar_obs(PYOP[op](pa.eval(Scalar(float(xv))), pb.eval(Scalar(float(xv)))))
            except Exception as e:
                return (sig(case, 'meta-eval:exception:' + C.exc_name(e)), '%s: evaluating the result at %s raised %r' % (op, xv, e))
        if lhs != rhs:
            return (sig(case, 'meta-eval'), '(p %s q).eval(%s) = %s but combining p.eval and q.eval gives %s' % (op, xv, lhs, rhs))
    return None


def judge_unary(case, call, impl):
    op, a = case['op'], case['a']
    got = impl(case)
    es = elems(a)
    ms = mask_bits(a['mask'], a['shape'])
    if op == 'neg':
        polys = [[-x for x in p] for p in es]
    elif op == 'deriv':
        polys = [list(np.atleast_1d(np.polyder(p))) if len(p) > 1 else [0] for p in es]
    elif op == 'smul':
        polys = [list(np.atleast_1d(np.polymul(p, [case['k']]))) for p in es]
    elif op == 'sadd':
        k = [case['k']]
        f = {'p+k': lambda p: np.polyadd(p, k), 'k+p': lambda p: np.polyadd(k, p), 'p-k': lambda p: np.polysub(p, k),
             'k-p': lambda p: np.polysub(k, p)}[case['form']]
        polys = [list(np.atleast_1d(f(p))) for p in es]
    else:
        n = case['n']
        if n == 0:
            # the value is the constant polynomial 1; shape and mask of p**0 are not specified by the property
            if isinstance(got, str):
                return (sig(case, 'exception:' + got), 'p**0 raised ' + got)
            for cell in got[1]:
                if cell != 'm' and trim(cell) != [1]:
                    return (sig(case, 'value'), 'p**0 has coefficients %s' % (cell,))
            return None
        polys = []
        for p in es:
            q = [1]
            for _ in range(n):
                q = list(np.atleast_1d(np.polymul(q, p)))
            polys.append(q)
    r = cmp_cells(case, got, a['shape'], ms, polys)
    if r:
        return r
    if op in ('neg', 'pow'):
        for xv in case.get('xs', []):
            with warnings.catch_warnings():
                warnings.simplefilter('error')
                try:
                    lhs = scalar_obs(call(case).eval(Scalar(float(xv))))
                    e = mkpoly(a).eval(Scalar(float(xv)))
                    rhs = scalar_obs(-e if op == 'neg' else e ** case['n'])
                except Exception as ex:
                    return (sig(case, 'meta-eval:exception:' + C.exc_name(ex)), '%s: evaluating the result raised %r' % (op, ex))
            if lhs != rhs:
                return (sig(case, 'meta-eval'), '(%s p).eval(%s) = %s but combining gives %s' % (op, xv, lhs, rhs))
    return None


def judge_eval(case, impl):
    a, xo, form = case['a'], case['x'], case.get('xform', 'scalar')
    out = np_bcast(a['shape'], xo['shape'])
    p = mkpoly(a)
    pv0 = np.array(p._values_, copy=True)
    x, same = mkx(xo, form)
    try:
        with warnings.catch_warnings():
            warnings.simplefilter('error')
            r = p.eval(x)
    except Exception as e:
        r = C.exc_name(e)
    if not same():
        return (sig(case, 'argument-modified'), 'eval changed its argument x (order %d)' % (a['len'] - 1))
    if not np.array_equal(p._values_, pv0):
        return (sig(case, 'self-modified'), 'eval changed the polynomial')
    if out is None:
        if r != 'ValueError':
            return (sig(case, 'no-ValueError'), 'eval with incompatible shapes did not raise ValueError')
        return None
    if isinstance(r, str):
        return (sig(case, 'exception:' + r), 'eval raised %s (order %d)' % (r, a['len'] - 1))
    if not isinstance(r, Scalar):
        return (sig(case, 'type'), 'eval returned %s' % type(r).__name__)
    if list(r._shape_) != out:
        return (sig(case, 'shape'), 'eval: result shape %s, broadcasting gives %s' % (list(r._shape_), out))
    ea = bc(elems(a), a['shape'], out)
    ex = bc(list(xo['vals']), xo['shape'], out)
    ma = bc(mask_bits(a['mask'], a['shape']), a['shape'], out)
    mx = bc(mask_bits(xo['mask'], xo['shape']), xo['shape'], out)
    gm = expanded_mask(r).ravel()
    gv = np.broadcast_to(np.asarray(r._values_, dtype=float), r._shape_).ravel()
    for i in range(len(ea)):
        em = bool(ma[i] or mx[i])
        if bool(gm[i]) != em:
            return (sig(case, 'mask'), 'eval: element %d masked=%s, union of masks says %s' % (i, bool(gm[i]), em))
        if not em:
            ev = float(np.polyval(np.array(ea[i], dtype=float), float(ex[i])))
            if float(gv[i]) != ev:
                return (sig(case, 'value'), 'eval: p=%s at x=%s gives %r, numpy.polyval gives %r' % (ea[i], ex[i], float(gv[i]), ev))
    return None


# ------------------------------------------------------------------ roots
def companion_eigs(o):
    """what polymath hands to LAPACK for order >= 3 and what comes back, recomputed with plain NumPy on an identically
    built stacked array (all-zero rows -> 1 x^n, leading zeros shifted out): (first rows, shift counts, eigenvalues)"""
    shape, n = list(o['shape']), o['len'] - 1
    c = np.array(o['vals'], dtype=float).reshape(shape + [n + 1]).copy()
    allz = np.all(c == 0., axis=-1)
    c[allz, 0] = 1.
    cnt = int(np.prod(shape, dtype=int))
    flat = c.reshape(cnt, n + 1)
    shifts = [0] * cnt
    for i in range(cnt):
        while flat[i, 0] == 0.:
            flat[i, :-1] = flat[i, 1:].copy()
            flat[i, -1] = 0.
            shifts[i] += 1
    c = flat.reshape(shape + [n + 1])
    mat = np.empty(tuple(shape) + (n, n))
    mat[..., :, :] = np.diag(np.ones((n - 1,)), -1)
    mat[..., 0, :] = -c[..., 1:] / c[..., 0:1]
    ev = np.linalg.eigvals(mat).reshape(cnt, n)
    return mat[..., 0, :].reshape(cnt, n), shifts, ev


def check_eig_contract(case):
    """monitor the LAPACK contract assumed by roots_high_spectral_partial on the recorded eigenvalues:
    (A) every eigenvalue is a root of the characteristic polynomial x^n - row(x) (residual), their sum is the trace;
    (B) the first `shifts` entries are exact zeros, and a further exact zero is present iff p(0) = 0"""
    a = case['a']
    n = a['len'] - 1
    rows, shifts, ev = companion_eigs(a)
    es = elems(a)
    pm = mask_bits(a['mask'], a['shape'])
    for i in range(len(ev)):
        if pm[i]:
            continue                        # masked polynomial: what is handed to LAPACK there is not observable
        monic = np.concatenate(([1.0], -rows[i]))
        for z in ev[i]:
            scale = float(np.polyval(np.abs(monic), abs(z)))
            if not abs(np.polyval(monic, z)) <= 1e-8 * scale:
                return (sig(case, 'eigvals-contract:residual'),
                        'eigvals of the companion matrix of %s: %r is not a root of the characteristic polynomial (residual %r, scale %r)'
                        % (es[i], complex(z), abs(np.polyval(monic, z)), scale))
        if abs(np.sum(ev[i]) - rows[i][0]) > 1e-8 * max(1.0, float(np.sum(np.abs(ev[i])))):
            return (sig(case, 'eigvals-contract:trace'), 'eigvals of the companion matrix of %s: sum %r, trace %r'
                    % (es[i], complex(np.sum(ev[i])), rows[i][0]))
        k = shifts[i]
        if any(z != 0 for z in ev[i][:k]):
            return (sig(case, 'eigvals-contract:zeros-first'),
                    'companion matrix of %s (%d leading zeros): the first %d eigenvalues %s are not exact zeros'
                    % (es[i], k, k, [complex(z) for z in ev[i][:k]]))
        if any(c != 0 for c in es[i]):
            has0 = any(z == 0 for z in ev[i][k:])
            if has0 != (es[i][-1] == 0):
                return (sig(case, 'eigvals-contract:zero-root'),
                        'companion matrix of %s: exact zero eigenvalue after the first %d: %s, but p(0) = %s'
                        % (es[i], k, has0, es[i][-1]))
    return None


def near(u, v, tol):
    return abs(u - v) <= tol * max(1.0, abs(v))


def judge_roots(case, got):
    a = case['a']
    n = a['len'] - 1
    if n == 0:
        return None                         # roots of a constant: the code raises ValueError; the property is silent
    if isinstance(got, str):
        return (sig(case, 'exception:' + got), 'roots() of an order-%d polynomial raised %s' % (n, got))
    shape, cells = got
    if list(shape) != list(a['shape']):
        return (sig(case, 'shape'), 'roots: leading shape %s instead of %s' % (shape, a['shape']))
    mb = mask_bits(a['mask'], a['shape'])
    es = elems(a)
    for i, (row, lane) in enumerate(cells):
        vals = [None if z == 'm' else unbits(z) for z in lane]
        if len(vals) != n:
            return (sig(case, 'length'), 'roots: %d entries for order %d' % (len(vals), n))
        um = [v for v in vals if v is not None]
        c = es[i]
        if vals[:len(um)] != um:
            return (sig(case, 'masked-not-last'), 'roots of %s: masked entry before an unmasked root: %s' % (c, vals))
        if any(not (um[k] < um[k + 1]) for k in range(len(um) - 1)):
            return (sig(case, 'not-increasing'), 'roots of %s not strictly increasing (duplicate or unsorted): %s' % (c, um))
        if mb[i]:
            if um:
                return (sig(case, 'mask'), 'masked polynomial has unmasked roots %s' % (um,))
            continue
        q = trim(c)
        if not q:
            continue                        # the zero polynomial: the property does not say what its roots are
        deg = len(q) - 1
        qf = np.array(q, dtype=float)
        for r in um:
            if not np.isfinite(r):
                return (sig(case, 'nonfinite'), 'roots of %s: non-finite root %r' % (c, r))
            scale = float(np.polyval(np.abs(qf), abs(r)))
            if abs(float(np.polyval(qf, r))) > 1e-10 * scale:
                return (sig(case, 'residual'), 'root %r of %s evaluates to %r (scale %r)' % (r, c, float(np.polyval(qf, r)), scale))
        if deg == 0:
            exact = []
        elif deg == 1:
            exact = [-q[1] / q[0]]
        elif deg == 2 and n <= 2:
            D = q[1] * q[1] - 4 * q[0] * q[2]
            if D < 0: exact = []
            elif D == 0: exact = [-q[1] / (2.0 * q[0])]
            else:
                s = float(np.sqrt(D))
                exact = sorted([(-q[1] - s) / (2.0 * q[0]), (-q[1] + s) / (2.0 * q[0])])
        else:
            exact = None
        if exact is not None:
            if len(um) != len(exact) or any(not near(u, v, 1e-9) for u, v in zip(um, exact)):
                return (sig(case, 'real-roots'), 'roots of %s: got %s, the real roots are %s' % (c, um, exact))
            continue
        # order >= 3: numpy.roots with tolerance; clusters (multiple roots) are ill-conditioned
        # (a root of multiplicity m is spread over a disc of radius ~ eps**(1/m): up to ~2e-2 for m = 7)
        tr = np.roots(qf)
        CL = 0.03
        cluster = [sum(1 for w in tr if abs(z - w) <= CL * max(1.0, abs(z))) for z in tr]
        certain_real = [float(z.real) for z, k in zip(tr, cluster) if k == 1 and z.imag == 0]
        uncertain = [z for z, k in zip(tr, cluster) if k > 1 or (k == 1 and z.imag != 0 and abs(z.imag) <= 1e-6)]
        for t in certain_real:
            k = sum(1 for r in um if near(r, t, 1e-7))
            if k != 1:
                return (sig(case, 'real-roots'), 'roots of %s: simple real root %r returned %d times in %s' % (c, t, k, um))
        for r in um:
            ok = any(near(r, t, 1e-7) for t in certain_real) or \
                 any(abs(z.imag) <= CL * max(1.0, abs(z)) and near(r, z.real, CL) for z in uncertain)
            if not ok:
                return (sig(case, 'real-roots'), 'roots of %s: %r is not a real root (numpy.roots: %s)' % (c, r, list(tr)))
    return None
