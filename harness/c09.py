"""C09 — indexing reads exactly the selected elements; masked index entries mask results."""
import itertools
import numpy as np
from absn import *
import common as C
import c09_ref as R
import c09_gen as G

PROP = 'C09'
LEAN_MODULES = ['PMV.Props.C09']
PARALLEL = True
RULE = ('identifier-tagged objects (value = ravelled position, tagged derivatives) x index tuples of up to rank+2 entries '
        'from every entry kind in every position; distinct = distinct request line; non-trivial = the index contains an '
        'array entry, a masked/out-of-range entry or the object has masked elements')
MANIFEST = {
    'text': 'Kernel-checked theorems (PMV/Props/C09.lean, 31) about a code-shaped Lean model of polymath/extensions/indexer.py '
            '(_prep_index statement by statement, _prep_scalar_index, __getitem__ with every mask-representation branch, '
            'relocation of array axes, derivative recursion, iteration) on top of a denotational model of NumPy basic + '
            'advanced indexing, relative to a per-element specification sel. End-to-end refinements getitem = sel: shapeless '
            'objects (complete); tuples of None/Ellipsis/slices/integers/single booleans of any length on any rank '
            '(getitem_basic, complete incl. error agreement); one array entry with masked and out-of-range elements in any '
            'position after None/Ellipsis/slices/booleans (getitem_one_array_partial: the class of the axis-misplacement defect); '
            'several array entries of one array shape with accumulated post-masks, adjacent (getitem_arrays_adjacent_partial) or '
            'separated by slices with NumPy front placement and polymath relocation (getitem_arrays_separated_partial), and '
            'Pair/Vector index objects via their expansion (getitem_vector_index, getitem_basic_expanded). '
            'Stage theorems: per-entry replacement/flags, mask merge in all 3x3 representation branches (mask_iff), relocation, '
            'derivatives, iteration, invalid entries. The model is tied to /repo on every run: the same index tuples go to the '
            'real code and to the compiled model (outputs diffed), the NumPy model is compared with real NumPy (kernel suite), '
            'the Lean specification with an independent Python reference (spec suite), and that reference judges the real '
            'code directly.',
    'design': 'DESIGN.md §3 C09, DESIGN.d/C09.md',
    'technique': 'Lean 4 proof (induction over index lists linking absolute axis bookkeeping to progressive consumption; case analysis over representations) + model/code correspondence + NumPy kernel suite + spec suite',
    'note': 'NOT proved end to end: arrays of different broadcastable shapes, integers ahead of '
            'the first array entry, shapes with empty axes in the array theorems (T1 + oracle only); see DESIGN.d/C09.md. Open finding '
            'KF-C09-1 (integer index on a zero-length axis raises IndexError). Five indexing defects of the pinned tree repaired.',
}
ASSUMPTIONS = ['slices are abstracted as the list of source coordinates they select (polymath passes them to NumPy untouched)',
               'NumPy semantics = PMV/Model/NpIndex.lean, validated by the kernel suite of this run (not proved)',
               'an integer separated from the array indices by a slice keeps NumPy\'s axis order (DESIGN §8.2; the repository\'s own '
               'test a[0,...,mask] pins it)',
               'which unused index replaces a masked entry is unobservable; the model takes the smallest',
               'top-level list indices (q[[0,1]]) are treated by the code as tuples and are not generated']
TRUSTED_EXTRA = ['NumPy advanced-indexing rules as stated in PMV/Model/NpIndex.lean (kernel suite: real NumPy vs model on every run; '
                 'NumPy\'s leniency for EMPTY boolean index arrays of the wrong shape is left out, unreachable from polymath)']


# ------------------------------------------------------------------------------------------------ real code
def np_index(case):
    """the kernel suite: real NumPy on an identifier array"""
    shape = case['shape']
    a = np.arange(R.prod(shape), dtype='int64').reshape(shape)
    idx = []
    for e in case['nraw']:
        k = e[0]
        if k == 'newaxis': idx.append(None)
        elif k == 'ell': idx.append(Ellipsis)
        elif k == 'slice': idx.append(slice(e[1], e[2], e[3]))
        elif k == 'int': idx.append(e[1])
        elif k == 'arr': idx.append(np.array(e[2], dtype=np.intp).reshape(e[1]))
        elif k == 'barr': idx.append(np.array(e[2], dtype=bool).reshape(e[1]))
    r = a[tuple(idx)]
    return [list(r.shape), [int(x) for x in r.ravel()]]


def call(case):
    op = case['op']
    if op == 'np':
        return np_index(case)
    if op == 'reuse':
        return reuse(case)
    if op == 'sel':
        # spec suite: the independent Python reference (no polymath code involved)
        r = expect_get({'shape': case['obj']['shape'], 'mask': 'F', 'derivs': {}}, case['index'])
        return r if isinstance(r, str) else r[0]
    q = R.mk_object(case['obj'])
    if op == 'get':
        return R.observe_all(q[R.mk_index(case)])
    if op == 'iter':
        return [R.observe_all(x) for x in q]
    if op == 'ndenum':
        return [[list(i), R.observe_all(x)] for i, x in q.ndenumerate()]
    if op == 'len':
        return len(q)
    raise KeyError(op)


def index_snapshot(objs):
    """values and mask (representation and bits) of the index objects and of objects sharing their masks"""
    snap = []
    for o in objs:
        if isinstance(o, Qube):
            m = o._mask_
            snap.append((type(o).__name__, np.asarray(o._values_).tobytes(), np.shape(m),
                         np.asarray(m).tobytes(), bool(o._readonly_)))
        elif isinstance(o, np.ndarray):
            snap.append(('ndarray', o.tobytes()))
    return snap


def reuse(case):
    """ONE index (the same objects) applied to several targets in turn; the index objects must not change"""
    ents = [R.mk_entry_ro(e) for e in case['index']]
    watched = list(ents)
    for e, o in zip(case['index'], ents):
        if e.get('share') and isinstance(o, Qube) and isinstance(o._mask_, np.ndarray):
            watched.append(Scalar(np.zeros(o._mask_.shape), o._mask_))      # another object on the same mask array
    index = ents[0] if (case.get('bare') and len(ents) == 1) else tuple(ents)
    before = index_snapshot(watched)
    out = []
    for t in case['targets']:
        q = R.mk_object(t)
        try:
            out.append(R.observe_all(q[index]))
        except Exception as e:
            out.append(C.exc_name(e))
    out.append('index-unchanged' if index_snapshot(watched) == before else 'index-CHANGED')
    return out


def impl(case):
    import warnings
    try:
        with warnings.catch_warnings():
            warnings.simplefilter('ignore')
            return call(case)
    except Exception as e:
        return C.exc_name(e)


# ------------------------------------------------------------------------------------------------ reference
def ravel(shape, idx):
    p = 0
    for n, i in zip(shape, idx):
        p = p * n + i
    return p


def ref_scalar(entries):
    """shapeless objects: True/False/masked Boolean/None/Ellipsis/full slice only -> (shape, masked)"""
    before, after, ell, has_bool, masked = [], [], False, False, False
    for e in entries:
        k = e['k']
        if k == 'bool':
            if has_bool:
                raise R.RefError('too many indices')
            has_bool = True
            if e.get('m'):
                masked = True
            elif not e['v']:
                (after if ell else before).append(0)
        elif k == 'ell':
            if ell:
                raise R.RefError('two ellipses')
            ell = True
        elif k == 'none':
            (after if ell else before).append(1)
        elif k == 'slice' and (e['a'], e['b'], e['c']) == (None, None, None):
            pass
        else:
            raise R.RefError('invalid index for a shapeless object')
    return before + after, masked


def expect_get(obj, entries):
    """expected canonical observation of obj[index]"""
    shape = obj['shape']
    masks = [obj['mask']] + [d['mask'] for _, d in sorted((obj.get('derivs') or {}).items())]
    try:
        if not shape:
            out_shape, masked = ref_scalar(entries)
            sel = [((), masked)] * R.prod(out_shape)
        else:
            out_shape, sel = R.ref_select(shape, entries)
    except R.RefError:
        return 'IndexError'
    res = []
    for m in masks:
        bits = mask_bits(m, shape)
        row = []
        for src, flag in sel:
            if flag or bits[ravel(shape, src)]:
                row.append('m')
            else:
                row.append(ravel(shape, src))
        res.append([list(out_shape), row])
    return res


def ient(i):
    return {'k': 'int', 'v': i, 'form': 'py', 'm': False}


def expect(case):
    if case['op'] in ('np', 'sel'):
        return None                      # kernel / spec suite: correspondence only
    if case['op'] == 'reuse':
        # every application judged as if the index objects were fresh; an index is an operand, not a target
        return [expect_get(t, case['index']) for t in case['targets']] + ['index-unchanged']
    op, obj = case['op'], case['obj']
    if op == 'get':
        return expect_get(obj, case['index'])
    if op == 'len':
        return obj['shape'][0] if obj['shape'] else 'TypeError'
    if not obj['shape']:
        return None                      # iteration over a shapeless object: the property is silent
    if op == 'iter':
        return [expect_get(obj, [ient(i)]) for i in range(obj['shape'][0])]
    if op == 'ndenum':
        return [[list(i), expect_get(obj, [ient(k) for k in i])] for i in R.unravel(obj['shape'])]
    raise KeyError(op)


def features(case):
    """coarse structural description of an index, used in `kind` and in failure signatures"""
    if case['op'] == 'sel':
        return 'spec-suite'
    if case['op'] == 'reuse':
        return 'index-reuse'
    if case['op'] == 'reuse':
        return 'index-reuse'
    if case['op'] != 'get':
        return case['op'] if case['op'] != 'np' else 'numpy-kernel'
    obj = case['obj']
    ents = case['index']
    tags = []
    names = []
    for e in ents:
        k = e['k']
        if k == 'vec':
            k = 'vec' if e['shape'] else 'vec0'
        names.append(k)
    arr = [i for i, k in enumerate(names) if k in ('iarr', 'barr', 'vec')]
    if not obj['shape']:
        return 'shapeless'
    if not arr:
        return 'basic'
    if len(arr) == 1 and names[arr[0]] != 'vec':
        tags.append('one-array' + ('' if arr[0] == 0 else '-notfirst'))
    else:
        sep = any(any(names[j] in ('slice', 'none', 'ell', 'bool') for j in range(a + 1, b)) for a, b in zip(arr, arr[1:]))
        tags.append('arrays-separated' if sep else 'arrays-adjacent')
    return '+'.join(tags)


def flagged(case):
    """does any index entry carry a masked or (potentially) out-of-range element?"""
    for e in case.get('index', []):
        if e['k'] in ('int', 'bool') and e.get('m'):
            return True
        if e['k'] in ('iarr', 'barr', 'vec') and e.get('m') not in (None, 'F'):
            return True
    return False


def signature(case, got, exp):
    if case['op'] == 'reuse':
        if isinstance(got, list) and got and got[-1] != 'index-unchanged':
            return 'reuse:index-object-changed'
        if isinstance(got, list) and isinstance(exp, list):
            for t, g, e in zip(case['targets'], got, exp):
                if C.sx(g) != C.sx(e):
                    if g == 'IndexError' and not isinstance(e, str) and R.int_on_zero_axis(t['shape'], case['index']):
                        return 'get:int-on-zero-length-axis:raises-IndexError'
                    return 'reuse:later-application-differs'
        return 'reuse'
    if case['op'] != 'get':
        return case['op']
    f = features(case)
    if isinstance(got, str):
        how = 'raises-' + got
    elif isinstance(exp, str):
        how = 'no-' + exp
    elif [g[0] for g in got] != [e[0] for e in exp]:
        how = 'shape'
    elif [['m' if x == 'm' else 'u' for x in g[1]] for g in got] != [['m' if x == 'm' else 'u' for x in e[1]] for e in exp]:
        how = 'mask'
    else:
        how = 'elements'
    if (not case['obj']['shape'] and not isinstance(got, str) and not isinstance(exp, str) and len(got) == len(exp)
            and got[0] == exp[0] and [g[0] for g in got] == [e[0] for e in exp]
            and mask_bits(case['obj']['mask'], [])[0] and any(e['k'] == 'bool' and e.get('m') for e in case['index'])):
        # the object's own part is right; only derivatives of an ALREADY MASKED shapeless object differ
        return 'get:shapeless:masked-object:derivative-not-masked-by-masked-index'
    if got == 'IndexError' and not isinstance(exp, str) and R.int_on_zero_axis(case['obj']['shape'], case['index']):
        return 'get:int-on-zero-length-axis:raises-IndexError'
    return 'get:%s:%s' % (f, how)


def oracle(case):
    exp = expect(case)
    if exp is None:
        return None
    got = impl(case)
    if C.sx(got) != C.sx(exp):
        return (signature(case, got, exp),
                '%s %s: implementation returned %s, per-element reference says %s' % (case['op'], describe(case), C.sx(got)[:300], C.sx(exp)[:300]))
    return None


def describe(case):
    if case['op'] == 'reuse':
        return 'the SAME index objects %s applied in turn to targets of shapes %s' % (
            repr(R.mk_index(case)).replace('\n', ' ')[:200], [t['shape'] for t in case['targets']])
    o = case['obj']
    s = '%s shape=%s item=%s' % (o['cls'], o['shape'], o['item'])
    if case['op'] == 'get':
        s += ' index=' + repr(R.mk_index(case)).replace('\n', ' ')
    return s


# ------------------------------------------------------------------------------------------------ requests
def wire_mask(m, shape):
    """wire form of a REAL mask attribute: T / F / expanded bits"""
    if np.shape(m) == ():
        return bool(m)
    return [bool(x) for x in np.broadcast_to(m, tuple(shape)).ravel()]


def wire_entry(e, axis_len):
    """abstraction of one index entry: built as the real object first, then read back"""
    k = e['k']
    if k == 'none':
        return ['none']
    if k == 'ell':
        return ['ell']
    if k == 'slice':
        sl = slice(e['a'], e['b'], e['c'])
        coords = list(range(*sl.indices(axis_len))) if axis_len is not None else []
        return ['slice', sl == slice(None, None, None), coords]
    if k in ('float', 'bad'):
        return [k]
    obj = R.mk_entry(e)
    if k == 'int':
        return ['int', int(e['v']), bool(obj._mask_) if isinstance(obj, Qube) else False]
    if k == 'bool':
        return ['bool', bool(e['v']), bool(obj._mask_) if isinstance(obj, Qube) else False]
    shape = list(e['shape'])
    m = wire_mask(obj._mask_, shape) if isinstance(obj, Qube) else False
    if k == 'iarr':
        return ['iarr', shape, [int(x) for x in e['v']], m]
    if k == 'barr':
        return ['barr', shape, [bool(x) for x in e['v']], m]
    if k == 'vec':
        return ['vec', e['n'], shape, [int(x) for x in e['v']], m]
    raise KeyError(k)


def wire_object(obj):
    q = R.mk_object(obj)
    shape = list(obj['shape'])
    return shape, [wire_mask(q._mask_, shape)] + [wire_mask(q._derivs_[key]._mask_, shape) for key in sorted(q._derivs_)]


def wire_index(shape, entries):
    axes = R.entry_axes(shape, entries)
    return [wire_entry(e, (shape[a] if a is not None and a < len(shape) else None)) for e, a in zip(entries, axes)]


def request(case):
    op = case['op']
    if op == 'np':
        return ['c09', 'np', case['shape'], case['nidx']]
    if op == 'reuse':
        # slices are abstracted per target, so the index is sent once per target via `get`-style targets only when
        # it has no slice: the generator of reuse cases uses full slices (same abstraction problem) -> send per target
        ts = []
        for t in case['targets']:
            shape, masks = wire_object(t)
            ts.append([shape, masks])
        shape0 = list(case['targets'][0]['shape'])
        return ['c09', 'getseq', wire_index(shape0, case['index']), ts]
    shape, masks = wire_object(case['obj'])
    if op == 'get':
        return ['c09', 'get', shape, masks, wire_index(shape, case['index'])]
    if op == 'sel':
        return ['c09', 'sel', shape, wire_index(shape, case['index'])]
    if op in ('iter', 'ndenum'):
        return ['c09', op, shape, masks]
    if op == 'len':
        return ['c09', 'len', shape]
    return None


# ------------------------------------------------------------------------------------------------ generation
def mk_np(rng, shape, max_entries=None):
    """random NumPy index tuple for the kernel suite (raw form for NumPy, abstracted form for the model)"""
    rank = len(shape)
    n = rng.randint(1, (rank + 2) if max_entries is None else max_entries)
    raw, cons, ell = [], 0, False
    common = [rng.choice([1, 2, 3])] if rng.random() < 0.7 else [rng.choice([1, 2]), rng.choice([2, 3])]
    over = rng.random() < 0.05
    for _ in range(n):
        k = rng.choice(['newaxis', 'ell', 'slice', 'slice', 'int', 'int', 'arr', 'arr', 'arr', 'barr', 'barr2'])
        c = {'newaxis': 0, 'ell': 0, 'barr2': 2}.get(k, 1)
        if (k == 'ell' and ell and rng.random() < 0.95) or (cons + c > rank and not over):
            k, c = 'newaxis', 0
        ax = shape[cons] if cons < rank else 2
        if k == 'newaxis': raw.append(['newaxis'])
        elif k == 'ell':
            raw.append(['ell']); ell = True
        elif k == 'slice':
            if rng.random() < 0.4: raw.append(['slice', None, None, None])
            else: raw.append(['slice', rng.choice([None, rng.randint(-ax - 1, ax + 1)]), rng.choice([None, rng.randint(-ax - 1, ax + 1)]), rng.choice([None, 1, 2, -1, -2])])
        elif k == 'int':
            raw.append(['int', G.rand_int(rng, ax, 0.08)])
        elif k == 'arr':
            sh = G.arr_shape(rng, common)
            raw.append(['arr', sh, [G.rand_int(rng, ax, 0.02) for _ in range(R.prod(sh))]])
        else:
            r = 1 if k == 'barr' else 2
            sh = [shape[cons + j] if cons + j < rank else 2 for j in range(r)]
            if rng.random() < 0.05: sh[0] += 1
            sz = R.prod(sh)
            bits = [False] * sz
            if rng.random() < 0.7 and sz:
                for p in rng.sample(range(sz), min(common[-1], sz)): bits[p] = True
            else:
                bits = [rng.random() < 0.5 for _ in range(sz)]
            raw.append(['barr', sh, bits])
        cons += c
    return raw


def np_lenient(shape, raw):
    total = sum({'newaxis': 0, 'ell': 0}.get(e[0], len(e[1]) if e[0] == 'barr' else 1) for e in raw)
    ax, seen = 0, False
    for e in raw:
        if e[0] == 'barr':
            if R.prod(e[1]) == 0 and list(shape[ax:ax + len(e[1])]) != list(e[1]):
                return True
            ax += len(e[1])
        elif e[0] == 'ell':
            if not seen:
                ax += max(0, len(shape) - total)
            seen = True
        elif e[0] != 'newaxis':
            ax += 1
    return False


def np_abstract(shape, raw):
    """slices -> coordinate lists on the axis they land on"""
    def cons(e):
        return {'newaxis': 0, 'ell': 0}.get(e[0], len(e[1]) if e[0] == 'barr' else 1)
    total = sum(cons(e) for e in raw)
    ax, res, seen = 0, [], False
    for e in raw:
        if e[0] == 'slice':
            n = shape[ax] if ax < len(shape) else 0
            res.append(['coords', list(range(*slice(e[1], e[2], e[3]).indices(n)))])
        elif e[0] == 'arr':
            res.append(['arr', e[1], e[2]])
        elif e[0] == 'barr':
            res.append(['barr', e[1], [bool(b) for b in e[2]]])
        else:
            res.append(list(e))
        if e[0] == 'ell' and not seen:
            ax += max(0, len(shape) - total); seen = True
        ax += cons(e)
    return res


def mk(case):
    if case['op'] == 'reuse':
        case['req'] = request(case)
        case['kind'] = 'index-reuse'
        case['nontrivial'] = True
        return case
    if case['op'] == 'sel':
        case['req'] = request(case)
        case['kind'] = 'spec-suite'
        case['nontrivial'] = True
        return case
    if case['op'] == 'np':
        case['nidx'] = np_abstract(case['shape'], case['nraw'])
        case['req'] = request(case)
        if np_lenient(case['shape'], case['nraw']):
            case['req'] = None      # NumPy does not validate the shape of an EMPTY boolean index array; polymath
                                    # validates it itself before NumPy sees it (indexer.py:372-380), so the kernel
                                    # model keeps the strict rule and this corner is left out of the kernel suite
        case['kind'] = 'numpy-kernel'
        case['nontrivial'] = any(e[0] in ('arr', 'barr') for e in case['nraw'])
        return case
    case['req'] = request(case)
    case['kind'] = features(case)
    obj = case['obj']
    case['nontrivial'] = bool(flagged(case) or any(mask_bits(obj['mask'], obj['shape'])) or
                              any(e['k'] in ('iarr', 'barr', 'vec') for e in case.get('index', [])))
    return case


def sel_sibling(case):
    """the same index for the spec suite (Lean `sel` vs the Python reference), where `sel` is defined: a leading
    shape, not the integer-gap class of DESIGN 8.2 (where the reference keeps NumPy's order)"""
    obj, ents = case['obj'], case['index']
    if not obj['shape'] or any(e['k'] in ('float', 'bad') for e in ents):
        return None
    # a shapeless Pair/Vector expands into integers, one with a shape into adjacent arrays
    names = [('int' if e['k'] == 'vec' and not e['shape'] else 'iarr' if e['k'] == 'vec' else e['k']) for e in ents]
    arr = [i for i, k in enumerate(names) if k in ('iarr', 'barr')]
    adv = [i for i, k in enumerate(names) if k in ('iarr', 'barr', 'int')]
    if arr:
        arrays_sep = any(names[j] not in ('iarr', 'barr', 'int') for j in range(arr[0], arr[-1]))
        numpy_front = any(names[j] not in ('iarr', 'barr', 'int') for j in range(adv[0], adv[-1]))
        if numpy_front and not arrays_sep:
            return None
    return mk({'op': 'sel', 'obj': {'cls': 'Scalar', 'shape': obj['shape'], 'item': [], 'mask': 'F', 'derivs': {}},
               'index': ents})


def gen_cases(rng, tier):
    thorough = tier == 'thorough'
    cases = []
    n_random = 60000 if thorough else 9000
    for _ in range(n_random):
        obj = G.rand_object(rng)
        shape = obj['shape']
        kinds = G.rand_kinds(rng, len(shape))
        ents = G.concretise(rng, shape, kinds)
        bare = rng.random() < 0.3 and not (len(ents) == 1 and ents[0].get('form') == 'list')
        cases.append(mk({'op': 'get', 'obj': obj, 'index': ents, 'bare': bare}))
    # every kind tuple (10 entry kinds, up to rank+2 entries, every position), concrete parameters drawn at random:
    # quick: rank <= 2 once; thorough: rank <= 3, three shapes each (lengths 0-3)
    for rank in range(0, 4 if thorough else 3):
        for kinds in G.all_kind_tuples(rank):
            for _ in range(3 if thorough else 1):
                shape = [rng.choice([0, 1, 2, 3, 2, 3]) for _ in range(rank)]
                obj = G.rand_object(rng, shape=shape, derivs=False, classes=['Scalar', 'Scalar', 'Vector'])
                cases.append(mk({'op': 'get', 'obj': obj, 'index': G.concretise(rng, shape, kinds), 'bare': False}))
    # index-object REUSE: the same Scalar / Boolean / Pair / Vector index objects (array mask, scalar mask, read-only,
    # mask array shared with another object) applied to targets of DIFFERENT axis lengths in turn
    for _ in range(3000 if thorough else 600):
        kind = rng.choice(['iarr', 'iarr', 'iarr', 'vec2', 'barr1', 'int'])
        n_t = rng.choice([2, 3, 3])
        lens = [rng.choice([1, 2, 3, 4, 5]) for _ in range(n_t)]
        nmax = max(lens)
        if kind == 'barr1':
            lens = [lens[0]] * n_t                       # a boolean array fits one axis length only
        extra = [rng.choice([1, 2, 3]) for _ in range(rng.choice([0, 1, 1]))]
        if kind == 'vec2':
            extra = [rng.choice([2, 3, 4])] + extra
        ent = G.mk_kind(rng, kind, [nmax] + extra, None, p_mask=0.25, p_oob=0.1)
        if kind in ('iarr', 'int'):
            ent['form'] = 'Scalar'
            if kind == 'iarr' and ent.get('m') is None:
                ent['m'] = G.rand_mask_rep(rng, ent['shape'], p=0.25, views=False)
        if kind == 'barr1':
            ent['form'] = 'Boolean'
            ent['m'] = G.rand_mask_rep(rng, ent['shape'], p=0.25, views=False)
        ent['ro'] = rng.random() < 0.35
        ent['share'] = rng.random() < 0.4
        lead = rng.random() < 0.3
        index = ([{'k': 'slice', 'a': None, 'b': None, 'c': None}] if lead else []) + [ent]
        targets = []
        for n in lens:
            shape = ([2] if lead else []) + [n] + extra
            targets.append(G.rand_object(rng, shape=shape, derivs=rng.random() < 0.2, classes=['Scalar', 'Scalar', 'Vector']))
        if lead and len({tuple(t['shape'][:1]) for t in targets}) != 1:
            continue
        cases.append(mk({'op': 'reuse', 'index': index, 'targets': targets, 'bare': not lead and rng.random() < 0.5}))
    # rank-0 rejection table: a shapeless object x EVERY index kind (masked and unmasked, class constants), alone and
    # next to None / Ellipsis: only True/False/masked Boolean, None, Ellipsis and ':' are indices of a shapeless object;
    # whether anything else is rejected ("too many indices") must not depend on the index's mask
    full = {'k': 'slice', 'a': None, 'b': None, 'c': None}
    table = [{'k': 'int', 'v': 0, 'form': 'py', 'm': False}, {'k': 'int', 'v': -1, 'form': 'np', 'm': False},
             {'k': 'int', 'v': 0, 'form': 'Scalar', 'm': False}, {'k': 'int', 'v': 0, 'form': 'Scalar', 'm': True},
             {'k': 'int', 'v': 3, 'form': 'Scalar', 'm': True}, {'k': 'int', 'v': 0, 'form': 'const', 'm': True},
             {'k': 'vec', 'shape': [], 'n': 2, 'v': [0, 0], 'form': 'Pair', 'm': 'F'},
             {'k': 'vec', 'shape': [], 'n': 2, 'v': [0, 0], 'form': 'Pair', 'm': 'T'},
             {'k': 'vec', 'shape': [], 'n': 3, 'v': [0, 1, 0], 'form': 'Vector', 'm': 'T'},
             {'k': 'vec', 'shape': [2], 'n': 2, 'v': [0, 0, 0, 0], 'form': 'Pair', 'm': 'T'},
             {'k': 'bool', 'v': True, 'form': 'py', 'm': False}, {'k': 'bool', 'v': False, 'form': 'np', 'm': False},
             {'k': 'bool', 'v': True, 'form': 'Boolean', 'm': False}, {'k': 'bool', 'v': False, 'form': 'Boolean', 'm': False},
             {'k': 'bool', 'v': True, 'form': 'Boolean', 'm': True}, {'k': 'bool', 'v': False, 'form': 'Boolean', 'm': True},
             {'k': 'bool', 'v': True, 'form': 'const', 'm': True},
             {'k': 'none'}, {'k': 'ell'}, full, {'k': 'slice', 'a': 0, 'b': None, 'c': None}, {'k': 'slice', 'a': None, 'b': 1, 'c': None},
             {'k': 'iarr', 'shape': [1], 'v': [0], 'form': 'np'}, {'k': 'iarr', 'shape': [1], 'v': [0], 'form': 'Scalar', 'm': 'T'},
             {'k': 'iarr', 'shape': [2], 'v': [0, 0], 'form': 'Scalar', 'm': [True, True]},
             {'k': 'barr', 'shape': [1], 'v': [True], 'form': 'np'}, {'k': 'barr', 'shape': [1], 'v': [True], 'form': 'Boolean', 'm': 'T'},
             {'k': 'float', 'form': 'py'}, {'k': 'float', 'form': 'Scalar'}, {'k': 'bad', 'form': 'str'}]
    for om in ('F', 'T'):
        for cls in ('Scalar', 'Vector'):
            for e in table:
                for ctx in ([e], [{'k': 'none'}, e], [e, {'k': 'ell'}], [{'k': 'ell'}, e, {'k': 'none'}]):
                    obj = {'cls': cls, 'shape': [], 'item': R.ITEMS[cls][0], 'mask': om,
                           'derivs': ({'t': {'denom': [], 'mask': 'F'}} if cls == 'Scalar' and om == 'T' else {})}
                    cases.append(mk({'op': 'get', 'obj': obj, 'index': [dict(x) for x in ctx],
                                     'bare': len(ctx) == 1 and e['k'] != 'iarr'}))
    # shapeless objects with derivatives: every combination of object mask x derivative mask x a few scalar indices
    bm = {'k': 'bool', 'v': True, 'form': 'Boolean', 'm': True}
    for om in ('F', 'T'):
        for dmk in ('F', 'T'):
            for ents in ([bm], [{'k': 'none'}, bm], [bm, {'k': 'ell'}, {'k': 'none'}], [{'k': 'bool', 'v': True, 'form': 'py', 'm': False}],
                         [{'k': 'bool', 'v': False, 'form': 'Boolean', 'm': False}], [{'k': 'ell'}], [{'k': 'none'}, {'k': 'ell'}]):
                for cls in ('Scalar', 'Vector'):
                    obj = {'cls': cls, 'shape': [], 'item': R.ITEMS[cls][0], 'mask': om,
                           'derivs': {'t': {'denom': [], 'mask': dmk}, 'xy': {'denom': [2], 'mask': 'F'}}}
                    cases.append(mk({'op': 'get', 'obj': obj, 'index': [dict(e) for e in ents], 'bare': False}))
    for c in list(cases)[:: 2 if thorough else 3]:
        if c['op'] == 'get':
            sib = sel_sibling(c)
            if sib is not None:
                cases.append(sib)
    for _ in range(40000 if thorough else 4000):
        shape = G.rand_shape(rng, 3, 3)
        cases.append(mk({'op': 'np', 'shape': shape, 'nraw': mk_np(rng, shape)}))
    for _ in range(600 if thorough else 150):
        obj = G.rand_object(rng, shape=G.rand_shape(rng, 3, 3))
        for op in ('iter', 'ndenum', 'len'):
            cases.append(mk({'op': op, 'obj': obj}))
    return cases


def neighbours(case):
    return []
