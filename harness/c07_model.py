"""C07: abstraction of real operands into heap-model requests and canonical observations (see lean/Driver/C07.lean).

The abstraction function: every ndarray reachable from the operands becomes an ndarray cell (numbered in the order
values, mask, derivatives by key, operand by operand), ndarrays that share memory are put on the same buffer cell,
every distinct Qube / Units object becomes an object / units cell.  The summary and its branch parameters (number of
derivatives, 'some determinant is zero') are chosen here from the call."""
import numpy as np
import c07_sweep as S
from c07_sweep import Qube, Units

KEYCODE = {'t': 0, 'u': 1, 'n': 2}
NEXT = 5000


def summary_for(case, built):
    """(summary name, flag, keys) for a catalogued call, or None"""
    if case.get('cat') is None:
        return None
    recv = built[0]
    keys = sorted(KEYCODE[k] for k in recv._derivs_) if isinstance(recv, Qube) else []
    name = case['cat']
    flag = False
    if name == 'inverse':
        with np.errstate(all='ignore'):
            flag = bool(np.any(np.linalg.det(recv._values_) == 0.))
    if name == 'rot90':
        flag = True
    if name == 'unitsMulNone':
        flag = bool(case.get('named'))
    if name == 'arith':
        # as_readonly() froze the receiver and its derivatives: every mask ARRAY among them is then non-writeable
        flag = bool(recv._readonly_)
    if name == 'wod' and not keys:
        name = 'self'
    if name in ('wod', 'self'):
        keys = []
    if name == 'broadcast' and case.get('kw', {}).get('recursive', {}).get('v') is False:
        keys = []                      # derivatives are marked but not carried over
    return name, flag, keys


def sched_for(case, built, name):
    """raise schedule: broadcast_to raises (after the read-only marking) iff the shape is incompatible"""
    if name == 'broadcast':
        try:
            ok = np.broadcast_shapes(tuple(built[0]._shape_), tuple(built[1])) == tuple(built[1])
        except ValueError:
            ok = False
        return [] if ok else [0]
    return []


def heap_of(built):
    """abstract heap of the operands"""
    srcs = []
    for i, o in enumerate(built):
        S.arrays_of(o, 'self' if i == 0 else 'arg%d' % i, srcs)
    aid, arrs, firsts = {}, [], []
    for i, (p, a) in enumerate(srcs):
        if id(a) in aid:
            continue
        aid[id(a)] = i
        b = None
        for j, c, bj in firsts:
            if S.shares(a, c):
                b = bj
                break
        if b is None:
            b = 500 + i
        firsts.append((i, a, b))
        arrs.append([i, b, bool(a.flags.writeable)])
    oid, objs, uid = {}, [], {}

    def units_cell(u):
        if u is None:
            return '-'
        if id(u) not in uid:
            uid[id(u)] = 2000 + len(uid)
        return uid[id(u)]

    def obj_cell(q):
        if id(q) in oid:
            return oid[id(q)]
        n = 1000 + len(oid)
        oid[id(q)] = n
        ds = []
        for k in sorted(q._derivs_):
            ds.append([KEYCODE[k], obj_cell(q._derivs_[k])])
        v = aid[id(q._values_)] if isinstance(q._values_, np.ndarray) else '-'
        m = aid[id(q._mask_)] if isinstance(q._mask_, np.ndarray) else '-'
        objs.append([n, v, m, units_cell(q._units_), bool(q._readonly_)] + ds)
        return n

    args = []
    for o in built:
        if isinstance(o, Qube):
            args.append(['o', obj_cell(o)])
        elif isinstance(o, np.ndarray):
            args.append(['a', aid[id(o)]])
        elif isinstance(o, Units):
            args.append(['u', units_cell(o)])
        else:
            args.append('p')
    objs.sort(key=lambda o: o[0])
    return {'srcs': srcs, 'aid': aid, 'arrs': arrs, 'objs': objs, 'oid': oid, 'args': args,
            'src_ids': [aid[id(a)] for _, a in srcs]}


_CLAIMS = None
CHECKED_CLAIMS = ('newarray', 'operand:self', 'storage:self', 'shallow:self')


def claims():
    """{function: claim} of the generated summaries (same analysis that writes lean/PMV/Gen/Summaries.lean)"""
    global _CLAIMS
    if _CLAIMS is None:
        import c07_py2lean as T
        T.scan()
        _CLAIMS = {}
        for f in T.FUNS:
            sm = T.summarise(f)
            if sm is not None:
                _CLAIMS[f.qual] = sm[1]
    return _CLAIMS


def gen_request(case):
    if case.get('how') not in ('method', 'prop'):
        return None
    fn = '%s.%s' % (case.get('owner'), case['name'])
    if claims().get(fn) in CHECKED_CLAIMS:
        return ['c07', 'gen', fn]
    return None


def observe_gen(case, r):
    """what the real call returned, in the vocabulary of the generated claim (the claim itself where the call says
    nothing about it: it raised, or there is nothing to compare)"""
    fn = '%s.%s' % (case.get('owner'), case['name'])
    claim = claims()[fn]
    obs = claim
    if r['status'] == 'ret':
        res, me = r['result'], r['built'][0]
        src = []
        for i, o in enumerate(r['built']):
            S.arrays_of(o, 'self' if i == 0 else 'arg%d' % i, src)
        rarr = S.arrays_of(res, 'r', [])
        sharing = any(a is b or S.shares(a, b) for _, a in rarr for _, b in src)
        if claim == 'newarray':
            obs = 'shares-operand-memory' if sharing else 'newarray'
        elif claim == 'operand:self':
            obs = 'operand:self' if res is me else 'not-the-operand'
        elif claim == 'shallow:self':
            obs = 'shallow:self' if isinstance(res, Qube) and not any(res is o for o in r['built']) else 'not-a-new-object'
        elif claim == 'storage:self' and isinstance(res, np.ndarray) and res.size:
            mine = S.arrays_of(me, 'self', [])
            obs = 'storage:self' if any(res is b or S.shares(res, b) for _, b in mine) else 'not-operand-storage'
    return ['gen', obs, True]


def request(case):
    if case.get('type') == 'seq':
        return seq_request(case)
    if case.get('type') == 'call' and case.get('cat') is None:
        return gen_request(case)
    if case.get('type') != 'call' or case.get('cat') is None:
        return None
    built = []
    for d in case['ops']:
        built.append(S.build(d, built))
    sm = summary_for(case, built)
    if sm is None:
        return None
    name, flag, keys = sm
    H = heap_of(built)
    args = H['args'][1:] if case.get('how') in ('static', 'class') else H['args']     # no receiver
    return ['c07', 'call', name, flag, keys, NEXT, ['objs'] + H['objs'], ['arrs'] + H['arrs'],
            ['args'] + args, ['srcs'] + H['src_ids'], ['sched'] + sched_for(case, built, name)]


def _adesc(a, H):
    if not isinstance(a, np.ndarray):
        return 'py'
    w = bool(a.flags.writeable)
    for i, (p, b) in enumerate(H['srcs']):
        if a is b:
            return ['same', H['src_ids'][i], w]
    for i, (p, b) in enumerate(H['srcs']):
        if S.shares(a, b):
            return ['view', H['src_ids'][i], w]
    return ['fresh', w]


def observe_call(case, r):
    """the canonical observation of the REAL call, in the vocabulary of the model's answer"""
    if case.get('cat') is None:
        return observe_gen(case, r)
    built = r['built']
    H = heap_of(built)
    if r['status'] != 'ret':
        res = '-'
    else:
        x = r['result']
        if isinstance(x, Qube):
            if id(x) in H['oid']:
                res = ['operand', H['oid'][id(x)]]
            else:
                res = ['obj', _adesc(x._values_, H), _adesc(x._mask_, H), bool(x._readonly_)]
                for k in sorted(x._derivs_, key=lambda k: KEYCODE[k]):
                    d = x._derivs_[k]
                    res.append([KEYCODE[k], _adesc(d._values_, H), _adesc(d._mask_, H), bool(d._readonly_)])
        elif isinstance(x, Units):
            cell = None
            for o, a in zip(built, H['args']):
                if o is x:
                    cell = a[1]
            res = ['operand-units', cell] if cell is not None else 'new-units'
        else:
            res = 'py'
    # what changed on the operands (flags after the call are read off the live objects: H was built after it, so
    # use the snapshot diff instead)
    wr, ro, other = [], [], 0
    pos = {}
    for i, (p, a) in enumerate(H['srcs']):
        pos[p] = H['src_ids'][i]
    for key, b, a in r['changed']:
        root, path, field = key
        if field.endswith('__id__') and field != 'derivs.identity':
            continue
        if field.endswith('.writeable') and b is True and a is False:
            p = root + path + '.' + field[:-10]
            if p in pos:
                wr.append(pos[p])
            elif root + path in pos:
                wr.append(pos[root + path])
            else:
                other += 1
        elif field == 'readonly' and b is False and a is True:
            # the object at (root, path)
            o = _obj_at(built, root, path)
            if o is not None and id(o) in H['oid']:
                ro.append(H['oid'][id(o)])
            else:
                other += 1
        else:
            other += 1
    other += len(r['cchanged'])
    return [r['status'].split(':')[0], res, ['wr'] + sorted(set(wr)), ['ro'] + sorted(set(ro)), other]


def _obj_at(built, root, path):
    i = 0 if root == 'self' else int(root[3:]) if root.startswith('arg') else None
    if i is None or i >= len(built):
        return None
    o = built[i]
    if path.startswith('.d_d'):
        o = o._derivs_.get(path[4:])
    elif path:
        return None
    return o


MUTMAP = {'setitem_all': 'rebind',     # t[...] = v rebinds _values_ to a copy of v (indexer.py:133-135)
           'setitem_0': 'write', 'setitem_bool': 'write', 'iadd': 'write', 'isub': 'write',
          'imul': 'write', 'itruediv': 'write', 'ifloordiv': 'write', 'imod': 'write', 'ior': 'write', 'iand': 'write',
          'ixor': 'write', 'values_write': 'write', 'vals_write': 'write', 'setitem_masked': 'writeMask',
          'mask_write': 'writeMask', 'set_units': 'setUnits', 'as_readonly': 'freeze'}


def seq_request(case):
    """c = src.copy(); mutate one side; the model (copyObj + runHistT, the definitions of the copy theorems) says
    whether the complete observation of the other side is unchanged"""
    if case['derive'] not in ('copy', '__copy__', 'deepcopy'):
        return None
    a = S.mk_qube(case['src'])
    H = heap_of([a])
    muts = []
    for m in case['muts']:
        k = m['m']
        if k in MUTMAP:
            muts.append(MUTMAP[k])
        elif k == 'deriv_setitem':
            muts.append(['drebind', KEYCODE[m.get('key', 't')]])
        elif k in ('deriv_setitem_0', 'deriv_imul', 'deriv_values_write'):
            muts.append(['dwrite', KEYCODE[m.get('key', 't')]])
        elif k == 'insert_deriv':
            muts.append(['insert', KEYCODE[m.get('key', 'n')]])
        elif k == 'insert_alias':
            # operand = the other object; mutating the source (side == 'src') the other is the copy, which does not
            # exist in the request heap: only the direction "mutate the copy with an operand from the source" is tied
            if case['side'] != 'derived':
                return None
            root = H['oid'][id(a)]
            d = root if m['what'] == 'other' else H['oid'][id(a._derivs_[m['what']])]
            muts.append(['alias', KEYCODE[m.get('key', 'n')], d])
        elif k == 'delete_deriv':
            muts.append(['delete', KEYCODE[m.get('key', 't')]])
        elif k == 'delete_derivs':
            muts += [['delete', c] for c in sorted(KEYCODE.values())]
        else:
            return None
    return ['c07', 'seq', case['side'] == 'src', ['muts'] + muts, NEXT, ['objs'] + H['objs'], ['arrs'] + H['arrs'],
            H['oid'][id(a)]]


def observe_seq(case, r):
    return ['same', not r['changed'] and r['status'] == 'ret']
