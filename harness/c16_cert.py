"""C16 development tool (not used by the check): find `linear_combination` certificates by exact linear algebra.

Given polynomial relations g_k = 0 (hypotheses) and a target p, find multipliers q_k (polynomials of bounded degree, or
constants) with p = sum q_k g_k, by solving the linear system over Q (fractions, Gaussian elimination) and print the
Lean term `q_1 * h_1 + q_2 * h_2 + ...`.  Used to generate the proofs about SO(3) matrices in PMV/Lemmas/AlgebraSO3.lean
and PMV/Props/C16.lean; the Lean kernel re-checks every certificate, so this file is not part of the trusted base.
"""
import itertools
from fractions import Fraction


class P(dict):
    """sparse polynomial: {exponent tuple: Fraction}"""
    nvars = 0

    @staticmethod
    def var(i, n):
        e = [0] * n; e[i] = 1
        return P({tuple(e): Fraction(1)})

    @staticmethod
    def const(c, n):
        return P({(0,) * n: Fraction(c)}) if c else P()

    def __add__(a, b):
        if not isinstance(b, P): b = P.const(b, a.n())
        r = P(a)
        for k, v in b.items():
            r[k] = r.get(k, 0) + v
            if r[k] == 0: del r[k]
        return r
    __radd__ = __add__

    def __neg__(a):
        return P({k: -v for k, v in a.items()})

    def __sub__(a, b):
        if not isinstance(b, P): b = P.const(b, a.n())
        return a + (-b)

    def __rsub__(a, b):
        return (-a) + b

    def __mul__(a, b):
        if not isinstance(b, P): b = P.const(b, a.n())
        r = {}
        for k1, v1 in a.items():
            for k2, v2 in b.items():
                k = tuple(x + y for x, y in zip(k1, k2))
                r[k] = r.get(k, 0) + v1 * v2
        return P({k: v for k, v in r.items() if v != 0})
    __rmul__ = __mul__

    def __pow__(a, n):
        r = P.const(1, a.n())
        for _ in range(n): r = r * a
        return r

    def n(a):
        for k in a: return len(k)
        return P.nvars


def monomials(nvars, deg):
    for d in range(deg + 1):
        for c in itertools.combinations_with_replacement(range(nvars), d):
            e = [0] * nvars
            for i in c: e[i] += 1
            yield tuple(e)


def solve(target, rels, nvars, deg=0, only=None):
    """multipliers q_k (as P) with target = sum q_k rels[k]; multipliers have total degree <= deg. None if impossible."""
    mons = list(monomials(nvars, deg))
    unknowns = [(k, m) for k in range(len(rels)) if only is None or k in only for m in mons]
    cols = []
    for k, m in unknowns:
        cols.append(P({m: Fraction(1)}) * rels[k])
    rows = sorted(set(itertools.chain(target.keys(), *[c.keys() for c in cols])))
    ridx = {r: i for i, r in enumerate(rows)}
    # augmented matrix, sparse rows as dicts
    A = [dict() for _ in rows]
    for j, c in enumerate(cols):
        for mon, v in c.items():
            A[ridx[mon]][j] = v
    nb = len(cols)
    for mon, v in target.items():
        A[ridx[mon]][nb] = v
    # Gaussian elimination
    piv = {}
    r = 0
    for j in range(nb):
        p = None
        for i in range(r, len(A)):
            if j in A[i]:
                p = i; break
        if p is None:
            continue
        A[r], A[p] = A[p], A[r]
        inv = 1 / A[r][j]
        A[r] = {c: v * inv for c, v in A[r].items()}
        for i in range(len(A)):
            if i != r and j in A[i]:
                f = A[i][j]
                for c, v in A[r].items():
                    nv = A[i].get(c, 0) - f * v
                    if nv == 0:
                        A[i].pop(c, None)
                    else:
                        A[i][c] = nv
        piv[j] = r
        r += 1
        if r == len(A): break
    for i in range(len(A)):
        if nb in A[i] and all(c == nb for c in A[i]):
            return None
    sol = [P() for _ in rels]
    for j, i in piv.items():
        v = A[i].get(nb, 0)
        if v:
            k, m = unknowns[j]
            sol[k] = sol[k] + P({m: v})
    # verify
    chk = P(target)
    for q, g in zip(sol, rels):
        chk = chk - q * g
    assert not chk, chk
    return sol


def lean_poly(p, names):
    if not p:
        return '0'
    terms = []
    for mon, v in sorted(p.items()):
        fs = []
        for i, e in enumerate(mon):
            if e == 1: fs.append(names[i])
            elif e > 1: fs.append('%s^%d' % (names[i], e))
        c = v
        if c.denominator == 1:
            cs = str(abs(c.numerator))
        else:
            cs = '(%d/%d : K)' % (abs(c.numerator), c.denominator)
        body = ' * '.join(([cs] if (abs(c) != 1 or not fs) else []) + fs)
        if abs(c) != 1 and c.denominator == 1 and fs:
            body = '(%s : K) * %s' % (cs, ' * '.join(fs))
        terms.append(('-' if c < 0 else '+', body))
    s = ''
    for k, (sg, b) in enumerate(terms):
        if k == 0:
            s = ('-' if sg == '-' else '') + b
        else:
            s += ' %s %s' % (sg, b)
    return s


def lean_cert(sol, hyp_names, names):
    parts = []
    for q, h in zip(sol, hyp_names):
        if not q:
            continue
        qs = lean_poly(q, names)
        parts.append('(%s) * %s' % (qs, h))
    return ' + '.join(parts) if parts else '0'
