"""C18 — cached views never go stale: answers do not depend on caching or query order.

T2: `regen()` rewrites lean/PMV/Gen/EventPaths.lean from the source (c18_py2lean.py); the theorems of
    PMV/Props/C18.lean are re-proved against it on every run.
T1: histories over a finite alphabet are executed on the real code under `sys.settrace`; every mutator call is
    matched to a path of the regenerated table (else the tie is reported broken) and the model replays the history
    with the cache enabled and disabled; cache keys after every step, the "cached wod shares the ndarray" fact and
    the model's `CacheOK` verdict are compared.
Oracle (independent of model and table): every cached entry vs recomputation from the current arrays after each
    step; every answer vs the twin run under Qube.DISABLE_CACHE=True.
"""
import itertools, os, sys
import numpy as np
from absn import *
import common as C
import c18_py2lean as T2
from c18_run import (OBJECTS, ALPHABET, COMPACT, QUICK3, build, apply_op, run_traced, run_twins, table_info, is_query)

PROP = 'C18'
LEAN_MODULES = ['PMV.Props.C18']
PARALLEL = True
MANIFEST = {
    'text': 'Kernel-checked theorems (PMV/Props/C18.lean) over a state machine of the per-object cache whose mutator '
            'steps are the control-flow paths that a translator regenerates from the source on every run: the cache '
            'policy covers every write of every public mutator path (closed by evaluation on the regenerated table), '
            'hence after any history of mutators and cached queries, of any length, every cached entry equals its '
            'recomputation, the answers equal those of the cache-disabled run, and asking twice or asking other '
            'questions in between changes no answer. Tied to /repo by executing histories (breadth-first to depth '
            '3/4, random to depth 30) on the real code with the cache on and off under a tracer that maps each '
            'mutator call to a path of the table, and comparing cache keys after every step with the compiled model.',
    'design': 'DESIGN.md §3 C18, DESIGN.d/C18.md',
    'technique': 'Lean 4 proof (invariant by induction over histories; abstract interpretation of translator-'
                 'regenerated event paths) + model/code correspondence + direct twin/recomputation oracle',
    'note': 'Trusted: Lean kernel; the translator harness/c18_py2lean.py and the Python subset it accepts; the '
            'hand-written query models of Model/Cache.lean (checked by the correspondence run); CPython aliasing '
            'facts (augmented assignment in place on ndarray, rebinding on scalars) modelled, not verified. '
            'Known finding KF-C18-1: a shrunk object caches a REFERENCE to its original under "unshrunk".',
}
RULE = ('a case is one history: an initial object (20 small objects over Scalar/Boolean/Vector/Vector3/Pair/Matrix/Matrix3/Quaternion/Polynomial, shapeless '
        'and shaped, scalar and array masks, with and without derivatives, one read-only) and a list of operations '
        'from a finite alphabet (item assignment, every in-place arithmetic/logical operator with number, ndarray and '
        'object arguments, derivative insertion/deletion, unit changes, as_readonly, shrink/unshrink, and the cached '
        'queries); breadth-first over a compact alphabet to depth 2 plus depth 3 over a 9-symbol alphabet of 14 objects (quick) / to depth 4 (thorough; depth 3 for the six objects of the additional classes), plus random histories of '
        'length up to 30 over the full alphabet; non-trivial = contains a mutator after a cached query; distinct = '
        'distinct request line')
ASSUMPTIONS = ['a mutator step is one control-flow path of the regenerated table on which the mutator returns (or '
               'raises before writing); an exception raised inside an inlined helper after the caller has written '
               '(C19 territory) is outside cache_ok_reachable and watched by the oracle only',
               'loops in mutators are represented by 0/1 iterations (2 when the body has different eventful arms); '
               'further iterations repeat the same events',
               '`self.method()` is resolved in the class that defines the caller (no subclass override of a helper)',
               'stamps are abstract versions: the model says "stale" whenever an invalidating write happened, even '
               'if the new content happens to equal the old one']
TRUSTED_EXTRA = ['translator harness/c18_py2lean.py (Python `ast` -> event paths) and the syntax subset it accepts',
                 'sys.settrace line events identify the executed statements']

DEPTH3_ONLY = ('M3', 'Q2', 'P2', 'Pr2', 'S3dd', 'S23bm', 'S0du', 'S3du')
GEN_FILE = os.path.join(C.LEAN, 'PMV', 'Gen', 'EventPaths.lean')


def regen():
    tab, failures = T2.write_lean(GEN_FILE)
    table_info()                 # built once here, inherited by the worker processes (fork)
    _, _, (der, dal) = T2.generate(derived=True)
    n = sum(len(T2.distinct_event_lists(i)[0]) for q, i in tab.items() if i['public'])
    nd = sum(len({tuple(p) for p in i['paths']}) for i in der.values()) + sum(len(i['paths']) for i in dal.values())
    nd += sum(len({repr(p['segs']) for p in i['paths'] if p['end'] == 'ret' and any(lp for lp, _ in p['segs'])})
              for i in tab.values() if i['public'])          # segmented paths (loops with any number of iterations)
    return {'file': 'lean/PMV/Gen/EventPaths.lean', 'source': T2.repo_root(), 'mutators': len(tab),
            'control_flow_paths': sum(len(i['paths']) for i in tab.values()),
            'derived_object_functions': sorted(der), 'derivative_alias_loops': sorted(dal),
            'obligations': n + nd, 'parse_failures': failures}


# ------------------------------------------------------------------ cases
def nontrivial(ops):
    seen_q = False
    for o in ops:
        if is_query(o):
            seen_q = True
        elif seen_q:
            return True
    return False


_OBS = {}        # (object, history) -> observation of the traced run of THIS check run (inherited by fork)


def _req(c):
    tr = run_traced(c['obj'], c['ops'])
    return tr['req'], tr['obs']


def finish(cases):
    """request lines need the real (traced) run: computed here, in a process pool"""
    import multiprocessing as mp
    if len(cases) > 200:
        with mp.get_context('fork').Pool(int(os.environ.get('PMV_JOBS') or min(16, os.cpu_count() or 1))) as pool:
            reqs = pool.map(_req, cases, chunksize=40)
    else:
        reqs = [_req(c) for c in cases]
    for c, (r, o) in zip(cases, reqs):
        c['req'] = r
        _OBS[(c['obj'], tuple(c['ops']))] = o
        c['nontrivial'] = nontrivial(c['ops'])
    return cases


def impl(case):
    # the traced run that produced the request line already observed the real code; it is not repeated within the
    # same check run (a replay, being a new process, runs it again)
    key = (case['obj'], tuple(case['ops']))
    if key in _OBS:
        return _OBS[key]
    return run_traced(case['obj'], case['ops'])['obs']


def oracle(case):
    return run_twins(case['obj'], case['ops'])


def gen_cases(rng, tier):
    thorough = tier == 'thorough'
    cases = []
    for oname in OBJECTS:
        alpha = COMPACT[oname]
        if thorough:
            # depth 4, except for the six objects of the additional classes (time budget)
            levels = [(d, alpha) for d in range(1, (3 if oname in DEPTH3_ONLY else 4) + 1)]
        else:
            # quick: depth <= 2 over the compact alphabet, depth 3 over the 9-symbol QUICK3 alphabet
            levels = [(1, alpha), (2, alpha)] + ([(3, QUICK3[oname])] if oname in QUICK3 else [])
        deepest = levels[-1][0]
        for d, al in levels:
            for h in itertools.product(al, repeat=d):
                if d == deepest and d >= 3 and not is_query(h[-1]):
                    continue        # the last step of the deepest level is a query (a mutator would go unobserved)
                cases.append({'obj': oname, 'ops': list(h), 'kind': 'bfs%d:%s' % (d, oname)})
    nrand = 1500 if thorough else 260
    names = list(OBJECTS)
    for i in range(nrand):
        oname = names[i % len(names)]
        alpha = ALPHABET[oname]
        n = rng.randint(4, 30)
        ops = []
        for _ in range(n):
            pool = [a for a in alpha if is_query(a)] if rng.random() < 0.45 else alpha
            ops.append(rng.choice(pool))
        cases.append({'obj': oname, 'ops': ops, 'kind': 'random:%s' % oname})
    return finish(cases)


def neighbours(case):
    ops = case['ops']
    out = []
    for k in range(len(ops), 0, -1):
        out.append({'obj': case['obj'], 'ops': ops[:k - 1], 'kind': 'shrunk'})
    for k in range(len(ops)):
        out.append({'obj': case['obj'], 'ops': ops[:k] + ops[k + 1:], 'kind': 'shrunk'})
    return finish([c for c in out if c['ops']][:60])
