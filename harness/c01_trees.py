"""Expression trees over the real Scalar operators for C01 (mask of a whole computation)."""
import numpy as np
from absn import *
import common as C
import c01_ops as K

UN = ['neg', 'sqrt', 'log', 'reciprocal', 'arcsin', 'sin', 'abs']
BIN = ['add', 'sub', 'mul', 'div', 'mod']
SHAPES = [[], [3], [1], [2, 3], [2, 1], [0], [1, 3]]


def gen_tree(rng, depth, shape_pool):
    import c01
    if depth == 0 or rng.random() < 0.2:
        s = rng.choice(shape_pool)
        return ['leaf', c01.rand_opd(rng, 'S', s, rng.choice(['div', 'sqrt', 'asin', 'any']))]
    if rng.random() < 0.4:
        return ['un', rng.choice(UN), gen_tree(rng, depth - 1, shape_pool)]
    return ['bin', rng.choice(BIN), gen_tree(rng, depth - 1, shape_pool), gen_tree(rng, depth - 1, shape_pool)]


def gen_tree_case(rng):
    pool = rng.choice([[[], [3], [1]], [[2, 3], [3], [2, 1], []], [[0], [1], []], [[1, 3], [2, 1], [2, 3]]])
    t = gen_tree(rng, rng.choice([2, 2, 3, 4]), pool)
    case = {'op': 'tree', 'tree': t, 'opds': []}
    ref = reference(t)
    case['req'] = None if ref is None else ['c01', 'tree', ref[3]]
    case['nontrivial'] = ref is not None and bool(ref[2].any())
    case['kind'] = 'tree'
    return case


def eval_real(t):
    if t[0] == 'leaf':
        return K.build(t[1])
    if t[0] == 'un':
        a = eval_real(t[2])
        return {'neg': lambda x: -x, 'abs': lambda x: abs(x), 'sqrt': lambda x: x.sqrt(), 'log': lambda x: x.log(),
                'reciprocal': lambda x: x.reciprocal(), 'arcsin': lambda x: x.arcsin(), 'sin': lambda x: x.sin()}[t[1]](a)
    a, b = eval_real(t[2]), eval_real(t[3])
    return K.BIN[t[1]](a, b)


def reference(t):
    """(shape, values, mask, model expression) with plain NumPy; None if the shapes do not broadcast.
    Values under the mask are arbitrary (the expanded result mask does not depend on them)."""
    if t[0] == 'leaf':
        o = t[1]
        return list(o['shape']), K.values_of(o).astype(float), K.opd_mask_bits(o), ['leaf', K.opd_wire(o)]
    if t[0] == 'un':
        r = reference(t[2])
        if r is None:
            return None
        s, v, m, e = r
        op = t[1]
        with np.errstate(all='ignore'):
            if op in ('neg', 'abs'):
                return s, (-v if op == 'neg' else np.abs(v)), m, ['un', 'cloneSet', 'N', e]
            if op == 'sin':
                return s, np.sin(v), m, ['un', 'ctor1', 'N', e]
            if op == 'sqrt':
                f = v < 0
                return s, np.sqrt(np.where(f, 1., v)), m | f, ['un', 'guard', K.fail_wire(s, f), e]
            if op == 'log':
                f = v <= 0
                return s, np.log(np.where(f, 1., v)), m | f, ['un', 'guard', K.fail_wire(s, f), e]
            if op == 'reciprocal':
                f = v == 0
                return s, 1. / np.where(f, 1., v), m | f, ['un', 'guard', K.fail_wire(s, f), e]
            if op == 'arcsin':
                f = np.abs(v) > 1
                return s, np.arcsin(np.where(f, 0., v)), m | f, ['un', 'guardAsin', K.fail_wire(s, f), e]
    ra, rb = reference(t[2]), reference(t[3])
    if ra is None or rb is None:
        return None
    out = K.lead_bcast([ra[0], rb[0]])
    if out is None:
        return None
    va, vb = np.broadcast_to(ra[1], out), np.broadcast_to(rb[1], out)
    m = np.broadcast_to(ra[2], out) | np.broadcast_to(rb[2], out)
    op = t[1]
    with np.errstate(all='ignore'):
        if op in ('add', 'sub', 'mul'):
            v = {'add': va + vb, 'sub': va - vb, 'mul': va * vb}[op]
            return out, v, m, ['bin', 'ctorOr', 'N', ra[3], rb[3]]
        f_own = rb[1] == 0
        f = np.broadcast_to(f_own, out)
        d = np.where(f, 1., vb)
        v = va / d if op == 'div' else np.mod(va, d)
        return out, v, m | f, ['bin', 'divScalar' if op == 'div' else 'divPipe', K.fail_wire(rb[0], f_own), ra[3], rb[3]]


def impl(case):
    import warnings
    with warnings.catch_warnings(record=True):
        warnings.simplefilter('always')
        try:
            r = eval_real(case['tree'])
        except Exception as e:
            return C.exc_name(e)
    return [list(r._shape_), [bool(x) for x in expanded_mask(r).ravel()]]


def oracle(case):
    import warnings
    ref = reference(case['tree'])
    if ref is None:
        return None
    with warnings.catch_warnings(record=True):
        warnings.simplefilter('always')
        try:
            r = eval_real(case['tree'])
        except Exception as e:
            return ('tree:exception', 'expression raised %s: %s' % (type(e).__name__, e))
    got = expanded_mask(r)
    if list(r._shape_) != ref[0] or not np.array_equal(got, ref[2]):
        return ('tree:mask', 'expression tree: result mask %s, union of leaf masks and failures %s'
                % (got.astype(int).tolist(), ref[2].astype(int).tolist()))
    return None
