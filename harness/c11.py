"""C11 — pickling round-trips objects: lossless by default, else within the stated digits."""
import copy, pickle, warnings
import numpy as np
warnings.filterwarnings('ignore', category=RuntimeWarning)
import common as C
from c11_objs import *

PROP = 'C11'
LEAN_MODULES = ['PMV.Props.C11', 'PMV.Lemmas.PickleReal', 'PMV.Lemmas.PickleEffects']
PARALLEL = True
MANIFEST = {
    'text': 'Kernel-checked theorems (PMV/Props/C11.lean) about a code-shaped Lean model of __getstate__/__setstate__ '
            '(single value, ALL_MASKED, mask collapse, corner cropping of any rank, packbits, antimask gather/scatter, '
            'FLOAT/INT(dtype)/BOOL steps, derivatives gathered by the parent antimask, read-only restoration, decode loops): '
            'corners_sound, packbits_roundtrip, gather_scatter, roundtrip_default (every object / shape / mask / derivative set, '
            'values as opaque bit patterns, codecs as parameters with a round-trip contract), roundtrip_legacy, items_transpose_roundtrip, '
            'getstate_pure + effect_frame (effect table regenerated from the source by an AST abstract interpreter, closed by decide), '
            'scaled_bound / float32_shortcut_bound / reference-value order theorems over the reals; tied to /repo on every run by comparing the real pickled state decoded below the '
            'codecs, and the unpickled object, with the compiled model, plus a model-independent bitwise / significant-digit oracle.',
    'design': 'DESIGN.md §3 C11, DESIGN.d/C11.md',
    'technique': 'Lean 4 proof (lists: induction; error bound: real arithmetic) + model/code correspondence below the codecs',
    'note': 'Trusted: Lean kernel; hand-written model Model/Pickle.lean (checked against the code by the correspondence run); '
            'bz2, fpzip, pickle of ndarrays and IEEE float32<->float64 conversion are contracts (exercised, not proved). '
            'scaled_bound is over the reals (no float rounding inside the encoder).',
}
RULE = ('generated objects over classes x dtypes (int8..uint64, float32/64, bool) x leading shapes (rank 0..6, sizes on both '
        'sides of the 200-element cutoff, zero-size) x mask patterns (scalar, all/none arrays, holes, cropped borders, single '
        'unmasked, exact unmasked counts at the cutoff, broadcast views) x value distributions (constant, smooth, wide, zeros, '
        '-0.0, subnormal, inf, NaN payloads, random bit patterns) x derivative sets (with/without denominators, own masks, '
        'broadcast) x read-only x every digits/reference option; non-trivial = array-valued object that is not fully masked; '
        'distinct = distinct request line (or case id for oracle-only cases)')
ASSUMPTIONS = ['effect analysis (T2): Qube.clone(recursive=False) returns a new object with fresh empty _derivs_ and _cache_ and does not '
               'change its receiver; Qube.dtype() is pure (both checked on every generated object); the purity / mutator / alias '
               'method lists of harness/c11_py2lean.py describe NumPy and the builtins correctly',
               'bz2, fpzip at full precision and pickle of ndarrays/bytes are lossless (codec contract of the theorems; exercised by the run)',
               'float32 data: widening to float64 and narrowing back are exact except that a SIGNALLING float32 NaN is quieted by the IEEE '
               'conversion (generator emits quiet float32 NaNs only); the model works on the widened binary64 patterns, the width is judged by the oracle',
               'a derivative masked where its object is not loses that mask when the object has a partial array mask (recorded: KF-C11-7)',
               'lossy settings: finite values are judged within the float32 range for digits=single; inf and NaN must come back as they were']
TRUSTED_EXTRA = ['harness/c11_py2lean.py: abstract interpreter (tags EXT/SH/NEW) over the AST of __getstate__ and the 17 functions it reaches; '
                 'anything it does not understand becomes an event that breaks the decide-theorem',
                 'bz2.compress/decompress, fpzip.compress/decompress (full precision), pickle of ndarray/bytes/tuples: lossless (contract)',
                 'NumPy float32->float64 conversion exact; np.packbits/unpackbits and boolean-mask indexing order as modelled (compared on every run)']

SINGLE_DIGITS = float(np.log10(2 ** 23))
DOUBLE_DIGITS = float(np.log10(2 ** 52))


def regen():
    """T2: regenerate lean/PMV/Gen/PickleEffects.lean (every statement of __getstate__ and of the functions it
    reaches that may write to the pickled object) from the source of the installed polymath"""
    import c11_py2lean
    return c11_py2lean.regen()


# ------------------------------------------------------------------------------------------ real code
def real_state(q):
    return q.__getstate__()


def validated_pair(digits, reference):
    """what _validate_pickle_digits makes of the request (harness-side, independent of the code): a number is
    clipped to the single..double range unless its reference is a number"""
    d = list(digits) if isinstance(digits, (list, tuple)) else [digits, digits]
    r = list(reference) if isinstance(reference, (list, tuple)) else [reference, reference]
    out = []
    for k in range(2):
        x = d[k]
        if not isinstance(x, str) and isinstance(r[k], str):
            x = min(max(SINGLE_DIGITS, float(x)), DOUBLE_DIGITS)
        out.append(x)
    return out


def digits_attrs(q):
    def one(o):
        d = getattr(o, '_pickle_digits', None)
        return '-' if d is None else [digit_cls(d[0]), digit_cls(d[1])]
    return [one(q), [[k, one(d)] for k, d in q._derivs_.items()]]


def impl(case):
    mode = case['mode']
    if mode == 'sd':
        try:
            q = build(dict(case, digits=None))
            q.set_pickle_digits(jsonval(case['digits']), jsonval(case['reference']))
            return digits_attrs(q)
        except Exception as e:
            return C.exc_name(e)
    if mode == 'cols':
        a = np.array(case['rows'], dtype=np.int64).reshape(len(case['rows']), case['isz'])
        cols = np.require(a.reshape((-1, case['isz'])).swapaxes(0, 1), requirements=['C', 'A'])
        buf = np.empty((case['isz'], len(case['rows'])), dtype=np.int64)
        for k, item in enumerate(cols):
            buf[k] = item
        back = np.moveaxis(buf, 0, -1).copy().reshape(a.shape)
        return [[[int(x) for x in c] for c in cols], [[int(x) for x in r] for r in back]]
    try:
        q = build(case)
        st = real_state(q)
        if mode == 'legacy':
            st = strip_int_dtype(st)
        state = qst_sx(st, type(q))
    except Exception as e:
        return C.exc_name(e)
    if mode == 'st':
        return [state]
    try:
        if mode == 'legacy':
            r = Qube.__new__(type(q))
            r.__setstate__(pickle.loads(pickle.dumps(st)))
        else:
            r = pickle.loads(pickle.dumps(build(case)))
        return [state, qobj_sx(r)]
    except Exception as e:
        return [state, C.exc_name(e)]


# ------------------------------------------------------------------------------------------ direct oracle
def snapshot(q, depth=0):
    """everything reachable from q that is not cache, byte for byte"""
    res = {}
    for k, v in q.__dict__.items():
        if k == '_cache_':
            continue
        if k == '_derivs_':
            res[k] = {kk: (id(d), snapshot(d, depth + 1)) for kk, d in v.items()}
        elif k.startswith('d_d'):
            res[k] = id(v)
        elif isinstance(v, np.ndarray):
            res[k] = (v.dtype.str, v.shape, v.strides, v.tobytes(), bool(v.flags.writeable), id(v))
        else:
            res[k] = (type(v).__name__, repr(v))
    return res


def exp_mask(q):
    return np.broadcast_to(np.asarray(q._mask_, dtype=bool), q._shape_)


def full_vals(q):
    return np.broadcast_to(np.asarray(q._values_), q._shape_ + q._item_)


def attr_digits(q, key=None):
    """the digits setting the CODE will use (read off the attributes): decides which model mode applies"""
    if key is None:
        d = getattr(q, '_pickle_digits', None)
        return d[0] if d else 'double'
    d = getattr(q._derivs_[key], '_pickle_digits', None)
    if d is not None:
        return d[0]
    d = getattr(q, '_pickle_digits', None)
    return d[1] if d else 'double'


def eff_digits(case, q, key=None):
    """(digits, reference) REQUESTED through the public API in this case's history — never read back from the
    object: the first entry of each pair given to set_pickle_digits is the object's, the second its derivatives',
    whether they were inserted before or after the call; no call means the defaults ('double', 'fpzip')"""
    d, r = case.get('digits'), case.get('reference')
    if d is None:
        return ('double', 'fpzip')
    d = list(d) if isinstance(d, (list, tuple)) else [d, d]
    r = list(r) if isinstance(r, (list, tuple)) else [r, r]
    i = 0 if key is None else 1
    return (d[i], r[i])


def ref_value(a, reference):
    a = np.abs(a[a != 0.])
    if a.size == 0:
        return 0.
    if reference == 'smallest': return float(a.min())
    if reference == 'largest': return float(a.max())
    if reference == 'mean': return float(a.mean())
    if reference == 'median': return float(np.median(a))
    if reference == 'logmean': return float(np.exp(np.mean(np.log(a))))
    raise KeyError(reference)


def lossy_problem(x, y, digits, reference, seen=None):
    """x, y: (n, isz) float64 originals / restored at the elements the encoder saw"""
    if x.size == 0:
        return None
    fin = np.isfinite(x)
    if not fin.all():
        xs, ys = x[~fin], y[~fin]
        same = (np.isnan(xs) & np.isnan(ys)) | (xs == ys)
        if not same.all():
            return 'NONFINITE: %r came back as %r' % (float(xs[~same][0]), float(ys[~same][0]))
        if not fin.any():
            return None
        # the finite part, column structure kept by replacing the rest with a finite original
        y = np.where(fin, y, 0.); x = np.where(fin, x, 0.)
    err = np.abs(y - x)
    big = float(np.abs(x).max())
    slack = 16 * np.finfo(float).eps * big
    if digits == 'single':
        bad = err > np.abs(x) * 2. ** -24 * (1 + 1e-9) + 2. ** -149       # float32 storage: gradual underflow below 1.2e-38
        return 'single precision: error %g at value %g' % (err[bad][0], x[bad][0]) if bad.any() else None
    if isinstance(reference, str) and reference == 'fpzip':
        d = min(max(SINGLE_DIGITS, float(digits)), DOUBLE_DIGITS)
        bad = err > np.abs(x) * 10. ** -d * (1 + 1e-9) + 1e-290       # an exact 0.0 may come back as a tiny subnormal
        return 'fpzip %s digits: error %g at value %g' % (digits, err[bad][0], x[bad][0]) if bad.any() else None
    if isinstance(reference, str):
        d = min(max(SINGLE_DIGITS, float(digits)), DOUBLE_DIGITS)
        d = min(d, float(digits)) if float(digits) < SINGLE_DIGITS else d     # the REQUESTED digits when fewer
        for k in range(x.shape[1]):
            ref = max(ref_value(x[:, k], reference), ref_value(x, reference))
            if seen is not None and seen.size:       # the values the encoder may have taken the reference from
                fs = np.where(np.isfinite(seen), seen, 0.)
                ref = max(ref, ref_value(fs[:, k], reference), ref_value(fs, reference))
            bound = ref * 10. ** -d * (1 + 1e-6) + slack
            bad = err[:, k] > bound
            if bad.any():
                return '%s digits relative to %s (=%g): error %g > %g at value %g' % (digits, reference, ref, err[:, k][bad][0], bound, x[:, k][bad][0])
        return None
    bound = float(reference) * 10. ** -float(digits) * (1 + 1e-6) + slack
    bad = err > bound
    return '%s digits relative to %g: error %g > %g' % (digits, reference, err[bad][0], bound) if bad.any() else None


def compare_values(tag, orig, rest, keep, digits, reference, default, seen=None):
    """orig/rest: arrays shape+item; keep: bool array over shape (True where the value must survive)"""
    isz = int(np.prod(orig.shape[keep.ndim:], dtype=int))
    o = np.ascontiguousarray(orig).reshape((-1, isz))[keep.ravel()]
    r = np.ascontiguousarray(rest).reshape((-1, isz))[keep.ravel()]
    kind = orig.dtype.kind
    if kind != 'f' or digits == 'double':
        if kind in 'iu' and o.size and rest.dtype != orig.dtype:
            return (tag + ':int-dtype', '%s: integer dtype %s came back as %s' % (tag, orig.dtype, rest.dtype))
        if not np.array_equal(arr_bits(o), arr_bits(r)):
            bad = np.nonzero(arr_bits(o) != arr_bits(r))[0][0]
            return (tag + ':bits:' + str(orig.dtype), '%s: unmasked value with bit pattern %#x came back as %#x'
                    % (tag, int(arr_bits(o)[bad]), int(arr_bits(r)[bad])))
        return None
    with np.errstate(invalid='ignore', over='ignore'):
        sv = None if seen is None else np.ascontiguousarray(orig).reshape((-1, isz))[seen.ravel()].astype(np.float64)
        p = lossy_problem(o.astype(np.float64), r.astype(np.float64), digits, reference, sv)
    if p and p.startswith('NONFINITE'):
        return (tag + ':lossy-nonfinite:%s' % (reference if isinstance(reference, str) else 'num'), tag + ': ' + p)
    width = '' if orig.dtype.itemsize == 8 else ':f%d' % orig.dtype.itemsize
    return (tag + ':lossy:%s:%s%s' % (digits if isinstance(digits, str) else 'num', reference if isinstance(reference, str) else 'num', width),
            tag + ': ' + p) if p else None


def compare(case, q, r):
    """the property, judged on the real objects; returns None or (signature, what)"""
    if type(r) is not type(q):
        return ('class', 'class %s came back as %s' % (type(q).__name__, type(r).__name__))
    for a in ('_shape_', '_item_', '_numer_', '_denom_', '_rank_', '_nrank_', '_drank_'):
        if getattr(r, a) != getattr(q, a):
            return ('struct:' + a, '%s %r came back as %r' % (a, getattr(q, a), getattr(r, a)))
    m = exp_mask(q)
    if not np.array_equal(m, exp_mask(r)):
        return ('mask', 'the expanded mask changed')
    if units_idx(q._units_) != units_idx(r._units_):
        return ('units', 'units %s came back as %s' % (q._units_, r._units_))
    if bool(q._readonly_) != bool(r._readonly_):
        return ('readonly:flag', 'read-only status %s came back as %s' % (q._readonly_, r._readonly_))
    for name, o in [('object', r)] + [('derivative ' + k, d) for k, d in r._derivs_.items()]:
        if o._readonly_:
            for a in (o._values_, o._mask_):
                if isinstance(a, np.ndarray) and a.flags.writeable:
                    return ('readonly:writable-arrays', 'unpickled read-only %s has a writable array' % name)
    if not r._readonly_ and isinstance(r._values_, np.ndarray) and not r._values_.flags.writeable:
        return ('readonly:frozen-values', 'unpickled writable object has non-writeable values')
    if set(q._derivs_) != set(r._derivs_):
        return ('deriv-keys', 'derivative keys %s came back as %s' % (sorted(q._derivs_), sorted(r._derivs_)))
    if Qube._dtype(q._values_) != Qube._dtype(r._values_):
        return ('dtype-kind', 'data type %s came back as %s' % (Qube._dtype(q._values_), Qube._dtype(r._values_)))
    digits, reference = eff_digits(case, q)
    qv, rv = full_vals(q), full_vals(r)
    p = compare_values('values', qv, rv, ~m, digits, reference, q._default_)
    if p:
        return p
    if m.any():
        isz = int(np.prod(q._item_, dtype=int))
        under = np.ascontiguousarray(rv).reshape((-1, isz))[m.ravel()]
        dflt = np.broadcast_to(np.asarray(q._default_), q._item_).reshape(-1)
        hidden = np.ascontiguousarray(qv).reshape((-1, isz))[m.ravel()]
        ok = (under == dflt).all(axis=1)
        if not ok.all():
            return ('default-under-mask' + ('' if isinstance(q._values_, np.ndarray) else ':single'),
                    'a masked element came back as %s, class default is %s' % (under[~ok][0].tolist(), dflt.tolist()))
    for k, d in q._derivs_.items():
        e = r._derivs_[k]
        if type(e) is not type(d):
            return ('deriv:class', 'derivative %s: class %s came back as %s' % (k, type(d).__name__, type(e).__name__))
        for a in ('_shape_', '_item_', '_numer_', '_denom_'):
            if getattr(e, a) != getattr(d, a):
                return ('deriv:struct:' + a, 'derivative %s: %s %r came back as %r' % (k, a, getattr(d, a), getattr(e, a)))
        if bool(e._readonly_) != bool(d._readonly_):
            return ('deriv:readonly:flag', 'derivative %s: read-only status %s came back as %s' % (k, d._readonly_, e._readonly_))
        dd, dr = eff_digits(case, q, k)
        keep = ~(m | exp_mask(d))
        p = compare_values('deriv-values', full_vals(d), full_vals(e), keep, dd, dr, d._default_, seen=~m)
        if p:
            return p
    # a derivative is an object too: wherever it comes back masked it holds its default
    for k, d in q._derivs_.items():
        e = r._derivs_[k]
        em = exp_mask(e)
        if em.any():
            isz = int(np.prod(e._item_, dtype=int))
            under = np.ascontiguousarray(full_vals(e)).reshape((-1, isz))[em.ravel()]
            dflt = np.broadcast_to(np.asarray(d._default_), d._item_).reshape(-1)
            ok = (under == dflt).all(axis=1)
            if not ok.all():
                return ('deriv-default-under-mask' + ('' if isinstance(d._values_, np.ndarray) else ':single'),
                        'derivative %s: a masked element came back as %s, default is %s' % (k, under[~ok][0].tolist(), dflt.tolist()))
    # a derivative is an object too: where the parent is unmasked its own mask must survive
    for k, d in q._derivs_.items():
        e = r._derivs_[k]
        dm, em = exp_mask(d), exp_mask(e)
        diff = (dm != em) & ~m
        if diff.any():
            if ((dm & ~em) == diff).all() and isinstance(q._mask_, np.ndarray) and m.any() and not m.all():
                return ('deriv-mask:own-mask-dropped', 'derivative %s is masked at %d element(s) where the object is not; '
                        'it came back with the object\'s mask, unmasked there' % (k, int(diff.sum())))
            return ('deriv-mask', 'the mask of derivative %s changed at an unmasked element of the object' % k)
    # with the default (lossless) settings float data keeps its width
    for name, key, a, b in [('values', None, q._values_, r._values_)] + \
            [('derivative ' + k, k, d._values_, r._derivs_[k]._values_) for k, d in q._derivs_.items()]:
        if isinstance(a, np.ndarray) and a.dtype.kind == 'f' and eff_digits(case, q, key)[0] == 'double' \
                and not np.all(exp_mask(q)) and not (key is not None and np.all(exp_mask(q._derivs_[key]))):
            if not isinstance(b, np.ndarray) or b.dtype != a.dtype:
                return ('values:float-width', '%s: %s data came back as %s (same values, another width)'
                        % (name, a.dtype, getattr(b, 'dtype', type(b).__name__)))
    return None


def oracle(case):
    if case['mode'] == 'cols':
        return None
    try:
        q = build(case)
    except Exception as e:
        return None                         # not an object of the library: nothing to judge
    before = snapshot(q)
    # the two contracts the effect analysis (c11_py2lean.py) relies on, checked on this object
    c = q.clone(recursive=False)
    q.dtype()
    if c is q or c._derivs_ is q._derivs_ or c._cache_ is q._cache_ or c._derivs_ or snapshot(q) != before:
        return ('contract:clone', 'clone(recursive=False) / dtype() changed the object or returned shared _derivs_/_cache_ dicts')
    try:
        if case['mode'] == 'legacy':
            st = strip_int_dtype(q.__getstate__())
            data = pickle.dumps(st)
        else:
            data = pickle.dumps(q)
    except Exception as e:
        tag = ''
        if case.get('digits') is not None and any(isinstance(o._values_, np.ndarray) and o._values_.dtype.kind == 'f'
                                                   and not np.isfinite(o._values_).all() for o in [q] + list(q._derivs_.values())):
            tag = ':lossy-nonfinite'
        elif case.get('digits') is not None:
            for o in [q] + list(q._derivs_.values()):
                if isinstance(o._values_, np.ndarray) and o._values_.dtype.kind == 'f' and o._values_.size:
                    a = np.abs(o._values_[o._values_ != 0])
                    if a.size and a.max() / a.min() > 1e200:
                        tag = ':lossy-overflow'
        return ('dumps-raises:' + type(e).__name__ + tag, 'pickle.dumps raised %s: %s' % (type(e).__name__, str(e)[:200]))
    if snapshot(q) != before:
        after = snapshot(q)
        keys = [k for k in set(before) | set(after) if before.get(k) != after.get(k)]
        return ('getstate-mutates:' + ','.join(sorted(keys)), 'pickling changed the object being pickled: ' + ', '.join(sorted(keys)))
    try:
        if case['mode'] == 'legacy':
            r = Qube.__new__(type(q))
            r.__setstate__(pickle.loads(data))
        else:
            r = pickle.loads(data)
    except Exception as e:
        if case.get('digits') is not None:
            f4 = any(isinstance(o._values_, np.ndarray) and o._values_.dtype.kind == 'f' and o._values_.dtype.itemsize == 4
                     for o in [q] + list(q._derivs_.values()))
            return ('loads-raises:%s:lossy%s' % (type(e).__name__, '-f4' if f4 else ''),
                    'pickle.loads raised %s: %s (under a lossy setting)' % (type(e).__name__, str(e)[:200]))
        return ('loads-raises:%s:%s' % (type(e).__name__, dtype_tag(q)),
                'pickle.loads raised %s: %s' % (type(e).__name__, str(e)[:200]))
    return compare(case, q, r)


def dtype_tag(q):
    return str(q._values_.dtype) if isinstance(q._values_, np.ndarray) else type(q._values_).__name__


# ------------------------------------------------------------------------------------------ generation
FLOAT_CLASSES = [('Scalar', ()), ('Vector3', (3,)), ('Pair', (2,)), ('Vector', (4,)), ('Matrix', (2, 2)), ('Matrix3', (3, 3)), ('Quaternion', (4,))]
INT_CLASSES = [('Scalar', ()), ('Pair', (2,)), ('Vector', (3,))]
INT_DTYPES = ['int8', 'int16', 'int32', 'int64', 'uint8', 'uint16', 'uint32', 'uint64',
              '>i2', '>i4', '>i8', '>u2', '>u4', '>u8']            # the last six: non-native (big-endian) byte order
FLOAT_DTYPES = ['float64'] * 6 + ['float32', '>f8', '>f8', '>f4']
FLOAT_DISTS = ['normal', 'const', 'smooth', 'wide', 'zeros', 'negzero', 'subnormal', 'inf', 'nan', 'bits', 'special']
LOSSY_DISTS = ['normal', 'const', 'smooth', 'offset', 'uniform', 'moderate', 'withzeros', 'tiny']
INT_DISTS = ['full', 'small', 'const', 'extremes', 'zeros']
SMALL_SHAPES = [[], [1], [3], [0], [2, 3], [3, 0], [1, 1], [4, 5], [2, 3, 2], [2, 1, 2, 1, 2], [2, 2, 2, 2, 2, 2]]
EDGE_SHAPES = [[199], [200], [201], [10, 20], [3, 67], [14, 15], [2, 3, 2, 3, 2, 3], [5, 41], [2, 2, 2, 2, 2, 7],
               [3, 2, 2, 2, 2, 2, 3], [1, 2, 1, 3, 1, 2, 17]]
BIG_SHAPES = [[300], [20, 30], [7, 8, 9], [2, 3, 4, 5, 6], [40, 41], [2, 3, 2, 3, 2, 3, 2]]
PROV_SHAPES = [[4, 5], [3, 4, 5], [2, 3, 2, 3], [15, 14], [6, 7, 6], [2, 3, 4, 5, 2]]
MASK_PATS = ['F', 'T', 'allF', 'allT', 'random', 'holes', 'border', 'single', 'axis0', 'bview', 'exact']
DIGIT_OPTS = [('double', 'fpzip'), ('single', 'fpzip'), (8, 'fpzip'), (12.5, 'fpzip'), (3, 'fpzip'), (20, 'fpzip'),
              (5, 'smallest'), (6, 'smallest'), (10, 'smallest'), (8, 'largest'), (3, 'largest'), (14, 'largest'),
              (7, 'mean'), (6.5, 'mean'), (9, 'median'), (6, 'median'), (11, 'logmean'), (5, 'logmean'),
              (4, 1.0), (12, 1.0), (2, 100.), (6, 0.001), (9, 1.e6), (16, 1.0), (0, 1.0),
              (['single', 'double'], 'fpzip'), ([8, 10], ['largest', 'smallest']), (['double', 6], ['fpzip', 1.0])]


PAIR_OPTS = [(['single', 'double'], 'fpzip'), (['double', 'single'], 'fpzip'), ([7, 12], ['largest', 'smallest']),
             ([12, 7], ['smallest', 'largest']), (8, ['fpzip', 1.0]), (8, [1.0, 'fpzip']), (['double', 9], ['fpzip', 'mean']),
             ([6, 'double'], ['median', 'fpzip']), ([5, 11], [100., 0.001]), ([11, 5], 1.0), ([7, 13], 'largest'),
             ([14, 'single'], ['logmean', 'fpzip']), (10, ['smallest', 'mean']), (['single', 10], ['fpzip', 'fpzip']),
             # mixed kinds of reference (string / number in either position) with digits above / below the clipping
             # thresholds 6.92 and 15.65 in either position: the clipping of an entry depends on ITS reference
             ([8, 19], ['largest', 1.0]), ([19, 8], [1.0, 'largest']), ([3, 18], ['fpzip', 1.0]), ([18, 3], [1.0, 'mean']),
             ([17, 20], ['median', 1.e-3]), ([5, 5], [1.0, 'smallest']), ([5, 5], ['smallest', 1.0]), ([20, 20], [1.0, 'fpzip']),
             ([20, 20], ['fpzip', 1.0]), ([16.5, 16.5], ['logmean', 10.]), ([2, 17.5], ['mean', 1.0]), ([17.5, 2], [1.0, 'median'])]


def rand_mask(rng, shape, pat=None, isz=1):
    n = int(np.prod(shape, dtype=int))
    if not shape:
        return rng.choice(['F', 'T'])
    pat = pat or rng.choice(MASK_PATS)
    if pat in ('F', 'T'):
        return pat
    m = {'pat': pat, 'seed': rng.randrange(1 << 30)}
    if pat == 'exact':
        target = rng.choice([199, 200, 201, 202, 1, 2])
        m['k'] = max(1, min(n, (target + isz - 1) // isz if rng.random() < 0.5 else target // isz))
    if pat == 'random':
        m['p'] = rng.choice([0.1, 0.4, 0.8])
    return m


def rand_obj(rng, kind, shape, lossy=False, cls=None):
    if kind == 'float':
        name, numer = cls or rng.choice(FLOAT_CLASSES)
        dtype = rng.choice(['float64'] * 5 + ['>f8']) if lossy else rng.choice(FLOAT_DTYPES)
        dist = rng.choice(LOSSY_DISTS + ['inf', 'nan'] if lossy else FLOAT_DISTS)
    elif kind == 'int':
        name, numer = cls or rng.choice(INT_CLASSES)
        dtype = rng.choice(INT_DTYPES)
        dist = rng.choice(INT_DISTS)
    else:
        name, numer = 'Boolean', ()
        dtype = 'bool'
        dist = rng.choice(['random', 'zeros', 'ones'])
    denom = []
    if kind == 'float' and name in ('Scalar', 'Vector3', 'Vector') and rng.random() < 0.12:
        denom = rng.choice([[2], [3], [2, 2]])
    o = {'cls': name, 'numer': list(numer), 'denom': denom, 'shape': list(shape), 'dtype': dtype, 'vdist': dist,
         'vseed': rng.randrange(1 << 30), 'layout': rng.choice(['C', 'C'] + VALUE_LAYOUTS), 'units': 0,
         'mlayout': rng.choice(['', '', 'F', 'strided', 'neg', 'perm01'])}
    if name in ('Scalar', 'Vector3', 'Pair', 'Vector', 'Matrix') and rng.random() < 0.3:
        o['units'] = rng.randrange(1, len(UNITS))
    if not shape and not numer and not denom and rng.random() < 0.7:
        o['single'] = True
    return o


def rand_derivs(rng, o, lossy):
    res = []
    nd = rng.choice([1, 1, 2, 3])
    for key in rng.sample(['t', 'xy', 'r', 'lon'], nd):
        d = {'cls': o['cls'], 'numer': o['numer'], 'denom': rng.choice([[], [], [2], [3], [2, 2]]),
             'dtype': rng.choice(['float64'] * 4 + ['>f8', 'float32', '>f4']),
             'vdist': rng.choice(LOSSY_DISTS + ['inf', 'nan'] if lossy else FLOAT_DISTS), 'vseed': rng.randrange(1 << 30),
             'layout': rng.choice(['C'] + VALUE_LAYOUTS), 'key': key, 'units': 0,
             'mlayout': rng.choice(['', 'F', 'strided'])}
        if o['cls'] in ('Matrix3', 'Quaternion', 'Matrix', 'Pair') and d['denom']:
            d['cls'] = {'Matrix3': 'Matrix', 'Quaternion': 'Vector', 'Matrix': 'Matrix', 'Pair': 'Vector'}[o['cls']]
        mm = rng.random()
        d['mask'] = 'parent' if mm < 0.6 else 'F' if mm < 0.75 else rand_mask(rng, o['shape'])
        if o['shape'] and rng.random() < 0.1 and o['shape'][0] > 1:
            d['dshape'] = [1] + o['shape'][1:]           # broadcast by insert_deriv
            d['mask'] = 'F'
        if rng.random() < 0.1:
            d['readonly'] = True
        res.append(d)
    return res


def mk(case, idn):
    """fill in request, kind, non-triviality"""
    case['id'] = idn
    if case.get('mode') == 'sd':
        q0 = build(dict(case, digits=None))
        d, r = case['digits'], case['reference']
        d = list(d) if isinstance(d, (list, tuple)) else [d, d]
        r = list(r) if isinstance(r, (list, tuple)) else [r, r]
        case['req'] = ['c11', 'sd', digit_cls(d[0]), digit_cls(d[1]), not isinstance(r[0], str), not isinstance(r[1], str),
                       qobj_sx(q0, with_digits=True)]
        case['nontrivial'] = bool(q0._derivs_)
        case['kind'] = 'sd:%d derivs' % len(q0._derivs_)
        return case
    q = build(case)
    o = case['obj']
    lossy = False
    for obj, key in [(q, None)] + [(q, k) for k in q._derivs_]:
        d = attr_digits(q, key)
        tgt = q if key is None else q._derivs_[key]
        if d != 'double' and Qube._dtype(tgt._values_) == 'float':
            lossy = True
    mixed = any(bool(d._readonly_) != bool(q._readonly_) for d in q._derivs_.values())
    mode = case.get('mode', 'rt')
    if mode == 'rt' and lossy:
        mode = 'st'
    case['mode'] = mode
    try:
        st = q.__getstate__()
    except Exception:
        st = None                           # the oracle reports this case
    case['req'] = ['c11', mode, qobj_sx(q, with_digits=True, st=st)]
    arr = isinstance(q._values_, np.ndarray)
    case['nontrivial'] = bool(arr and not np.all(q._mask_))
    size = int(np.prod(q._values_.shape, dtype=int)) if arr else 1
    case['kind'] = '%s:%s:%s:%s%s%s%s%s' % (mode, o['dtype'], 'single' if o.get('single') else ('small' if size <= CUTOFF else 'big'),
                                         o['mask'] if isinstance(o.get('mask', 'F'), str) else o['mask']['pat'],
                                         ':derivs' if case.get('derivs') else '', ':ro' if case.get('readonly') else '',
                                         ':lossy' if lossy else '', ':post=' + '+'.join(case['post']) if case.get('post') else '')
    return case


def gen_cases(rng, tier):
    thorough = tier == 'thorough'
    cases = []
    def add(obj, **kw):
        case = dict(kw, obj=obj)
        try:
            cases.append(mk(case, 'c%d' % len(cases)))
        except Exception as e:
            raise RuntimeError('generator produced an invalid case %r: %r' % (case, e))
    reps = 24 if thorough else 4
    # 1. every dtype x mask pattern on small / edge shapes (lossless)
    for _ in range(reps):
        for dtype_kind in ['float'] * 3 + ['int'] * 3 + ['bool']:
            for pat in MASK_PATS:
                shape = rng.choice(SMALL_SHAPES + EDGE_SHAPES)
                o = rand_obj(rng, dtype_kind, shape)
                isz = int(np.prod(o['numer'] + o['denom'], dtype=int))
                o['mask'] = rand_mask(rng, shape, pat, isz)
                if o.get('single'):
                    o['mask'] = rng.choice(['F', 'T'])
                add(o, readonly=rng.random() < 0.2)
        # every integer dtype explicitly, with and without an array mask, plus legacy int64 states
        for dt in INT_DTYPES:
            for pat in ('F', 'holes', 'border'):
                o = rand_obj(rng, 'int', rng.choice([[5], [2, 3], [201], [4, 5, 6]]))
                o['dtype'] = dt
                o['mask'] = rand_mask(rng, o['shape'], pat)
                add(o, readonly=rng.random() < 0.2)
        for pat in ('F', 'random', 'border', 'T'):
            o = rand_obj(rng, 'int', rng.choice([[5], [2, 3], [201]]))
            o['dtype'] = 'int64'
            o['mask'] = rand_mask(rng, o['shape'], pat)
            add(o, mode='legacy')
        # every float distribution on both sides of the cutoff
        for dist in FLOAT_DISTS:
            for shape in ([7], rng.choice(EDGE_SHAPES), rng.choice(BIG_SHAPES)):
                o = rand_obj(rng, 'float', shape, cls=rng.choice(FLOAT_CLASSES[:3]))
                o['vdist'] = dist
                o['mask'] = rand_mask(rng, shape, rng.choice(['F', 'holes', 'border', 'random']))
                add(o)
        # 2. derivatives
        for _k in range(14):
            shape = rng.choice(SMALL_SHAPES[1:] + EDGE_SHAPES[:5] + [[]])
            o = rand_obj(rng, 'float', shape)
            o['denom'] = []
            o['dtype'] = 'float64'
            o.pop('single', None) if rng.random() < 0.5 else None
            o['mask'] = rand_mask(rng, shape)
            if o.get('single'):
                o['mask'] = rng.choice(['F', 'T'])
            add(o, derivs=rand_derivs(rng, o, False), readonly=rng.random() < 0.3)
        # 3. every digits / reference option (oracle; structure through the model)
        for digits, reference in DIGIT_OPTS:
            for big in (True, False) if (thorough or rng.random() < 0.5) else (True,):
                shape = rng.choice(BIG_SHAPES if big else [[6], [4, 5]])
                o = rand_obj(rng, 'float', shape, lossy=True, cls=rng.choice(FLOAT_CLASSES[:4]))
                o['mask'] = rand_mask(rng, shape, rng.choice(['F', 'F', 'holes', 'border', 'random']))
                derivs = rand_derivs(rng, o, True) if rng.random() < 0.4 else []
                add(o, derivs=derivs, digits=digits, reference=reference, digits_first=rng.random() < 0.2,
                    readonly=rng.random() < 0.1)
        # 4. operand provenance: every dtype x value layout x mask layout x object history (views, warm caches)
        for dtype in INT_DTYPES + ['float64', 'float64', 'float32', '>f8', '>f4', 'bool']:
            for lay in VALUE_LAYOUTS:
                shape = rng.choice(PROV_SHAPES)
                kind = {'i': 'int', 'u': 'int', 'b': 'bool', 'f': 'float'}[np.dtype(dtype).kind]
                o = rand_obj(rng, kind, shape)
                o['dtype'] = dtype
                o['layout'] = lay
                o.pop('single', None)
                o['mask'] = rand_mask(rng, shape, rng.choice(['F', 'F', 'random', 'holes', 'border', 'bview', 'axis0']))
                o['mlayout'] = rng.choice(['', 'F', 'strided', 'neg', 'perm01'])
                post = rng.sample(POST_OPS, rng.choice([0, 1, 1, 2, 3]))
                derivs = []
                if kind == 'float' and o['cls'] not in ('Boolean',) and rng.random() < 0.5:
                    o['denom'] = []
                    derivs = rand_derivs(rng, o, False)
                add(o, post=post, derivs=derivs, readonly=rng.random() < 0.15)
        # 6. rank 0: single (Python scalar) values and shapeless items, masked and unmasked
        for kindname in ('float', 'float', 'int', 'bool'):
            for mk_ in ('F', 'T'):
                for scalar in (True, False):
                    o = rand_obj(rng, kindname, [])
                    o['mask'] = mk_
                    o['denom'] = []
                    if scalar and not o['numer']:
                        o['single'] = True
                    else:
                        o.pop('single', None)
                    derivs = []
                    if kindname == 'float' and rng.random() < 0.5:
                        o['dtype'] = 'float64'
                        derivs = rand_derivs(rng, o, False)
                        for d in derivs:
                            d['mask'] = rng.choice(['parent', 'F', 'T'])
                            if not d['denom'] and not d['numer'] and rng.random() < 0.5:
                                d['single'] = True
                    add(o, derivs=derivs, readonly=rng.random() < 0.2)
        # 5. the per-item transposition against NumPy
        for _k in range(6):
            isz, n = rng.choice([1, 2, 3, 4, 9]), rng.choice([0, 1, 2, 5, 17])
            rows = [[rng.randrange(1000) for _ in range(isz)] for _ in range(n)]
            cases.append({'id': 'cols%d' % len(cases), 'mode': 'cols', 'isz': isz, 'rows': rows, 'kind': 'cols',
                          'nontrivial': n > 1 and isz > 1, 'req': ['c11', 'cols', isz, rows]})
    # 7. non-finite / incompressible data x EVERY digits and reference option (quick tier too): the non-finite rule of
    #    _encode_one_float_array and the literal fallback of _fpzip_encoded under lossy settings
    for _ in range(3 if thorough else 1):
        for digits, reference in DIGIT_OPTS:
            has_single = 'single' in (digits if isinstance(digits, list) else [digits])
            for dist in ('inf', 'nan') + (() if has_single else ('wide', 'tiny')):
                for cls in (FLOAT_CLASSES[0], rng.choice(FLOAT_CLASSES[1:4])):
                    shape = rng.choice(BIG_SHAPES[:5])
                    o = rand_obj(rng, 'float', shape, lossy=True, cls=cls)
                    o['vdist'] = dist
                    o['denom'] = []
                    o['mask'] = rand_mask(rng, shape, rng.choice(['F', 'random', 'border', 'holes']))
                    derivs = rand_derivs(rng, o, True) if rng.random() < 0.25 else []
                    for d in derivs:
                        d['vdist'] = rng.choice([dist, 'normal'])
                    add(o, derivs=derivs, digits=digits, reference=reference, digits_first=rng.random() < 0.2)
    # 8. set_pickle_digits with PAIRS whose entries differ (digits and reference independently), called before and
    #    after the derivatives are inserted; more than 200 derivative values survive the mask, so every derivative is
    #    really compressed and is judged against ITS entry of the pair
    for _ in range(3 if thorough else 1):
        for digits, reference in PAIR_OPTS:
            for first in (False, True):
                shape = rng.choice([[300], [20, 30], [7, 8, 9], [40, 41]])
                o = rand_obj(rng, 'float', shape, lossy=True, cls=rng.choice(FLOAT_CLASSES[:4]))
                big = any(not isinstance(x, str) and x > 15.65 for x in (digits if isinstance(digits, list) else [digits]))
                dists = ['micro'] * 3 + ['normal'] if big else ['normal', 'smooth', 'uniform', 'moderate', 'micro']
                o['vdist'] = rng.choice(dists)
                o['denom'] = []
                o['dtype'] = 'float64'
                o['mask'] = rng.choice(['F', {'pat': 'random', 'seed': rng.randrange(1 << 30), 'p': 0.1},
                                        {'pat': 'holes', 'seed': rng.randrange(1 << 30)}])
                derivs = rand_derivs(rng, o, True)
                for d in derivs:
                    d['vdist'] = rng.choice(dists)
                    d['dtype'] = 'float64'
                    d['mask'] = rng.choice(['parent', 'parent', 'F'])
                    d.pop('dshape', None)
                post = rng.sample(['warm', 'swap', 'rev'], rng.choice([0, 0, 1]))
                add(o, derivs=derivs, digits=digits, reference=reference, digits_first=first, post=post)
                if not first:                    # the attribute propagation itself, against the model's setDigits
                    add(copy.deepcopy(o), derivs=copy.deepcopy(derivs), digits=digits, reference=reference, post=post, mode='sd')
    return cases


def neighbours(case):
    """smaller / simpler variants of a case"""
    if case.get('mode') == 'cols':
        return
    if case.get('mode') == 'sd':              # the same history judged end to end
        c = copy.deepcopy(case)
        c['mode'] = 'rt'
        yield mk(c, case.get('id', 'n') + '-rt')
        return
    o = case['obj']
    for shape in ([3], [2, 3], [201]):
        c = copy.deepcopy(case)
        c['obj']['shape'] = shape
        c['obj'].pop('single', None)
        for d in c.get('derivs', []):
            d.pop('dshape', None)
        try:
            yield mk(c, case.get('id', 'n') + '-s%d' % len(shape))
        except Exception:
            continue
    if case.get('derivs'):
        c = copy.deepcopy(case)
        c['derivs'] = []
        try:
            yield mk(c, case.get('id', 'n') + '-nod')
        except Exception:
            pass
