"""C16 — vector, matrix, rotation and quaternion operations satisfy their algebra."""
import math
import numpy as np
from absn import *
import common as C
from c16_ref import *          # operand building, observation, NumPy references, residual oracles
import c16_gen as G

PROP = 'C16'
LEAN_MODULES = ['PMV.Props.C16']
PARALLEL = True
MANIFEST = {
    'text': 'Kernel-checked theorems (PMV/Props/C16.lean, 76) over an arbitrary commutative ring / field for the formulas as '
            'the code writes them: dot / cross / outer / matrix product with the reshape-roll-multiply-sum axis bookkeeping equal '
            'the index-sum (einsum / Levi-Civita) reference for every numerator rank, axis, length and denominator; perp+proj '
            'restores the vector, perp is orthogonal, unit has norm 1 (every length); axis rotations and all 24 Euler conventions '
            'equal the product of the named axis rotations, are orthonormal with determinant +1 and overwrite the np.empty '
            'buffer; Quaternion.from_euler equals the product of the three axis quaternions and to_matrix3(Quaternion.from_euler) '
            '= Matrix3.from_euler; rotate/unrotate are mutually inverse; quaternion product is associative and norm-'
            'multiplicative, reciprocal inverts, to_matrix3 is orthonormal, det +1 and multiplicative; Matrix3 -> Quaternion -> '
            'Matrix3 is the identity on every branch of from_matrix3 and the branches cover SO(3) over ordered fields; '
            'from_euler(to_euler(M)) = M for all 24 conventions away from and at exact gimbal lock; twovec, pole_rotation and '
            'from_rotation give rotation matrices; spin is Rodrigues\' formula; inverse satisfies M*M^-1 = I wherever unmasked '
            'under the LAPACK contract. Tied to /repo on every run: the same operands go to the real polymath code and to the '
            'compiled exact-rational model (every float64 is a rational) and canonical outputs are diffed; float identities are '
            'judged directly on the real objects against NumPy with tolerance 1e-10.',
    'design': 'DESIGN.md §3 C16, DESIGN.d/C16.md',
    'technique': 'Lean 4 proof (ring identities, induction over axis lengths and index lists, linear_combination certificates '
                 'over the ideal of SO(3)) + model/code correspondence + NumPy residual oracle',
    'note': 'Trusted: Lean kernel; hand-written model Model/Algebra.lean (checked against the code by the correspondence run); '
            'sqrt, sin, cos, arctan2, arcsin, sign and LAPACK are parameters with stated contracts. Not tied to the code by '
            'correspondence (theorems about arithmetic cores only): sep, spin. No theorem: Matrix.unitary (iteration). Open known '
            'findings: x_rotation sense (KF-C16-1), twovec with vectors parallel up to rounding (KF-C16-2).',
}
RULE = ('structured operands built from the repository\'s classes: every leading-shape pair of a table that over-represents '
        'rank 0, length-0/1 axes and broadcasting, every mask representation (bool, array, broadcast view), vector lengths '
        '1-4, matrices up to 4x4 (square and rectangular), with and without a denominator axis, dyadic values k/8 plus '
        'structured values (axis-aligned, parallel/antiparallel, zero, angles at multiples of pi/2), all 24 Euler conventions; '
        'a case is non-trivial when an element is masked, the operands broadcast, a denominator is present or a structured '
        'edge value is used; distinct = distinct request line (or case id for oracle-only cases)')
ASSUMPTIONS = [
    'theorems are over commutative rings / fields; IEEE rounding is not modelled (the code runs float64): float identities '
    'are checked on the real objects with tolerance 1e-10',
    'np.sqrt, np.sin, np.cos, np.sign enter the model as parameters: the theorems assume n*n = norm_sq, s*s + c*c = 1, '
    'sqrt2*sqrt2 = 2 (sqrt as a function: sqrt(x^2+y^2)^2 = x^2+y^2, sqrt(|v|^2)^2 = |v|^2, sqrt 1 = 1) and nothing else; '
    'sin(-x) = -sin(x), cos(-x) = cos(x) exactly',
    'arctan2 contract (to_euler): sine and cosine of arctan2(y, x) are y/sqrt(x^2+y^2), x/sqrt(x^2+y^2), arctan2(0,0) = 0; '
    'reduction mod 2 pi does not change them. arcsin / double-angle contract in sep_cosine. The driver evaluates sqrt inside '
    'to_euler / twovec with a 1e-30 rational approximation; (0, -0.0) arguments of arctan2 do not occur for rotation matrices',
    'from_matrix3_cover needs an ordered field; exact gimbal lock means the two pivot entries are exactly 0',
    'LAPACK contract: det(M) != 0 -> M * inv(M) = 1; np.linalg.det returns exactly 0.0 for the singular matrices the check uses',
    'quantised comparison (floor(v*2^16+1/2)) for results that involve a float division or a transcendental parameter: the '
    'model computes the same formula exactly from the same sqrt/sin/cos values',
    'masks are compared expanded; the mask-representation branches of Qube.or_ are C01\'s subject',
]
TRUSTED_EXTRA = ['LAPACK (np.linalg.det / np.linalg.inv) under the contract above', 'libm sin/cos/sqrt as parameters',
                 'NumPy einsum / cross / linalg.inv as the reference of the direct oracle']


def impl(case):
    """canonical observation of the real code"""
    try:
        r = call(case)
    except Exception as e:
        return C.exc_name(e)
    mode = case.get('mode', 'x')
    if isinstance(r, tuple):
        return [obs(x, mode) for x in r]
    return obs(r, mode)


def oracle(case):
    return judge(case)


def gen_cases(rng, tier):
    return G.gen_cases(rng, tier)


def neighbours(case):
    return G.neighbours(case)
