"""C16 — vector, matrix, rotation and quaternion operations satisfy their algebra."""
import math
import numpy as np
from absn import *
import common as C
from c16_ref import *          # operand building, observation, NumPy references, residual oracles
import c16_gen as G

PROP = 'C16'
LEAN_MODULES = ['PMV.Props.C16']
PARALLEL = True
MANIFEST = {
    'text': 'Kernel-checked theorems (PMV/Props/C16.lean) over an arbitrary commutative ring / field for the formulas as '
            'the code writes them: dot/cross/outer/matrix product with the reshape-roll-multiply-sum axis bookkeeping equal '
            'the index-sum (einsum) reference for every numerator rank, axis, length and denominator; perp+proj restores the '
            'vector, perp is orthogonal, unit has norm 1 (every length); axis rotations and all 24 Euler conventions are '
            'orthonormal with determinant +1 and overwrite every entry of the np.empty buffer; rotate/unrotate are mutually '
            'inverse; quaternion product is associative and norm-multiplicative, reciprocal inverts, to_matrix3 is orthonormal, '
            'det +1 and multiplicative with its sqrt(2)/|p| normalisation; inverse satisfies M*M^-1 = I wherever unmasked under '
            'the LAPACK contract. Tied to /repo on every run: the same operands go to the real polymath code and to the compiled '
            'exact-rational model (every float64 is a rational) and canonical outputs are diffed; float identities and the '
            'inverse-trigonometric round trips are judged directly on the real objects against NumPy with tolerance 1e-10.',
    'design': 'DESIGN.md §3 C16, DESIGN.d/C16.md',
    'technique': 'Lean 4 proof (ring identities, induction over axis lengths and index lists) + model/code correspondence '
                 '+ NumPy residual oracle',
    'note': 'Trusted: Lean kernel; hand-written model Model/Algebra.lean (checked against the code by the correspondence run); '
            'sqrt, sin, cos, sign and LAPACK are parameters with stated contracts. T1-only (no theorem): Matrix3->Quaternion->'
            'Matrix3, Euler round trips, sep, twovec, unitary, spin.',
}
RULE = ('structured operands built from the repository\'s classes: every leading-shape pair of a table that over-represents '
        'rank 0, length-0/1 axes and broadcasting, every mask representation (bool, array, broadcast view), vector lengths '
        '1-4, matrices up to 4x4 (square and rectangular), with and without a denominator axis, dyadic values k/8 plus '
        'structured values (axis-aligned, parallel/antiparallel, zero, angles at multiples of pi/2), all 24 Euler conventions; '
        'a case is non-trivial when an element is masked, the operands broadcast, a denominator is present or a structured '
        'edge value is used; distinct = distinct request line (or case id for oracle-only cases)')
ASSUMPTIONS = [
    'theorems are over commutative rings / fields; IEEE rounding is not modelled (the code runs float64): float identities '
    'are checked on the real objects with tolerance 1e-10',
    'np.sqrt, np.sin, np.cos, np.sign enter the model as parameters: the theorems assume n*n = norm_sq, s*s + c*c = 1, '
    'sqrt2*sqrt2 = 2 and nothing else; sin(-x) = -sin(x), cos(-x) = cos(x) exactly',
    'LAPACK contract: det(M) != 0 -> M * inv(M) = 1; np.linalg.det returns exactly 0.0 for the singular matrices the check uses',
    'quantised comparison (floor(v*2^16+1/2)) for results that involve a float division or a transcendental parameter: the '
    'model computes the same formula exactly from the same sqrt/sin/cos values',
    'masks are compared expanded; the mask-representation branches of Qube.or_ are C01\'s subject',
]
TRUSTED_EXTRA = ['LAPACK (np.linalg.det / np.linalg.inv) under the contract above', 'libm sin/cos/sqrt as parameters',
                 'NumPy einsum / cross / linalg.inv as the reference of the direct oracle']


def impl(case):
    """canonical observation of the real code"""
    try:
        r = call(case)
    except Exception as e:
        return C.exc_name(e)
    mode = case.get('mode', 'x')
    if isinstance(r, tuple):
        return [obs(x, mode) for x in r]
    return obs(r, mode)


def oracle(case):
    return judge(case)


def gen_cases(rng, tier):
    return G.gen_cases(rng, tier)


def neighbours(case):
    return G.neighbours(case)
