"""C05 — introspection-driven API sweep.

A *program* is a JSON-serialisable description of start objects and a list of calls; `run_program` executes it on the
real code and returns every Qube observed (every Qube found recursively in a return value, the target and the Qube
arguments after the call).  Programs are deterministic: every array / argument is described literally.
"""
import inspect, io, itertools, pickle, signal, warnings
import numpy as np
import polymath
from polymath import Qube, Scalar, Boolean, Vector, Vector3, Pair, Matrix, Matrix3, Quaternion, Polynomial, Units
from polymath.extensions import pickler as _pickler
from c05_dump import CLASS_NAMES

CLS = {n: getattr(polymath, n) for n in CLASS_NAMES}
UNITS = {'KM': Units.KM, 'SEC': Units.SECONDS if hasattr(Units, 'SECONDS') else Units.KM, 'DEG': Units.DEG,
         'UNITLESS': Units.UNITLESS, 'KMS': Units.KM / Units.SECONDS if hasattr(Units, 'SECONDS') else Units.KM,
         # dimensionless ratios: exponents (0,0,0) like UNITLESS, but a scale factor != 1
         'M_KM': Units.M / Units.KM, 'DEG_RAD': Units.DEG / Units.RAD}

SKIP = {'__init__', '__new__', '__getstate__', '__setstate__', '__repr__', '__str__', '__class__', '__reduce__',
        '__reduce_ex__', '__init_subclass__', '__subclasshook__', '__dir__', '__sizeof__', '__format__',
        '__getattribute__', '__setattr__', '__delattr__', '__hash__', '__doc__', '__module__', '__dict__', '__weakref__'}


# ------------------------------------------------------------------------------------------------- introspection
def api(cls):
    """{name: (how, signature-or-None)} of every public attribute of a class that polymath defines.
    how = 'method' | 'static' | 'class' | 'property' | 'const'"""
    res = {}
    for n in dir(cls):
        if n in SKIP:
            continue
        if n.startswith('_') and not (n.startswith('__') and n.endswith('__')):
            continue
        try:
            a = inspect.getattr_static(cls, n)
        except AttributeError:
            continue
        if isinstance(a, Qube):
            res[n] = ('const', None)
            continue
        how, f = 'method', a
        if isinstance(a, staticmethod):
            how, f = 'static', a.__func__
        elif isinstance(a, classmethod):
            how, f = 'class', a.__func__
        elif isinstance(a, property):
            how, f = 'property', a.fget
        if not callable(f) or inspect.isclass(f):
            continue
        if not (getattr(f, '__module__', '') or '').startswith('polymath'):
            continue
        try:
            sig = inspect.signature(f)
        except (TypeError, ValueError):
            sig = None
        res[n] = (how, sig)
    return res


_API = {}
def api_of(clsname):
    if clsname not in _API:
        _API[clsname] = api(CLS[clsname])
    return _API[clsname]


# ------------------------------------------------------------------------------------------------- global state
_CONSTS = []
for _n in CLASS_NAMES:
    for _k, _v in vars(CLS[_n]).items():
        if isinstance(_v, Qube):
            _CONSTS.append((_v, dict(_v.__dict__), dict(_v._derivs_)))
_PICKLE_DEFAULTS = (_pickler.DEFAULT_PICKLE_DIGITS, _pickler.DEFAULT_PICKLE_REFERENCE)
_UNIT_CONSTS = [(u, dict(u.__dict__)) for u in vars(Units).values() if isinstance(u, Units)]


def restore_globals():
    """undo what a program may have done to shared state (class constants, pickle defaults)"""
    _pickler.DEFAULT_PICKLE_DIGITS, _pickler.DEFAULT_PICKLE_REFERENCE = _PICKLE_DEFAULTS
    restore_consts()
    for u, saved in _UNIT_CONSTS:
        if u.__dict__ != saved:
            u.__dict__.clear()
            u.__dict__.update(saved)
    Qube.PREFER_BUILTIN_TYPES = False
    Qube.DISABLE_CACHE = False


def restore_consts():
    """class constants (Scalar.ZERO ...) back to their state at import"""
    for obj, saved, derivs in _CONSTS:
        d = obj.__dict__
        if d.keys() != saved.keys() or any(d[k] is not saved[k] for k in saved if k != '_cache_') \
                or d['_derivs_'].keys() != derivs.keys() or any(d['_derivs_'][k] is not derivs[k] for k in derivs):
            d.clear()
            d.update(saved)
            d['_derivs_'].clear()
            d['_derivs_'].update(derivs)
        d['_cache_'] = {}
        for dv in derivs.values():          # derivatives of constants carry no derivatives of their own
            for k in [k for k in dv.__dict__ if k.startswith('d_d')]:
                del dv.__dict__[k]
            dv.__dict__['_derivs_'] = {}


# ------------------------------------------------------------------------------------------------- building
def mk_array(d):
    """{'shape': [...], 'dtype': 'float'|'int'|'bool', 'seed': n, 'ro': bool}: dyadic values k/4 in [-3, 3]"""
    shape = tuple(d['shape'])
    n = int(np.prod(shape, dtype=int))
    rs = np.random.RandomState(d.get('seed', 0) % (2 ** 31))
    dt = d.get('dtype', 'float')
    if dt == 'float':
        a = rs.randint(-12, 13, size=n).astype(np.float64) / 4.
    elif dt == 'int':
        a = rs.randint(-3, 4, size=n).astype(np.int64)
    elif dt == 'bool':
        a = rs.randint(0, 2, size=n).astype(np.bool_)
    elif dt == 'posfloat':
        a = rs.randint(1, 13, size=n).astype(np.float64) / 4.
    elif dt == 'index':
        a = rs.randint(0, max(1, d.get('hi', 2)), size=n).astype(np.int64)
    else:
        a = rs.randint(-3, 4, size=n).astype(dt)
    a = a.reshape(shape)
    if d.get('ro'):
        a.flags.writeable = False
    return a


def mk_mask(m, shape, seed):
    if m == 'T':
        return True
    if m == 'F':
        return False
    shape = tuple(shape)
    rs = np.random.RandomState((seed + 17) % (2 ** 31))
    if m == 'A':
        return rs.randint(0, 3, size=shape) == 0
    if m == 'Z':
        return np.zeros(shape, dtype=bool)
    if m == 'V':            # broadcast view of a smaller mask (what _suitable_mask builds)
        src = tuple(1 if i == 0 else s for i, s in enumerate(shape))
        return np.broadcast_to(rs.randint(0, 2, size=src) == 0, shape)
    raise KeyError(m)


def mk_start(s):
    """start object descriptor -> real object (built with the public constructor only)"""
    if 'const' in s:
        return getattr(CLS[s['const'][0]], s['const'][1])
    cls = CLS[s['cls']]
    shape, numer, denom = s['shape'], s.get('numer', []), s.get('denom', [])
    seed = s.get('seed', 0)
    vals = mk_array({'shape': shape + numer + denom, 'dtype': s.get('dtype', 'float'), 'seed': seed, 'hi': s.get('hi', 2)})
    if s.get('pyscalar') and vals.shape == ():
        vals = vals[()].item()
    mask = mk_mask(s.get('mask', 'F'), shape, seed)
    kw = {}
    if denom:
        kw['drank'] = len(denom)
    if s['cls'] == 'Qube' and numer:
        kw['nrank'] = len(numer)
    if s.get('units'):
        kw['units'] = UNITS[s['units']]
    obj = cls(vals, mask, **kw)
    for k, dd in sorted(s.get('derivs', {}).items()):
        dv = mk_array({'shape': shape + numer + dd, 'dtype': 'float', 'seed': seed + 101 + len(k)})
        dcls = cls if cls.DERIVS_OK else Scalar
        dkw = {'units': UNITS[s['dunits']]} if s.get('dunits') and dcls.UNITS_OK else {}
        obj.insert_deriv(k, dcls(dv, mk_mask(s.get('dmask', 'F'), shape, seed + 5), drank=len(dd), **dkw))
    if s.get('readonly'):
        obj = obj.as_readonly()
    return obj


def resolve(a, pool):
    """argument descriptor -> value"""
    if 'p' in a:
        return pool[a['p'] % len(pool)] if pool else None
    if 'v' in a:
        return a['v']
    if 't' in a:
        return tuple(resolve(x, pool) for x in a['t'])
    if 'l' in a:
        return [resolve(x, pool) for x in a['l']]
    if 'd' in a:
        return {k: resolve(x, pool) for k, x in a['d'].items()}
    if 'a' in a:
        return mk_array(a['a'])
    if 'ma' in a:
        arr = mk_array(a['ma'])
        return np.ma.MaskedArray(arr, mk_mask(a['ma'].get('mask', 'A'), arr.shape, a['ma'].get('seed', 0)))
    if 'c' in a:
        return CLS[a['c']]
    if 'sl' in a:
        return slice(*a['sl'])
    if 'e' in a:
        return Ellipsis
    if 'u' in a:
        return UNITS[a['u']]
    if 'new' in a:
        return mk_start(a['new'])
    if 'np' in a:                       # a NumPy scalar: ['int64', 2]
        return getattr(np, a['np'][0])(a['np'][1])
    raise KeyError(str(a))


class _Timeout(Exception):
    pass


def _alarm(signum, frame):
    raise _Timeout()


def find_qubes(r, out, depth=0, budget=None):
    """every Qube reachable from a return value through tuples / lists / dicts / sets / iterators / derivs"""
    if budget is None:
        budget = [200]
    if budget[0] <= 0 or depth > 6:
        return
    if isinstance(r, Qube):
        budget[0] -= 1
        out.append(r)
        return
    if isinstance(r, (str, bytes, np.ndarray, np.generic, int, float, bool, type(None), Units)):
        return
    if isinstance(r, dict):
        for k in r:
            find_qubes(r[k], out, depth + 1, budget)
        return
    if isinstance(r, (tuple, list, set, frozenset)):
        for x in r:
            find_qubes(x, out, depth + 1, budget)
        return
    if hasattr(r, '__next__') or type(r).__name__ in ('QubeIterator', 'QubeNDIterator'):
        try:
            for x in itertools.islice(iter(r), 12):
                find_qubes(x, out, depth + 1, budget)
        except Exception:
            pass
        return


def call_step(step, pool):
    """perform one call; returns the raw result (or raises)"""
    tgt = step['tgt']
    name = step['name']
    args = [resolve(a, pool) for a in step.get('args', [])]
    kwargs = {k: resolve(a, pool) for k, a in step.get('kwargs', {}).items()}
    if name == '<pickle>':
        obj = pool[tgt['p'] % len(pool)]
        return pickle.loads(pickle.dumps(obj))
    if name == '<deepcopy>':
        import copy
        return copy.deepcopy(pool[tgt['p'] % len(pool)])
    if name == '<ctor>':
        return CLS[tgt['c']](*args, **kwargs)
    if 'c' in tgt:
        owner = CLS[tgt['c']]
    else:
        owner = pool[tgt['p'] % len(pool)]
    how = step.get('how', 'method')
    if how in ('property', 'const'):
        return getattr(owner, name)
    f = getattr(owner, name)
    return f(*args, **kwargs)


def _fresh():
    return Scalar(0.)


def run_program(prog, table):
    """execute a program on the real code.  Returns the list of observation records
        {'step', 'name', 'role', 'dump', 'v' (verdict list), 'print' (None | failure tag), 'sig' (None | signature)}
    Observed are: the start objects; after every step every Qube found in the return value (role 'ret') and every
    object of the pool whose dump changed (role 'pool': targets / arguments after in-place mutation, objects that
    share something with a mutated one).  Rules of the game:
      * a call that raises yields no object; pool objects whose dump changed during a raising call are replaced
        (what a rejected call leaves behind is property C19's business);
      * an object found ill-formed is reported once, with the call that produced / changed it as signature, and is
        not used as an operand afterwards (so that one defect is not re-reported through everything derived).
    """
    import c05_dump as D
    records = []
    pool = []
    last = {}                   # id(obj) -> (sx of last dump, print tag)

    def look(i, name, role, o, via_deriv=False):
        d = D.dump(o)
        v = D.clauses(d, table)
        pr = printable(o)
        key = (repr(d), pr)
        if role == 'pool' and last.get(id(o)) == key:
            return True
        last[id(o)] = key
        bad = D.failed(v)
        sig = None
        if bad or pr:
            sig = '%s:%s:%s:%s' % (name, role + ('-via-own-derivative' if via_deriv else ''), d[0],
                                   '+'.join(bad + (['print-' + pr] if pr else [])))
        records.append({'step': i, 'name': name, 'role': role, 'dump': d, 'v': v, 'print': pr, 'sig': sig})
        return sig is None

    old = signal.signal(signal.SIGALRM, _alarm)
    try:
        with warnings.catch_warnings():
            warnings.simplefilter('ignore')
            with np.errstate(all='ignore'):
                for s in prog['starts']:
                    try:
                        o = mk_start(s)
                    except Exception:
                        o = _fresh()
                    if not look(-1, 'start', 'start', o):
                        o = _fresh()
                        look(-1, 'start', 'start', o)
                    pool.append(o)
                for i, step in enumerate(prog['steps']):
                    found = []
                    raised = False
                    tgt = None
                    if 'p' in step['tgt'] and pool:
                        tgt = pool[step['tgt']['p'] % len(pool)]
                    signal.setitimer(signal.ITIMER_REAL, 20.0)
                    try:
                        r = call_step(step, pool)
                        find_qubes(r, found)
                    except _Timeout:
                        raised = True
                    except Exception:
                        raised = True
                    except BaseException as e:       # SystemExit etc. from the code under test
                        if isinstance(e, KeyboardInterrupt):
                            raise
                        raised = True
                    finally:
                        signal.setitimer(signal.ITIMER_REAL, 0)
                    name = step['name']
                    if raised:
                        # a rejected call may leave its operands changed (property C19); class constants are fetched
                        # again by later `const` steps, so they are put back at once
                        restore_consts()
                        for j, o in enumerate(pool):
                            d = D.dump(o)
                            if last.get(id(o), (None,))[0] != repr(d):
                                pool[j] = _fresh()
                                look(i, name, 'pool', pool[j])
                        continue
                    good = []
                    for o in found:
                        if any(o is p for p in pool):
                            continue
                        if look(i, name, 'ret', o):
                            good.append(o)
                    for j, o in enumerate(pool):
                        via = tgt is not None and tgt is not o and any(tgt is dv for dv in o.__dict__.get('_derivs_', {}).values()) \
                            if isinstance(o.__dict__.get('_derivs_'), dict) else False
                        if not look(i, name, 'pool', o, via):
                            pool[j] = _fresh()
                            look(i, name, 'pool', pool[j])
                    for o in good:
                        if len(pool) < 24 and not any(o is p for p in pool):
                            pool.append(o)
    finally:
        signal.signal(signal.SIGALRM, old)
        restore_globals()
    return records


def printable(o):
    """str()/repr() must not raise; returns None or a failure tag"""
    try:
        with warnings.catch_warnings():
            warnings.simplefilter('ignore')
            with np.errstate(all='ignore'):
                str(o)
                repr(o)
    except Exception as e:
        u = o.__dict__.get('_units_')
        if isinstance(u, Units):
            try:
                u.get_name()
            except Exception:
                return 'units-name'         # the units object itself cannot be printed (defect 13 of DESIGN 2.7)
        return type(e).__name__
    return None


# ------------------------------------------------------------------------------------------------- generation
SHAPES = [[], [], [1], [2], [3], [0], [2, 3], [3, 2], [1, 3], [2, 1], [0, 3], [2, 0], [2, 2], [3, 3], [2, 3, 2], [1, 1, 1]]
KEYS = ['t', 'x', 'u']


def item_for(rng, clsname):
    c = CLS[clsname]
    if c.NUMER is not None:
        return list(c.NUMER)
    if clsname == 'Qube':
        return rng.choice([[], [2], [3], [2, 2], [3, 3]])
    if c.NRANK == 1:
        return [rng.choice([1, 2, 3, 4])]
    if c.NRANK == 2:
        return rng.choice([[2, 2], [3, 3], [2, 3], [3, 2], [1, 3], [3, 1]])
    return []


def dtype_for(rng, clsname):
    c = CLS[clsname]
    opts = [k for k, ok in (('float', c.FLOATS_OK), ('int', c.INTS_OK), ('bool', c.BOOLS_OK)) if ok]
    if 'float' in opts and rng.random() < 0.6:
        return 'float'
    return rng.choice(opts)


def gen_start(rng, clsname=None, shape=None, plain=False):
    if clsname is None:
        clsname = rng.choice(CLASS_NAMES[1:])
    if not plain and rng.random() < 0.06:
        consts = [k for k, v in vars(CLS[clsname]).items() if isinstance(v, Qube)]
        if consts:
            return {'const': [clsname, rng.choice(sorted(consts))]}
    c = CLS[clsname]
    if shape is None:
        shape = rng.choice(SHAPES)
    s = {'cls': clsname, 'shape': list(shape), 'numer': item_for(rng, clsname), 'dtype': dtype_for(rng, clsname),
         'seed': rng.randrange(10 ** 6)}
    r = rng.random()
    s['mask'] = 'F' if r < 0.45 else 'T' if r < 0.55 else 'A' if r < 0.85 or not shape else 'V' if r < 0.93 else 'Z'
    if not shape and s['mask'] not in 'TF':
        s['mask'] = rng.choice('TF')
    if not shape and rng.random() < 0.5:
        s['pyscalar'] = True
    if plain:
        return s
    if c.DERIVS_OK and rng.random() < 0.35:
        s['derivs'] = {k: rng.choice([[], [], [2], [3], [2, 2]]) for k in rng.sample(KEYS, rng.choice([1, 1, 2]))}
        if rng.random() < 0.3:
            s['dmask'] = rng.choice(['T', 'A'] if shape else ['T'])
        if rng.random() < 0.15:
            s['denom'] = rng.choice([[2], [3]])
    elif c.DERIVS_OK and rng.random() < 0.12:
        s['denom'] = rng.choice([[2], [3], [2, 2], [3, 3]])
    if c.UNITS_OK and rng.random() < 0.2:
        s['units'] = rng.choice(sorted(UNITS))
    if rng.random() < 0.2:
        s['readonly'] = True
    return s


def rand_shape(rng):
    return list(rng.choice(SHAPES))


def gen_obj_arg(rng, npool, ctx):
    """an argument that is 'a value': pool object, new object, number, ndarray, list"""
    r = rng.random()
    if r < 0.45 and npool:
        return {'p': rng.randrange(npool)}
    if r < 0.65:
        shape = ctx.get('shape') if rng.random() < 0.7 else None
        cn = ctx.get('cls') if rng.random() < 0.5 else None
        return {'new': gen_start(rng, cn, shape)}
    if r < 0.8:
        return {'v': rng.choice([0, 1, 2, -1, 0.5, 2.0, -1.5, 0.0, True, False])}
    if r < 0.92:
        shape = (ctx.get('shape') or []) + (ctx.get('item') or []) if rng.random() < 0.7 else rand_shape(rng)
        return {'a': {'shape': shape, 'dtype': rng.choice(['float', 'int', 'bool']), 'seed': rng.randrange(10 ** 6)}}
    if r < 0.96:
        return {'l': [{'v': rng.choice([0, 1, 2.5])} for _ in range(rng.choice([1, 2, 3]))]}
    return {'ma': {'shape': rand_shape(rng), 'dtype': 'float', 'seed': rng.randrange(10 ** 6)}}


def gen_axis(rng):
    r = rng.random()
    if r < 0.25:
        return {'v': None}
    if r < 0.8:
        return {'v': rng.randrange(-3, 4)}
    return {'t': [{'v': rng.randrange(-2, 3)} for _ in range(rng.choice([1, 2, 2, 3]))]}


def gen_shape_arg(rng, ctx):
    r = rng.random()
    size = int(np.prod(ctx.get('shape') or [], dtype=int))
    if r < 0.5:
        # a shape with the same number of elements
        opts = {0: [[0], [0, 2], [3, 0]], 1: [[], [1], [1, 1]], 2: [[2], [1, 2], [2, 1]], 3: [[3], [1, 3], [3, 1]],
                4: [[4], [2, 2]], 6: [[6], [2, 3], [3, 2], [-1]], 9: [[9], [3, 3]], 12: [[12], [3, 4], [2, 6], [2, -1]]}
        shp = rng.choice(opts.get(size, [[size], [-1]]))
    elif r < 0.75:
        shp = (rng.choice([[2], [3], [1], [2, 2], []])) + (ctx.get('shape') or [])
    else:
        shp = rand_shape(rng)
    if rng.random() < 0.1 and len(shp) == 1:
        return {'v': shp[0]}
    return {'t': [{'v': x} for x in shp]}


def gen_index(rng, ctx, npool):
    shape = ctx.get('shape') or []
    def one(n):
        r = rng.random()
        if r < 0.3:
            return {'v': rng.randrange(-max(n, 1), max(n, 1))}
        if r < 0.55:
            return {'sl': [rng.choice([None, 0, 1, -1]), rng.choice([None, 1, 2, -1]), rng.choice([None, None, 2, -1])]}
        if r < 0.62:
            return {'e': 1}
        if r < 0.67:
            return {'v': None}
        if r < 0.72:
            return {'v': rng.choice([True, False])}
        if r < 0.8:
            return {'a': {'shape': [rng.choice([1, 2, 3])], 'dtype': 'index', 'hi': n, 'seed': rng.randrange(10 ** 6)}}
        if r < 0.86:
            return {'a': {'shape': [n], 'dtype': 'bool', 'seed': rng.randrange(10 ** 6)}}
        if r < 0.93:
            return {'new': {'cls': 'Scalar', 'shape': [rng.choice([1, 2])], 'dtype': 'index', 'hi': n,
                            'mask': rng.choice(['F', 'A', 'T']), 'seed': rng.randrange(10 ** 6)}}
        if r < 0.97:
            return {'new': {'cls': 'Boolean', 'shape': [n], 'dtype': 'bool', 'mask': rng.choice(['F', 'A']),
                            'seed': rng.randrange(10 ** 6)}}
        return {'p': rng.randrange(npool)} if npool else {'v': 0}
    r = rng.random()
    if r < 0.1:
        return one(shape[0] if shape else 1)
    k = rng.choice([0, 1, 1, 2, len(shape), len(shape) + 1])
    ents = [one(shape[i] if i < len(shape) else 1) for i in range(k)]
    if len(shape) >= 2 and rng.random() < 0.1:
        return {'new': {'cls': 'Pair', 'shape': [rng.choice([1, 2])], 'numer': [2], 'dtype': 'index', 'hi': min(shape[:2]) or 1,
                        'mask': rng.choice(['F', 'A']), 'seed': rng.randrange(10 ** 6)}}
    if len(ents) == 1 and rng.random() < 0.5:
        return ents[0]
    return {'t': ents}


BOOL_PARAMS = {'recursive', 'builtins', 'check', 'remask', 'readonly', 'override', 'retain_cache', 'nozeros',
               'masked', 'unmask', 'clip', 'inclusive', 'mask_endpoints', 'reverse', 'invert', 'keepdims', 'ccw',
               'safe', 'partials', 'as_scalar', 'unique', 'copy', 'tvl'}
OBJ_PARAMS = {'arg', 'arg1', 'arg2', 'other', 'value', 'values', 'vector', 'vectors', 'pole', 'a', 'b', 'c', 'x', 'y',
              'z', 'w', 'lower', 'upper', 'limit', 'replace', 'angle', 'angles', 'match', 'scale', 'norm', 'length',
              'ra', 'dec', 'radius', 'axis1_vector', 'vector1', 'vector2', 'vec', 'vec1', 'vec2', 'omega', 'origin',
              'direction', 'expo', 'fill', 'default', 'example', 'obj', 'coefficients', 'ai', 'aj', 'ak', 'cos', 'sin',
              'pos', 'vel', 'line', 'denom_value', 'mask_value', 'factor', 'quaternion', 'matrix', 'pair', 'scalar',
              'index', 'indices', 'item', 'n'}


def gen_param(rng, pname, param, ctx, npool):
    """argument descriptor for one parameter, chosen by its name and its default value"""
    dflt = param.default if param is not None else inspect.Parameter.empty
    if rng.random() < 0.04:
        return rng.choice([{'v': None}, {'v': 'zz'}, {'v': 3}, {'v': -1.5}, {'t': []}, {'c': 'Scalar'},
                           {'p': rng.randrange(npool)} if npool else {'v': 0}])
    if pname in BOOL_PARAMS or isinstance(dflt, bool):
        return {'v': rng.random() < 0.5}
    if pname in ('axis', 'axis1', 'axis2', 'axes', 'start', 'source', 'destination'):
        if pname in ('axis1', 'axis2', 'start'):
            return {'v': rng.randrange(-3, 4)}
        return gen_axis(rng)
    if pname in ('shape', 'newshape'):
        return gen_shape_arg(rng, ctx)
    if pname in ('key', 'new_key'):
        return {'v': rng.choice(KEYS)}
    if pname in ('mask', 'antimask'):
        r = rng.random()
        shape = ctx.get('shape') or []
        if r < 0.3:
            return {'v': rng.random() < 0.4}
        if r < 0.75:
            return {'a': {'shape': shape, 'dtype': 'bool', 'seed': rng.randrange(10 ** 6)}}
        if r < 0.9:
            return {'new': {'cls': 'Boolean', 'shape': shape, 'dtype': 'bool', 'mask': rng.choice(['F', 'A'] if shape else ['F', 'T']),
                            'seed': rng.randrange(10 ** 6)}}
        return {'a': {'shape': rand_shape(rng), 'dtype': rng.choice(['bool', 'int']), 'seed': rng.randrange(10 ** 6)}}
    if pname == 'derivs':
        if rng.random() < 0.3:
            return {'v': None} if rng.random() < 0.3 else {'d': {}}
        return {'d': {k: gen_obj_arg(rng, npool, ctx) for k in rng.sample(KEYS, rng.choice([1, 2]))}}
    if pname == 'units':
        return rng.choice([{'v': None}, {'u': 'KM'}, {'u': 'DEG'}, {'u': 'UNITLESS'}, {'u': 'KMS'}, {'v': False},
                           {'u': 'M_KM'}, {'u': 'DEG_RAD'}])
    if pname == 'dtype':
        return {'v': rng.choice(['float', 'int', 'bool', 'float', 'int32', 'zz'])}
    if pname in ('numer', 'denom'):
        return rng.choice([{'v': None}, {'t': []}, {'t': [{'v': 2}]}, {'t': [{'v': 3}]}, {'t': [{'v': 2}, {'v': 2}]},
                           {'t': [{'v': 3}, {'v': 3}]}])
    if pname in ('nrank', 'drank', 'rank'):
        return {'v': rng.choice([None, 0, 1, 2])}
    if pname == 'preserve':
        return rng.choice([{'v': None}, {'v': 't'}, {'l': [{'v': 't'}]}, {'l': [{'v': 'x'}, {'v': 'u'}]}, {'l': []}])
    if pname == 'method':
        return {'v': rng.choice(['insert', 'replace', 'add', 'zz'])}
    if pname == 'classes':
        ks = rng.sample(CLASS_NAMES[1:], rng.choice([0, 1, 2]))
        return {'t': [{'c': k} for k in ks]}
    if pname in ('digits', 'reference'):
        return rng.choice([{'v': 'double'}, {'v': 'single'}, {'v': 8}, {'v': 'fpzip'}, {'v': 'smallest'}, {'v': 'median'},
                           {'t': [{'v': 'double'}, {'v': 'single'}]}, {'v': 1.0}])
    if pname in ('order', 'recursive_order', 'k', 'times', 'axes_', 'index0', 'index1', 'indx', 'i', 'j', 'dim', 'new_order',
                 'decimals', 'ndigits', 'size', 'stop', 'step'):
        return {'v': rng.choice([0, 1, 2, 3, -1])}
    if pname in ('opstr', 'op', 'name', 'suffix', 'prefix', 'code', 'axes_code'):
        return {'v': rng.choice(['', 'xyz', 'zxz', 'rzxz', 'sxyz', 'op'])}
    if pname in OBJ_PARAMS:
        return gen_obj_arg(rng, npool, ctx)
    # by default value
    if dflt is inspect.Parameter.empty or dflt is None:
        return gen_obj_arg(rng, npool, ctx)
    if isinstance(dflt, int):
        return {'v': rng.choice([0, 1, 2, -1, dflt])}
    if isinstance(dflt, float):
        return {'v': rng.choice([0., 1., 0.5, dflt])}
    if isinstance(dflt, str):
        return {'v': rng.choice([dflt, '', 'xyz', 'float', 'int'])}
    if isinstance(dflt, tuple):
        return {'t': [{'v': rng.choice([0, 1, 2])} for _ in range(rng.choice([0, 1, 2]))]}
    if isinstance(dflt, (list, dict)):
        return {'l': []} if isinstance(dflt, list) else {'d': {}}
    return gen_obj_arg(rng, npool, ctx)


def gen_call(rng, clsname, name, npool, tgt_index, ctx):
    """a step calling <clsname>.<name>; the target (for instance methods) is pool[tgt_index]"""
    how, sig = api_of(clsname)[name]
    step = {'name': name, 'how': how, 'args': [], 'kwargs': {}}
    if how in ('static', 'class', 'const'):
        step['tgt'] = {'c': clsname}
        if how == 'static' and rng.random() < 0.15 and npool:
            step['tgt'] = {'p': tgt_index}          # static method called through an instance
    else:
        step['tgt'] = {'p': tgt_index}
    if how in ('property', 'const') or sig is None:
        return step
    if name in ('__getitem__', '__setitem__'):
        step['args'].append(gen_index(rng, ctx, npool))
        if name == '__setitem__':
            step['args'].append(gen_obj_arg(rng, npool, ctx))
        return step
    params = list(sig.parameters.items())
    if how in ('method', 'class') and params:
        params = params[1:]
    for pname, p in params:
        if p.kind == inspect.Parameter.VAR_POSITIONAL:
            for _ in range(rng.choice([0, 1, 2, 2, 3])):
                step['args'].append(gen_param(rng, pname.rstrip('s') if pname != 'args' else 'arg', None, ctx, npool))
            continue
        if p.kind == inspect.Parameter.VAR_KEYWORD:
            continue
        has_default = p.default is not inspect.Parameter.empty
        if has_default and rng.random() < 0.55:
            continue
        a = gen_param(rng, pname, p, ctx, npool)
        if p.kind == inspect.Parameter.KEYWORD_ONLY or (has_default and (step['kwargs'] or rng.random() < 0.5)):
            step['kwargs'][pname] = a
        elif step['kwargs']:
            step['kwargs'][pname] = a
        else:
            step['args'].append(a)
    return step


def gen_ctor(rng, clsname, npool, ctx):
    """a call of the public constructor with generated (often invalid) arguments"""
    sig = inspect.signature(CLS[clsname].__init__)
    step = {'name': '<ctor>', 'tgt': {'c': clsname}, 'args': [], 'kwargs': {}}
    item = item_for(rng, clsname)
    c2 = dict(ctx, item=item, shape=ctx.get('shape') if rng.random() < 0.5 else rand_shape(rng))
    step['args'].append(gen_obj_arg(rng, npool, c2))
    for pname, p in list(sig.parameters.items())[2:]:
        if rng.random() < 0.7:
            continue
        step['kwargs'][pname] = gen_param(rng, pname, p, c2, npool)
    return step


def gen_program(rng, clsname, name, depth):
    """a program whose LAST step calls clsname.name; earlier steps are random calls / mutations / pickle round trips"""
    starts = [gen_start(rng, clsname if clsname != 'Qube' or rng.random() < 0.5 else None)]
    shape = starts[0].get('shape', [])
    for _ in range(rng.choice([0, 1, 2])):
        starts.append(gen_start(rng, rng.choice([clsname, None, 'Scalar']) if clsname != 'Qube' else None,
                                shape if rng.random() < 0.6 else None))
    ctx = {'shape': shape, 'cls': clsname, 'item': starts[0].get('numer', [])}
    steps = []
    npool = len(starts)
    for _ in range(max(0, depth - 1)):
        r = rng.random()
        if r < 0.15:
            steps.append({'name': '<pickle>', 'tgt': {'p': rng.randrange(npool + len(steps))}})
        elif r < 0.2:
            steps.append(gen_ctor(rng, rng.choice(CLASS_NAMES), npool + len(steps), ctx))
        else:
            cn = clsname if rng.random() < 0.7 else rng.choice(CLASS_NAMES[1:])
            names = sorted(api_of(cn))
            nm = rng.choice(names)
            if rng.random() < 0.35:
                nm = rng.choice([n for n in names if n.startswith('__i') or n in MUTATORS] or names)
            ti = 0 if cn == clsname and rng.random() < 0.6 else rng.randrange(npool + len(steps))
            steps.append(gen_call(rng, cn, nm, npool + len(steps), ti, ctx))
    if name == '<ctor>':
        steps.append(gen_ctor(rng, clsname, npool + len(steps), ctx))
    elif name in ('<pickle>', '<deepcopy>'):
        steps.append({'name': name, 'tgt': {'p': 0 if rng.random() < 0.5 else rng.randrange(npool + len(steps))}})
    else:
        ti = 0 if rng.random() < 0.7 else rng.randrange(npool + len(steps))
        steps.append(gen_call(rng, clsname, name, npool + len(steps), ti, ctx))
    return {'starts': starts, 'steps': steps}


MUTATORS = {'insert_deriv', 'insert_derivs', 'delete_deriv', 'delete_derivs', 'set_units', 'as_readonly', '__setitem__',
            'match_readonly', 'require_writable', 'set_pickle_digits', 'set_order'}


# ------------------------------------------------------------------------------------------------- in-place operators x units
INPLACE_OPS = ['__iadd__', '__isub__', '__imul__', '__idiv__', '__itruediv__', '__ifloordiv__', '__imod__',
               '__iand__', '__ior__', '__ixor__']
OPERAND_UNITS = [None, 'UNITLESS', 'M_KM', 'DEG_RAD', 'KM', 'SEC']
# an operand class of the same item shape that PERMITS units (the in-place operators take their units from it)
TWIN = {'Quaternion': ('Vector', [4]), 'Matrix3': ('Matrix', [3, 3]), 'Boolean': ('Scalar', []), 'Vector3': ('Vector', [3]),
        'Pair': ('Vector', [2])}


def gen_inplace_units(rng, reps):
    """systematic programs `target <op>= operand` for every class x every in-place operator x operand units drawn from
    {None, UNITLESS, dimensionless ratios with a factor != 1, ordinary units} x operand kind (a Scalar / an object
    of the target's item shape from a class that permits units), with and without derivatives on either side.
    The well-formedness clauses judged afterwards include `cls_units` (units only where UNITS_OK)."""
    progs = []
    for cn in CLASS_NAMES:
        ops = [n for n in INPLACE_OPS if n in api_of(cn)]
        for name in ops:
            for u in OPERAND_UNITS:
                for kind in ('scalar', 'twin'):
                    for _ in range(reps):
                        shape = rng.choice([[], [2], [2, 3], [1]])
                        tgt = gen_start(rng, cn, shape, plain=True)
                        if CLS[cn].FLOATS_OK and rng.random() < 0.8:
                            tgt['dtype'] = 'float'
                        tgt['mask'] = rng.choice(['F', 'F', 'A'] if shape else ['F', 'F', 'T'])
                        tgt.pop('pyscalar', None)
                        if not shape and rng.random() < 0.4:
                            tgt['pyscalar'] = True
                        if CLS[cn].DERIVS_OK and rng.random() < 0.3:
                            tgt['derivs'] = {rng.choice(KEYS): rng.choice([[], [2]])}
                        if kind == 'scalar':
                            ocn, item = 'Scalar', []
                        else:
                            ocn, item = TWIN.get(cn, (cn if cn != 'Qube' else 'Scalar', tgt['numer']))
                            if CLS[ocn].NUMER is None and ocn != 'Scalar':
                                item = tgt['numer']
                        opd = {'cls': ocn, 'shape': rng.choice([shape, []]), 'numer': list(item),
                               'dtype': rng.choice(['posfloat', 'posfloat', 'float', 'int']), 'seed': rng.randrange(10 ** 6),
                               'mask': 'F'}
                        if u is not None:
                            opd['units'] = u
                        if rng.random() < 0.35:
                            opd['derivs'] = {rng.choice(KEYS): rng.choice([[], [2]])}
                            if u is not None and rng.random() < 0.5:
                                opd['dunits'] = u           # the derivative operand carries the units as well
                        step = {'name': name, 'how': 'method', 'tgt': {'p': 0}, 'args': [{'p': 1}], 'kwargs': {}}
                        progs.append((cn, name, u or 'None', {'starts': [tgt, opd], 'steps': [step]}))
    return progs


BROADCAST_PAIRS = [([2, 3], [1, 3]), ([2, 3], [2, 1]), ([2], [1]), ([3, 2], [1, 1])]
LITERAL_OPERANDS = [{'v': 2}, {'v': 3}, {'v': 0}, {'v': 1}, {'v': -1}, {'v': 2.5}, {'v': True}, {'np': ['int64', 2]},
                    {'np': ['float64', 0.5]}, {'np': ['bool_', True]}]


def _operand_class(cn, kind, tgt):
    if kind == 'scalar':
        return 'Scalar', []
    ocn, item = TWIN.get(cn, (cn if cn != 'Qube' else 'Scalar', tgt['numer']))
    if CLS[ocn].NUMER is None and ocn != 'Scalar':
        item = tgt['numer']
    return ocn, item


def gen_inplace_shapes(rng, reps):
    """systematic programs for every class x every in-place operator:
    (a) operand of the SAME rank as the target with length-1 axes (broadcast within the rank) and an ARRAY mask, the
        target's mask being the single value False / True or an array;
    (b) a shapeless target holding a single Python value, updated with plain numbers of every sort (ints other than
        0/1, floats, bools, NumPy scalars) - the class's value-type clause (`cls_kind`) is judged afterwards."""
    progs = []
    for cn in CLASS_NAMES:
        for name in [n for n in INPLACE_OPS if n in api_of(cn)]:
            for (tshape, oshape) in BROADCAST_PAIRS:
                for kind in ('scalar', 'twin'):
                    for _ in range(reps):
                        tgt = gen_start(rng, cn, tshape, plain=True)
                        tgt.pop('pyscalar', None)
                        if CLS[cn].FLOATS_OK:
                            tgt['dtype'] = 'float'
                        tgt['mask'] = rng.choice(['F', 'F', 'T', 'A'])
                        ocn, item = _operand_class(cn, kind, tgt)
                        opd = {'cls': ocn, 'shape': list(oshape), 'numer': list(item), 'mask': rng.choice(['A', 'A', 'Z']),
                               'dtype': rng.choice(['posfloat', 'float', 'int'] if ocn != 'Boolean' else ['bool']),
                               'seed': rng.randrange(10 ** 6)}
                        if name in ('__iand__', '__ior__', '__ixor__') and rng.random() < 0.5:
                            opd = dict(opd, cls='Boolean', numer=[], dtype='bool')
                        step = {'name': name, 'how': 'method', 'tgt': {'p': 0}, 'args': [{'p': 1}], 'kwargs': {}}
                        progs.append((cn, name, 'bcast', {'starts': [tgt, opd], 'steps': [step]}))
            for lit in LITERAL_OPERANDS:
                for _ in range(reps):
                    tgt = gen_start(rng, cn, [], plain=True)
                    tgt['pyscalar'] = True
                    tgt['mask'] = rng.choice(['F', 'F', 'T'])
                    step = {'name': name, 'how': 'method', 'tgt': {'p': 0}, 'args': [dict(lit)], 'kwargs': {}}
                    steps = [step]
                    if rng.random() < 0.3:
                        steps.append({'name': '<pickle>', 'tgt': {'p': 0}})
                    progs.append((cn, name, 'literal', {'starts': [tgt], 'steps': steps}))
    return progs
