"""C19 — building real polymath objects from case descriptors, running one mutator call on them,
deep snapshots, exception classification.  No knowledge of the Lean model in this file."""
import operator, warnings
import numpy as np
from absn import *

ALLOWED = (TypeError, ValueError, IndexError)
FORBIDDEN_NAMES = ('AttributeError', 'NameError', 'RuntimeError', 'UnboundLocalError', 'ZeroDivisionError')

UNIT_TABLE = {None: None, 'km': Units.KM, 'm': Units.M, 's': Units.SEC, 'rad': Units.RAD, 'deg': Units.DEG,
              'km/s': Units.KM / Units.SEC}
NRANK = {'Scalar': 0, 'Boolean': 0, 'Vector': 1, 'Vector3': 1, 'Pair': 1, 'Quaternion': 1, 'Matrix': 2, 'Matrix3': 2}
DTYPE = {'float': 'float64', 'int': 'int64', 'bool': 'bool'}


def exc_class(e):
    """enum used in observations: the first allowed base class the exception is an instance of, else Other:/Warn:"""
    if isinstance(e, Warning):
        return 'Warn:' + type(e).__name__
    for t in (IndexError, TypeError, ValueError):
        if isinstance(e, t):
            return t.__name__
    return 'Other:' + type(e).__name__


# --------------------------------------------------------------------------- building
def _vals(n, kind, vseed, zero=False):
    """deterministic small values: nonzero integers 1..6 (exact in float64), optionally containing a zero"""
    v = np.array([((vseed * 7 + i * 5) % 6) + 1 for i in range(n)], dtype='int64')
    if zero and n:
        v[vseed % n] = 0
    if kind == 'bool':
        return (v % 2).astype(bool)
    return v.astype(DTYPE[kind])


def _mask(m, shape, vseed):
    if m == 'T':
        return True
    if m == 'F' or not shape:
        return False
    n = int(np.prod(shape, dtype=int))
    bits = np.array([((vseed + 3 * i) % 4) == 0 for i in range(n)], dtype=bool).reshape(shape)
    return bits


def build(o, vseed=0):
    """a real polymath object from a descriptor {cls kind shape numer denom units ro mask derivs zero}"""
    cls = CLASSES[o['cls']]
    shape, numer, denom = list(o['shape']), list(o.get('numer', [])), list(o.get('denom', []))
    full = shape + numer + denom
    n = int(np.prod(full, dtype=int))
    vals = _vals(n, o.get('kind', 'float'), vseed, o.get('zero', False)).reshape(full)
    if not full:
        vals = vals[()].item()
    obj = cls(vals, _mask(o.get('mask', 'F'), shape, vseed), units=UNIT_TABLE[o.get('units')], drank=len(denom))
    for k, (key, d) in enumerate(sorted(o.get('derivs', {}).items())):
        dd = {'cls': d.get('cls', o['cls']), 'kind': 'float', 'shape': d.get('shape', shape), 'numer': d.get('numer', numer),
              'denom': d.get('denom', []), 'mask': d.get('mask', 'F'), 'units': d.get('units')}
        if dd['cls'] == 'Boolean':
            dd['cls'] = 'Scalar'
        dv = build(dd, vseed + 11 + k)
        if d.get('ro'):
            dv = dv.as_readonly()            # a read-only derivative inside a (possibly writable) object
        obj.insert_deriv(key, dv)
    if o.get('ro'):
        obj = obj.as_readonly()
    return obj


class Unsupported:
    """an operand of a type polymath knows nothing about"""
    pass


def build_arg(a, vseed=1):
    t = a['t']
    if t == 'q':
        return build(a, vseed)
    if t == 'num':
        v = 0 if a.get('zero') else 3
        return {'float': float(v) + (0.0 if a.get('zero') else 0.5), 'int': int(v), 'bool': bool(v)}[a['kind']]
    if t == 'nd':
        shape = list(a['shape'])
        return _vals(int(np.prod(shape, dtype=int)), a['kind'], vseed).reshape(shape)
    if t == 'bad':
        return {'str': 'abc', 'none': None, 'dict': {'a': 1}, 'object': Unsupported(), 'complex': 1j}[a['what']]
    if t == 'units':
        return UNIT_TABLE[a['units']]
    if t == 'derivs':      # dictionary of derivatives for insert_derivs
        return {k: (build(d, vseed + i) if isinstance(d, dict) and d.get('t', 'q') == 'q' else build_arg(d, vseed + i))
                for i, (k, d) in enumerate(a['items'])}
    raise KeyError(t)


def build_index(ix, vseed=2):
    """index descriptors: list of entries  int | ['s',a,b,c] | 'e' (Ellipsis) | 'n' (None) | ['a', [ints]] (int array)
       | ['b',[bools]] | ['f'] float | ['q', ints, maskbits] (Scalar index with mask) | 'T' | 'F' | ['bad']"""
    out = []
    force_tuple = False
    for e in ix:
        if isinstance(e, bool):
            out.append(e)
        elif isinstance(e, int):
            out.append(e)
        elif e == 'e':
            out.append(Ellipsis)
        elif e == 'n':
            out.append(None)
        elif e == 'T':
            out.append(True)
        elif e == 'F':
            out.append(False)
        elif e[0] == 's':
            out.append(slice(e[1], e[2], e[3]))
        elif e[0] == 'a':
            out.append(np.array(e[1], dtype='int64'))
        elif e[0] == 'b':
            out.append(np.array(e[1], dtype=bool))
        elif e[0] == 'f':
            out.append(1.5)
        elif e[0] == 'q':
            out.append(Scalar(np.array(e[1], dtype='int64'), np.array(e[2], dtype=bool)))
        elif e[0] == 'bad':
            out.append('abc')
        elif e[0] == 'inner':
            # entries whose preparation fails INSIDE _prep_index with a class other than IndexError (ValueError from
            # Qube()/np.array()/broadcasted_shape); only the try/except wrapper turns them into IndexError
            out.append({'rag': [[0, 1], [0, 1, 2]], 'nonel': [None, 0], 'strl': ['a', 'b'],
                        'objarr': np.array([None, 1], dtype=object), 'nest': (0, (1, 2)),
                        'strarr': np.array(['a'])}[e[1]])
            force_tuple = True
        else:
            raise KeyError(e)
    return tuple(out) if force_tuple or len(out) != 1 or ix[0] in ('e', 'n') else out[0]


# --------------------------------------------------------------------------- snapshots
def _units_snap(u):
    if u is None:
        return None
    return (tuple(u.exponents), tuple(u.triple), u.name if isinstance(u.name, (str, type(None))) else repr(u.name))


def snap(q, deep=True):
    """deep, address-free snapshot of everything the property calls 'the target': values, mask (expanded), units,
    derivatives (keys and contents), read-only flag, the d_d<key> attributes"""
    if not isinstance(q, Qube):
        if isinstance(q, np.ndarray):
            return ('nd', q.dtype.str, q.shape, q.tobytes())
        if isinstance(q, dict):
            return ('dict', tuple(sorted((k, snap(v)) for k, v in q.items())))
        if isinstance(q, Units):
            return ('units', _units_snap(q))
        return ('py', type(q).__name__, repr(q) if not isinstance(q, Unsupported) else 'U')
    v = np.asarray(q._values_)
    try:
        m = np.broadcast_to(np.asarray(q._mask_, dtype=bool), q._shape_)
    except ValueError:                      # a malformed object (mask shape does not fit): keep the raw mask
        m = np.asarray(q._mask_, dtype=bool)
    dd = tuple(sorted(k for k in q.__dict__ if k.startswith('d_d')))
    res = (type(q).__name__, tuple(q._shape_), tuple(q._numer_), tuple(q._denom_), v.dtype.kind, v.shape, v.tobytes(),
           m.tobytes(), _units_snap(q._units_), bool(q._readonly_), dd)
    if deep:
        res += (tuple((k, snap(d, False)) for k, d in sorted(q._derivs_.items(), key=lambda kv: repr(kv[0]))),)
    return res


def wellformed(q):
    """minimal structural sanity of a target after an ACCEPTED call (used to recognise a silently accepted shape fault)"""
    if np.shape(q._values_) != tuple(q._shape_) + tuple(q._numer_) + tuple(q._denom_):
        return 'values shape %s != shape+item %s' % (np.shape(q._values_), tuple(q._shape_) + tuple(q._numer_) + tuple(q._denom_))
    try:
        np.broadcast_to(np.asarray(q._mask_), q._shape_)
    except ValueError:
        return 'mask shape %s does not fit %s' % (np.shape(q._mask_), tuple(q._shape_))
    for k, d in q._derivs_.items():
        if tuple(d._shape_) != tuple(q._shape_):
            return 'deriv %s shape %s != %s' % (k, d._shape_, q._shape_)
        if tuple(d._numer_) != tuple(q._numer_):
            return 'deriv %s numer %s != %s' % (k, d._numer_, q._numer_)
        if np.shape(d._values_) != tuple(d._shape_) + tuple(d._numer_) + tuple(d._denom_):
            return 'deriv %s values shape' % k
    return None


# --------------------------------------------------------------------------- running one call
IOPS = {'iadd': operator.iadd, 'isub': operator.isub, 'imul': operator.imul, 'itruediv': operator.itruediv,
        'ifloordiv': operator.ifloordiv, 'imod': operator.imod, 'ipow': operator.ipow,
        'iand': operator.iand, 'ior': operator.ior, 'ixor': operator.ixor}


# the non-mutating counterparts ("rejected for the same reasons raise from the same exception families"); r* = the
# polymath object is the RIGHT operand
BINOPS = {'add': operator.add, 'sub': operator.sub, 'mul': operator.mul, 'truediv': operator.truediv,
          'floordiv': operator.floordiv, 'mod': operator.mod, 'pow': operator.pow,
          'and': operator.and_, 'or': operator.or_, 'xor': operator.xor}


BAD_KEYS = {'int': 3, 'tuple': (), 'none': None, 'bytes': b't', 'float': 1.5}


def class_constants(clsname):
    """names of the shapeless class-level constants of exactly this class (shared, read-only objects)"""
    cls = CLASSES[clsname]
    return sorted(n for n, v in vars(cls).items() if n.isupper() and type(v) is cls and v._shape_ == ())


def apply_badkey(t, a, case):
    """the derivative mutators (and the copying with_deriv / rename_deriv) with a key that is not a string"""
    key = BAD_KEYS[case['keykind']]
    m = case['meth']
    if m == 'insert_deriv':
        return t.insert_deriv(key, a)
    if m == 'insert_derivs':
        return t.insert_derivs({key: a})
    if m == 'insert_derivs2':                 # a good key first, the bad one second
        return t.insert_derivs({'u': a, key: a})
    if m == 'with_deriv':
        return t.with_deriv(key, a, method=case.get('method', 'insert'))
    if m == 'rename_deriv':
        return t.rename_deriv('t', key)
    if m == 'delete_deriv':
        return t.delete_deriv(key)
    raise KeyError(m)


def apply(mut, t, a, case):
    if mut == 'badkey':
        return apply_badkey(t, a, case)
    if mut in IOPS:
        return IOPS[mut](t, a)
    if mut in BINOPS:
        return BINOPS[mut](t, a)
    if mut[0] == 'r' and mut[1:] in BINOPS:
        return BINOPS[mut[1:]](a, t)
    if mut == 'setitem':
        t[build_index(case['index'])] = a
        return t
    if mut == 'insert_deriv':
        kw = {} if case.get('override') is None else {'override': case['override']}
        t.insert_deriv(case['key'], a, **kw)
        return t
    if mut == 'insert_derivs':
        kw = {} if case.get('override') is None else {'override': case['override']}
        t.insert_derivs(a, **kw)
        return t
    if mut == 'delete_deriv':
        kw = {} if case.get('override') is None else {'override': case['override']}
        t.delete_deriv(case['key'], **kw)
        return t
    if mut == 'delete_derivs':
        kw = {}
        if case.get('override') is not None:
            kw['override'] = case['override']
        if case.get('preserve') is not None:
            p = case['preserve']
            kw['preserve'] = {'list': list, 'tuple': tuple, 'set': set}[case.get('ptype', 'list')](p)
        t.delete_derivs(**kw)
        return t
    if mut == 'set_units':
        kw = {} if case.get('override') is None else {'override': case['override']}
        t.set_units(a, **kw)
        return t
    raise KeyError(mut)


_UNIT_NAMES = [(u, u.name) for u in UNIT_TABLE.values() if u is not None]


def run_case(case):
    """returns dict: exc (None or enum), exc_type, clean (target untouched), arg_clean, result object, emitted warnings"""
    for u, name in _UNIT_NAMES:          # undo DESIGN §2.7 #13 (names of the shared class-level Units objects get cleared),
        u.name = name                    # so that every case starts from the same global state
    const = case.get('const')
    if const:                              # a shared class constant instead of a fresh object
        t = getattr(CLASSES[case['target']['cls']], const)
        keys0, attrs0 = set(t._derivs_), set(t.__dict__)
    else:
        t = build(case['target'], case.get('vseed', 0))
    a = build_arg(case['arg'], case.get('vseed', 0) + 1) if case.get('arg') is not None else None
    before_t, before_a = snap(t), snap(a)
    res = {'exc': None, 'etype': None, 'msg': None}
    with warnings.catch_warnings(record=True) as rec:
        warnings.simplefilter('always')
        try:
            r = apply(case['mut'], t, a, case)
            res['result'] = r
        except Exception as e:
            res['exc'] = exc_class(e)
            res['etype'] = type(e).__name__
            res['msg'] = str(e)[:160]
    res['warnings'] = sorted({w.category.__name__ for w in rec})
    after_t = snap(t)
    res['clean'] = after_t == before_t
    res['dirty_fields'] = [i for i, (x, y) in enumerate(zip(before_t, after_t)) if x != y]
    # only the NAME of the (shared, class-level) Units object changed: DESIGN §2.7 #13, Units.mul_units/div_units
    res['only_units_name'] = (res['dirty_fields'] == [8] and before_t[8] is not None and after_t[8] is not None
                              and before_t[8][:2] == after_t[8][:2])
    res['arg_clean'] = snap(a) == before_a
    res['target'] = t
    if const:                              # put the shared constant back, whatever the call did to it
        for k in list(t._derivs_):
            if k not in keys0:
                del t._derivs_[k]
        for k in list(t.__dict__):
            if k not in attrs0:
                del t.__dict__[k]
        t._cache_.clear()
    return res
