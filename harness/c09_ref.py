"""C09/C10 — loop-based per-element reference for polymath indexing, case builders, canonical observations.

The reference (`ref_select`) is independent of the Lean model and of NumPy's advanced indexing: for every output
coordinate it names the source element (leading index into the indexed object) and says whether the selecting index
entry was masked or out of range.  Only `slice.indices` is borrowed from Python (slices are passed through to NumPy
untouched by polymath, so their arithmetic is not polymath's).
"""
import itertools
import numpy as np
from absn import *

ITEMS = {'Scalar': [[]], 'Boolean': [[]], 'Vector': [[2], [3]], 'Pair': [[2]], 'Vector3': [[3]], 'Matrix': [[2, 2], [2, 3]],
         'Matrix3': [[3, 3]], 'Quaternion': [[4]]}


class RefError(Exception):
    """the reference says the index is invalid (the code must raise IndexError)"""


def prod(s):
    return int(np.prod(s, dtype=int))


def unravel(shape):
    return list(itertools.product(*[range(n) for n in shape]))


def bproj(shape, coord):
    """project a coordinate of a broadcast shape onto an operand of shape `shape` (right-aligned, length 1 -> 0)"""
    c = coord[len(coord) - len(shape):] if shape else ()
    return tuple(0 if n == 1 else x for n, x in zip(shape, c))


def bshape(shapes):
    out = []
    for s in shapes:
        s = list(s)
        if len(s) > len(out):
            out = [1] * (len(s) - len(out)) + out
        s = [1] * (len(out) - len(s)) + s
        new = []
        for a, b in zip(out, s):
            if a == b or b == 1:
                new.append(a)
            elif a == 1:
                new.append(b)
            else:
                raise RefError('index arrays do not broadcast')
        out = new
    return out


# ------------------------------------------------------------------------------------------------ atoms
# An index entry expands into atoms.  Every atom consumes `c` source axes and is one of
#   ('fix', c=1, k, flag)            integer: coordinate k (already normalised; any value when flag) , produces no axis
#   ('axis', c=1, coords, flag)      slice / single bool: produces one axis whose j-th element reads coords[j]
#   ('new',)                         None: produces one axis of length 1, consumes nothing
#   ('ell',)                         Ellipsis
#   ('arr', c, shape, fn)            array entry: fn(array coordinate within `shape`) -> (tuple of c coordinates, flag)

def entry_atoms(e):
    """first stage: atoms with axis lengths still unknown (closures take the consumed axis lengths)"""
    k = e['k']
    if k == 'int':
        return [('fix', e['v'], bool(e.get('m', False)))]
    if k == 'slice':
        return [('slice', slice(e['a'], e['b'], e['c']))]
    if k == 'ell':
        return [('ell',)]
    if k == 'none':
        return [('new',)]
    if k == 'bool':
        return [('bool', bool(e['v']), bool(e.get('m', False)))]
    if k == 'iarr':
        shape = list(e['shape'])
        m = mask_bits(e.get('m') or 'F', shape)
        return [('iarr', shape, list(e['v']), m)]
    if k == 'barr':
        shape = list(e['shape'])
        m = mask_bits(e.get('m') or 'F', shape)
        return [('barr', shape, [bool(x) for x in e['v']], m)]
    if k == 'vec':
        shape, n = list(e['shape']), e['n']
        m = mask_bits(e.get('m') or 'F', shape)
        sz = prod(shape)
        res = []
        for j in range(n):
            comp = [e['v'][p * n + j] for p in range(sz)]
            mj = m if j == 0 else [False] * sz
            if shape:
                res.append(('iarr', shape, comp, mj))
            else:
                res.append(('fix', comp[0], mj[0]))
        return res
    if k == 'float':
        raise RefError('floating-point index')
    if k == 'bad':
        raise RefError('invalid index type')
    raise KeyError(k)


def ref_select(shape, entries):
    """-> (out_shape, [(src leading index tuple | None, flag)] in row-major order of out_shape)
    src is None only when flag is set and no source element exists (integer index into a zero-length axis)."""
    shape = list(shape)
    atoms = []
    for e in entries:
        atoms += entry_atoms(e)
    if sum(1 for a in atoms if a[0] == 'ell') > 1:
        raise RefError('two ellipses')
    def ncons(a):
        return 0 if a[0] in ('new', 'ell') else (len(a[1]) if a[0] == 'barr' else 1)
    consumed = sum(ncons(a) for a in atoms)
    if consumed > len(shape):
        raise RefError('too many indices')
    if not any(a[0] == 'ell' for a in atoms):
        atoms.append(('ell',))
    # walk over the atoms, assigning source axes
    groups = []          # per atom: ('plain', [coords lists per produced axis], axes consumed) | ('fix', axis, k, flag) | ('arr', axes, shape, fn)
    ax = 0
    for a in atoms:
        t = a[0]
        if t == 'ell':
            rest = len(shape) - consumed
            groups.append(('plain', [list(range(shape[ax + j])) for j in range(rest)], list(range(ax, ax + rest)), False))
            ax += rest
        elif t == 'new':
            groups.append(('plain', [[None]], [None], False))
        elif t == 'slice':
            n = shape[ax]
            groups.append(('plain', [list(range(*a[1].indices(n)))], [ax], False))
            ax += 1
        elif t == 'bool':
            n = shape[ax]
            if a[2]:
                coords, flag = list(range(min(n, 1))), True          # masked single boolean: unit axis, all masked
            elif a[1]:
                coords, flag = list(range(n)), False
            else:
                coords, flag = [], False
            groups.append(('plain', [coords], [ax], flag))
            ax += 1
        elif t == 'fix':
            n = shape[ax]
            k, flag = a[1], a[2]
            if not flag:
                if k < 0:
                    k += n
                if k < 0 or k >= n:
                    flag = True
            groups.append(('fix', ax, None if flag else k, flag))
            ax += 1
        elif t == 'iarr':
            n = shape[ax]
            ashape, vals, m = a[1], a[2], a[3]
            cells = {}
            for p, c in enumerate(unravel(ashape)):
                k, flag = vals[p], m[p]
                if not flag:
                    if k >= n or k < -n:
                        flag = True
                    else:
                        k = k % n
                cells[c] = ((None if flag else k,), flag)
            groups.append(('arr', [ax], ashape, cells))
            ax += 1
        elif t == 'barr':
            bsh, vals, m = a[1], a[2], a[3]
            for j, l in enumerate(bsh):
                if shape[ax + j] != l:
                    raise RefError('boolean index shape mismatch')
            cells = {}
            cnt = 0
            for p, c in enumerate(unravel(bsh)):
                if vals[p] or m[p]:
                    cells[(cnt,)] = (tuple(c), m[p])
                    cnt += 1
            groups.append(('arr', list(range(ax, ax + len(bsh))), [cnt], cells))
            ax += len(bsh)
    arrs = [g for g in groups if g[0] == 'arr']
    ashape = bshape([g[2] for g in arrs]) if arrs else []
    # output axes: plain groups in order, the array group where the first array entry stood
    out_axes = []        # ('plain', group index, j) | ('arr', j)
    placed = False
    if arrs:
        # DESIGN §8.2: polymath's relocation rule is stated for ARRAY entries.  When the array entries stand together
        # and only an INTEGER entry is separated from them by a slice/None/Ellipsis/bool, NumPy's order (array axes
        # first) is kept (the repository's own test suite pins this: a[0,...,mask]).
        ia = [i for i, g in enumerate(groups) if g[0] == 'arr']
        iv = [i for i, g in enumerate(groups) if g[0] in ('arr', 'fix')]
        arrays_sep = any(groups[i][0] == 'plain' for i in range(ia[0], ia[-1]))
        numpy_front = any(groups[i][0] == 'plain' for i in range(iv[0], iv[-1]))
        if numpy_front and not arrays_sep:
            out_axes += [('arr', j) for j in range(len(ashape))]
            placed = True
    for gi, g in enumerate(groups):
        if g[0] == 'plain':
            out_axes += [('plain', gi, j) for j in range(len(g[1]))]
        elif g[0] == 'arr' and not placed:
            out_axes += [('arr', j) for j in range(len(ashape))]
            placed = True
    out_shape = [len(groups[a[1]][1][a[2]]) if a[0] == 'plain' else ashape[a[1]] for a in out_axes]
    fixed_flag = any(g[3] for g in groups if g[0] in ('fix', 'plain'))
    res = []
    for oc in unravel(out_shape):
        src = [None] * len(shape)
        flag = fixed_flag
        acoord = tuple(oc[i] for i, a in enumerate(out_axes) if a[0] == 'arr')
        for i, a in enumerate(out_axes):
            if a[0] == 'plain':
                g = groups[a[1]]
                if g[2][a[2]] is not None:
                    src[g[2][a[2]]] = g[1][a[2]][oc[i]]
        for g in groups:
            if g[0] == 'fix':
                src[g[1]] = g[2]
            elif g[0] == 'arr':
                cs, fl = g[3][bproj(g[2], acoord)]
                flag = flag or fl
                for axn, c in zip(g[1], cs):
                    src[axn] = c
        res.append((None if flag else tuple(src), flag))
    return out_shape, res


def int_on_zero_axis(shape, entries):
    """does an integer entry (or a non-empty integer array) consume an axis of length zero?  (valid index only)"""
    atoms = []
    for e in entries:
        atoms += entry_atoms(e)
    cons = sum(0 if a[0] in ('new', 'ell') else (len(a[1]) if a[0] == 'barr' else 1) for a in atoms)
    ax = 0
    for a in atoms:
        if a[0] == 'ell':
            ax += len(shape) - cons
        elif a[0] == 'barr':
            ax += len(a[1])
        elif a[0] != 'new':
            if ax < len(shape) and shape[ax] == 0 and (a[0] == 'fix' or (a[0] == 'iarr' and prod(a[1]) > 0)):
                return True
            ax += 1
    return False


def entry_axes(shape, entries):
    """first source axis each ENTRY lands on (None for None/Ellipsis or when the index has too many entries)"""
    def cons(e):
        k = e['k']
        if k in ('none', 'ell'):
            return 0
        if k == 'barr':
            return len(e['shape'])
        if k == 'vec':
            return e['n']
        return 1
    total = sum(cons(e) for e in entries)
    ax, res, seen = 0, [], False
    for e in entries:
        if e['k'] == 'ell':
            res.append(None)
            if not seen:
                ax += max(0, len(shape) - total)
            seen = True
        elif e['k'] == 'none':
            res.append(None)
        else:
            res.append(ax if ax < len(shape) else None)
            ax += cons(e)
    return res


# ------------------------------------------------------------------------------------------------ building real objects
def mk_entry(e):
    k = e['k']
    form = e.get('form', 'py')
    if k == 'int':
        if form == 'py':
            return int(e['v'])
        if form == 'np':
            return np.int64(e['v'])
        if form == 'const':
            return Scalar.MASKED                       # the class constant (masked)
        return Scalar(int(e['v']), bool(e.get('m', False)))
    if k == 'slice':
        return slice(e['a'], e['b'], e['c'])
    if k == 'ell':
        return Ellipsis
    if k == 'none':
        return None
    if k == 'bool':
        if form == 'py':
            return bool(e['v'])
        if form == 'np':
            return np.bool_(e['v'])
        if form == 'const':
            return Boolean.MASKED                      # the class constant (masked)
        return Boolean(bool(e['v']), bool(e.get('m', False)))
    if k == 'iarr':
        v = np.array(e['v'], dtype='int64').reshape(e['shape'])
        if form == 'np':
            return v
        if form == 'list':
            return [int(x) for x in e['v']]
        return Scalar(v, mk_mask(e.get('m') or 'F', e['shape']))
    if k == 'barr':
        v = np.array(e['v'], dtype=bool).reshape(e['shape'])
        if form == 'np':
            return v
        return Boolean(v, mk_mask(e.get('m') or 'F', e['shape']))
    if k == 'vec':
        v = np.array(e['v'], dtype='int64').reshape(list(e['shape']) + [e['n']])
        cls = Pair if (form == 'Pair' and e['n'] == 2) else Vector
        return cls(v, mk_mask(e.get('m') or 'F', e['shape']))
    if k == 'float':
        return Scalar(1.5) if form == 'Scalar' else 1.5
    if k == 'bad':
        return 'x' if form == 'str' else {}
    raise KeyError(k)


def mk_entry_ro(e):
    """mk_entry, honouring 'ro' (read-only index object) """
    obj = mk_entry({k: v for k, v in e.items() if k != 'ro'})
    if e.get('ro') and isinstance(obj, Qube):
        obj = obj.as_readonly()
    return obj


def mk_index(case):
    ents = [mk_entry_ro(e) for e in case['index']]
    if case.get('bare') and len(ents) == 1:
        return ents[0]
    return tuple(ents)


def tagged(cls, shape, item, mask, base=0):
    """object whose value at leading position p, item offset j is base + p*isz + j"""
    isz = prod(item)
    n = prod(shape) * isz
    vals = (np.arange(n, dtype='int64') + base).reshape(list(shape) + list(item))
    if cls == 'Boolean':
        raise ValueError('Boolean cannot carry tags')
    if not shape and not item:
        vals = int(vals)
    return CLASSES[cls](vals, mk_mask(mask, shape))


DBASE = 100000


def mk_object(o):
    """o: {'cls','shape','item','mask','derivs': {key: {'denom':[..], 'mask': rep}}}"""
    q = tagged(o['cls'], o['shape'], o['item'], o['mask'])
    for j, (key, d) in enumerate(sorted((o.get('derivs') or {}).items())):
        item = list(o['item']) + list(d.get('denom', []))
        isz = prod(item)
        vals = (np.arange(prod(o['shape']) * isz, dtype='int64') + DBASE * (j + 1)).reshape(list(o['shape']) + item)
        vals = vals.astype('float64')
        dq = CLASSES[o['cls']](vals, mk_mask(d['mask'], o['shape']), drank=len(d.get('denom', [])))
        q.insert_deriv(key, dq)
    return q


def observe(q, base=0, isz=None):
    """canonical observation of a tagged object: [shape, [per leading element: 'm' | source leading position | 'x<...>']]
    The item of an unmasked element must be the untouched item of ONE source element: base + p*isz + (0..isz-1)."""
    shape = list(q._shape_)
    item = list(q._values_.shape[len(shape):]) if isinstance(q._values_, np.ndarray) else []
    isz = prod(item)
    m = expanded_mask(q).ravel()
    v = np.asarray(q._values_).reshape(prod(shape), isz) if prod(shape) else np.zeros((0, isz))
    res = []
    for p in range(prod(shape)):
        if m[p]:
            res.append('m')
            continue
        row = [int(x) - base for x in v[p]]
        pos = row[0] // isz if isz else 0
        if row == [pos * isz + j for j in range(isz)]:
            res.append(pos)
        else:
            res.append('x' + '_'.join(str(x) for x in row))
    return [shape, res]


def observe_all(q, keys=None):
    """object plus derivatives (sorted by key)"""
    out = [observe(q)]
    for j, key in enumerate(sorted(q._derivs_)):
        out.append(observe(q._derivs_[key], base=DBASE * (j + 1)))
    return out
