"""C14 — equality, ordering and three-valued logic follow their truth tables under masks."""
import itertools
import numpy as np
from absn import *
import common as C

PROP = 'C14'
LEAN_MODULES = ['PMV.Props.C14', 'PMV.Props.C14Gen', 'PMV.Gen.TvlRed', 'PMV.Lemmas.RedFold', 'PMV.Model.CmpMeta']
PARALLEL = True
MANIFEST = {
    'text': 'Kernel-checked theorems (PMV/Props/C14.lean) that the code-shaped element functions and lane reductions of the '
            'Lean model equal the documented truth tables (Kleene and/or/any/all for every lane length and every mask '
            'representation branch, strict &,|,^,~, ==/!= table with complement/symmetry/reflexivity, ordered comparisons, '
            'tvl_ comparisons, truth testing), tied to /repo on every run by a correspondence check that sends the same '
            'operands to the real polymath code and to the compiled model and diffs canonical outputs (exhaustive over '
            '{T,F,masked} arrays; all representations; all axes).',
    'design': 'DESIGN.md §3 C14',
    'technique': 'Lean 4 proof (truth tables by case analysis, lanes by induction; element functions, lane reductions and the comparison operators regenerated from the source by a translator and re-proved by decide / fold induction) + model/code correspondence',
    'note': 'Trusted: Lean kernel; hand-written model Model/Logic3.lean (checked against the code by the correspondence run); '
            'NumPy axis handling.',
}
RULE = ('exhaustive arrays over {True, False, masked} (quick: 1-D to length 4, 2-D to 2x2; thorough: 1-D to length 7, '
        '2-D to 2x3) x every mask representation x every axis argument for the reductions; generated operand pairs '
        'for element operators and comparisons; a case is non-trivial when at least one element is masked or the '
        'operands broadcast; distinct = distinct request line')
ASSUMPTIONS = ['axis arguments are normalised by NumPy (np.any/np.all), the model receives normalised axes',
               'any()/all() over an EMPTY lane are judged under C13 (KF-C13-1), not here']

T, F, M = 't', 'f', 'm'


def regen():
    """T2: regenerate PMV/Gen/Tvl.lean from the current source of tvl.py / qube.py"""
    import os, c14_py2lean
    return c14_py2lean.regen(os.environ.get('PMV_REPO') or '/repo', C.LEAN)


# ------------------------------------------------------------------ reference tables (independent of the model)
def kand(a, b):
    if a == F or b == F: return F
    if a == T and b == T: return T
    return M
def kor(a, b):
    if a == T or b == T: return T
    if a == F and b == F: return F
    return M
def strict(op, a, b):
    if a == M or b == M: return M
    return T if op(a == T, b == T) else F
def kany(xs):
    if T in xs: return T
    if all(x == F for x in xs): return F
    return M
def kall(xs):
    if F in xs: return F
    if all(x == T for x in xs): return T
    return M
def ign_any(xs):
    if all(x == M for x in xs): return M
    return T if T in xs else F
def ign_all(xs):
    if all(x == M for x in xs): return M
    return F if F in xs else T


# ------------------------------------------------------------------ building / observing
def bopd(o):
    return Boolean(np.array(o['vals'], dtype=bool).reshape(o['shape']), mk_mask(o['mask'], o['shape']))

def padded(o, n):
    """a Polynomial operand (coefficients in decreasing order) zero-padded at the front to n coefficients"""
    k = o['item'][0]
    if k == n:
        return o
    v = o['vals']
    rows = [[0] * (n - k) + list(v[i * k:(i + 1) * k]) for i in range(len(v) // k)]
    return dict(o, item=[n], vals=[x for r in rows for x in r])

def poly_pair(a, b):
    """Polynomials of different order are compared after zero-padding the lower-order one"""
    if a is not None and b is not None and a.get('cls') == 'Polynomial' and b.get('cls') == 'Polynomial':
        n = max(a['item'][0], b['item'][0])
        return padded(a, n), padded(b, n)
    return a, b

def nopd(o, src=None):
    """numeric operand with item shape (`item` = numerator axes followed by `drank` denominator axes).
    With o['share'] and a source object `src` of the same shape/mask, the operand is DERIVED from it:
      'ctor'  -> built with src's own mask object (cls(values, mask=src.mask): one mask array, two objects)
      'arith' -> result of src + delta (arithmetic results reuse the operand's mask array)
    so that representation-identity shortcuts in the comparisons see realistic provenance."""
    cls = polymath.Polynomial if o['cls'] == 'Polynomial' else CLASSES[o['cls']]
    vals = np.array(o['vals'], dtype=o.get('dtype', 'int64')).reshape(list(o['shape']) + list(o['item']))
    kw = {'drank': o['drank']} if o.get('drank') else {}
    share = o.get('share')
    if share and src is not None:
        if share == 'ctor':
            return cls(vals, src._mask_, **kw)
        if share == 'arith':
            return src + cls(vals - src._values_, **kw)
    return cls(vals, mk_mask(o['mask'], o['shape']), **kw)

def t3_of(vals, mask):
    return [M if m else (T if v else F) for v, m in zip(vals, mask)]

def opd_t3(o):
    return t3_of(o['vals'], mask_bits(o['mask'], o['shape']))

def obs(r):
    """canonical observation of a Boolean / Python bool result: (shape, [t3...])"""
    if isinstance(r, (bool, np.bool_)):
        return [[], [T if r else F]]
    assert isinstance(r, Boolean), type(r)
    m = expanded_mask(r).ravel()
    v = np.broadcast_to(np.asarray(r._values_), r._shape_).ravel()
    return [list(r._shape_), t3_of(v, m)]

def b_sx(o):
    return [o['shape'], [bool(v) for v in o['vals']], mask_sx(o['mask'], o['shape'])]

def n_sx(o, item=False):
    r = [o['shape'], int(np.prod(o['item'], dtype=int)), [int(v) for v in o['vals']], mask_sx(o['mask'], o['shape'])]
    return r + [list(o['item'])] if item else r

STRICT = {'and': lambda a, b: a & b, 'or': lambda a, b: a | b, 'xor': lambda a, b: a ^ b}
PYOP = {'and': lambda a, b: a and b, 'or': lambda a, b: a or b, 'xor': lambda a, b: a != b}
ORD = {'lt': lambda a, b: a < b, 'le': lambda a, b: a <= b, 'gt': lambda a, b: a > b, 'ge': lambda a, b: a >= b}


def norm_axes(axis, rank):
    if rank == 0:
        return []            # shapeless: the code ignores the axis argument ("make a copy")
    if axis is None:
        return list(range(rank))
    if isinstance(axis, int):
        axis = [axis]
    return sorted(a % rank for a in axis)


def apply_op(case, a, b):
    """apply one operation of the C14 catalogue to already-built real objects"""
    op = case['op']
    if op in ('tvl_and', 'tvl_or'):
        return getattr(a, op)(b, builtins=case.get('builtins', False))
    if op == 'strict':
        return STRICT[case['sym']](a, b)
    if op == 'istrict':
        # in-place form: the LEFT operand object itself is updated and returned
        if case['sym'] == 'and': a &= b
        elif case['sym'] == 'or': a |= b
        else: a ^= b
        return a
    if op == 'not':
        return ~a if case.get('form') == 'invert' else a.logical_not()
    if op == 'red':
        ax = case['axis']
        ax = tuple(ax) if isinstance(ax, list) else ax
        return getattr(a, case['red'])(axis=ax, builtins=case.get('builtins', False))
    if op in ('eq', 'ne'):
        return (a == b) if op == 'eq' else (a != b)
    if op == 'ord':
        return ORD[case['sym']](a, b)
    if op == 'tvl_ord':
        return getattr(a, 'tvl_' + case['sym'])(b, builtins=case.get('builtins', False))
    if op in ('tvl_eq', 'tvl_ne'):
        return getattr(a, op)(b, builtins=case.get('builtins', False))
    if op == 'bool':
        src = case['src']
        if src == 'plain':
            via = case.get('via')
            if via == 'invert': a = ~(~a)
            elif via == 'tvl_and': a = a.tvl_and(a)
            return bool(a)
        if src == 'eq': return bool(a == b)
        if src == 'ne': return bool(a != b)
        return bool(ORD[src](a, b))
    raise KeyError(op)


BOOL_OPS = ('tvl_and', 'tvl_or', 'strict', 'istrict', 'not', 'red')


def build(case, which, src=None):
    o = case.get(which)
    if o is None:
        return None
    if case['op'] in BOOL_OPS or (case['op'] == 'bool' and case['src'] == 'plain'):
        return bopd(o)
    return nopd(o, src)


def call(case):
    """run the real code; returns the raw result"""
    a = build(case, 'a')
    b = build(case, 'b', a)          # b may be derived from a (o['share'])
    if case.get('swap'):
        a, b = b, a
    return apply_op(case, a, b)


def one_obs(case, thunk):
    try:
        r = thunk()
    except Exception as e:
        return C.exc_name(e)
    if case['op'] == 'bool':
        return bool(r)
    if case['op'] in ('tvl_eq', 'tvl_ne') and isinstance(r, (bool, np.bool_)) and case.get('incompatible'):
        return 'incompatible'
    return obs(r)


def seq_steps(case):
    """the steps of a history as stand-alone cases (operands substituted)"""
    res = []
    cur = list(case['opds'])            # abstract state of the operand objects (in-place steps update it)
    for st in case['steps']:
        c = dict(st)
        c['a'] = cur[st['a']]
        if st.get('b') is not None:
            c['b'] = cur[st['b']]
        if c['op'] in ('eq', 'ne', 'tvl_eq', 'tvl_ne'):
            c['incompatible'] = np_bcast(c['a']['shape'], c['b']['shape']) is None
        res.append(c)
        if c['op'] == 'istrict':
            exp = expect(c)
            if isinstance(exp, list):       # the left operand now holds the strict result
                t3s = exp[1]
                cur[st['a']] = {'shape': list(exp[0]), 'vals': [x == T for x in t3s],
                                'mask': [x == M for x in t3s] if exp[0] else ('T' if t3s[0] == M else 'F')}
    return res


def impl(case):
    if case['op'] == 'seq':
        # a history: the SAME operand objects are reused by every step (operands must stay usable: a
        # comparison or logical operator may not disturb what later operations see)
        objs = []
        for o in case['opds']:
            objs.append(bopd(o) if case['flavour'] == 'boolean' else nopd(o, objs[0] if objs else None))
        out = []
        for st, c in zip(case['steps'], seq_steps(case)):
            a = objs[st['a']]
            b = objs[st['b']] if st.get('b') is not None else None
            out.append(one_obs(c, lambda: apply_op(c, a, b)))
        return out
    return one_obs(case, lambda: call(case))


# ------------------------------------------------------------------ direct oracle
def bc(xs, shape, out):
    a = np.array(xs, dtype=object).reshape(shape)
    return list(np.broadcast_to(a, out).ravel())

def item_rows(o):
    n = int(np.prod(o['item'], dtype=int))
    v = o['vals']
    return [tuple(v[i * n:(i + 1) * n]) for i in range(int(np.prod(o['shape'], dtype=int)))]

def expect(case):
    """table-driven reference: canonical expected observation, or None where the property says nothing"""
    op = case['op']
    if op in ('tvl_and', 'tvl_or', 'strict', 'istrict'):
        a, b = case['a'], case['b']
        out = np_bcast(a['shape'], b['shape'])
        if out is None:
            return 'ValueError'
        xa, xb = bc(opd_t3(a), a['shape'], out), bc(opd_t3(b), b['shape'], out)
        f = kand if op == 'tvl_and' else kor if op == 'tvl_or' else (lambda x, y: strict(PYOP[case['sym']], x, y))
        if op == 'istrict' and out != list(a['shape']):
            return None          # does not fit into the left operand: not generated
        return [out, [f(x, y) for x, y in zip(xa, xb)]]
    if op == 'not':
        return [case['a']['shape'], [M if x == M else (F if x == T else T) for x in opd_t3(case['a'])]]
    if op == 'red':
        a = case['a']
        shape = a['shape']
        t3 = np.array(opd_t3(a), dtype=object).reshape(shape)
        if not shape:
            return [[], list(t3.ravel())]
        axes = norm_axes(case['axis'], len(shape))
        keep = [k for k in range(len(shape)) if k not in axes]
        out = [shape[k] for k in keep]
        lane = int(np.prod([shape[k] for k in axes], dtype=int))
        if lane == 0 and case['red'] in ('any', 'all'):
            return None          # any()/all() over an empty lane: decided under C13 (reductions), not here
        moved = np.transpose(t3, keep + axes).reshape(int(np.prod(out, dtype=int)), lane)
        f = {'tvl_any': kany, 'tvl_all': kall, 'any': ign_any, 'all': ign_all}[case['red']]
        return [out, [f(list(row)) for row in moved]]
    if op in ('eq', 'ne', 'tvl_eq', 'tvl_ne', 'ord', 'tvl_ord', 'bool'):
        if op == 'bool' and case['src'] == 'plain':
            a = case['a']
            t3 = opd_t3(a)
            if a['shape'] or t3[0] == M:      # any shape other than (), even (1,) or (1,1): any()/all() is required
                return 'ValueError'
            return t3[0] == T
        a, b = poly_pair(case['a'], case['b'])
        out = np_bcast(a['shape'], b['shape'])
        kind = case['src'] if op == 'bool' else op
        if out is None or a['item'] != b['item']:
            if kind in ('tvl_eq', 'tvl_ne'): return None      # not specified by the property
            if kind == 'eq': return [[], [F]] if op != 'bool' else False      # unequal, as a whole, never an error
            if kind == 'ne': return [[], [T]] if op != 'bool' else True
            return 'ValueError'
        ra, rb = bc(item_rows(a) + [None], [len(item_rows(a)) + 1], [len(item_rows(a)) + 1])[:-1], None
        ia = np.empty(len(item_rows(a)), dtype=object); ia[:] = item_rows(a)
        ib = np.empty(len(item_rows(b)), dtype=object); ib[:] = item_rows(b)
        xa = list(np.broadcast_to(ia.reshape(a['shape']), out).ravel())
        xb = list(np.broadcast_to(ib.reshape(b['shape']), out).ravel())
        ma = bc(mask_bits(a['mask'], a['shape']), a['shape'], out)
        mb = bc(mask_bits(b['mask'], b['shape']), b['shape'], out)
        res = []
        for va, vb, p, q in zip(xa, xb, ma, mb):
            if kind in ('eq', 'ne'):
                e = True if (p and q) else False if (p or q) else (va == vb)
                res.append(T if (e if kind == 'eq' else not e) else F)
            elif kind in ('tvl_eq', 'tvl_ne'):
                res.append(M if (p or q) else (T if ((va == vb) == (kind == 'tvl_eq')) else F))
            elif op == 'tvl_ord':
                res.append(M if (p or q) else (T if ORD[case['sym']](va[0], vb[0]) else F))
            else:
                sym = case['sym'] if op == 'ord' else kind
                res.append(F if (p or q) else (T if ORD[sym](va[0], vb[0]) else F))
        if op == 'bool':
            # truth value = all() of == and ordered comparisons, any() of !=
            return any(x == T for x in res) if kind == 'ne' else all(x == T for x in res)
        return [out, res]
    return None


def signature(case):
    if case['op'] == 'red' and case['red'] in ('tvl_any', 'tvl_all') and case['a']['mask'] == 'T' \
            and case['a']['shape'] and 0 in [case['a']['shape'][k] for k in norm_axes(case['axis'], len(case['a']['shape']))]:
        return 'tvl-reduce:empty-lane:scalar-true-mask'
    return case['op'] + ':' + str(case.get('sym', case.get('red', case.get('src', ''))))


def oracle(case):
    if case['op'] == 'seq':
        got = impl(case)
        for k, (c, g) in enumerate(zip(seq_steps(case), got)):
            exp = expect(c)
            if exp is not None and C.sx(g) != C.sx(exp):
                return ('history:' + signature(c), 'step %d (%s) of a history on shared operands: implementation returned '
                        '%s, truth table says %s' % (k, c['op'], C.sx(g), C.sx(exp)))
        return None
    exp = expect(case)
    if exp is None:
        if case['op'] in ('tvl_eq', 'tvl_ne'):
            # which single answer operands that cannot be compared element by element get is not specified, but the
            # tvl_ comparisons "return True, False or masked ... for every combination": an exception is none of these
            got = impl(case)
            if isinstance(got, str):
                return (case['op'] + ':raised', '%s of operands of one class raised %s; a tvl_ comparison returns True, '
                        'False or masked' % (case['op'], got))
        return None
    got = impl(case)
    if C.sx(got) != C.sx(exp):
        return (signature(case), '%s: implementation returned %s, truth table says %s' % (case['op'], C.sx(got), C.sx(exp)))
    return None


# ------------------------------------------------------------------ requests for the model
def request(case):
    op = case['op']
    if op == 'seq':
        subs = [request(c) for c in seq_steps(case)]
        if any(r is None for r in subs):
            return None
        return ['c14', 'seq'] + [r[1:] for r in subs]
    if op in ('tvl_and', 'tvl_or'):
        return ['c14', op, b_sx(case['a']), b_sx(case['b'])]
    if op in ('strict', 'istrict'):       # the in-place form must produce what the direct form produces
        return ['c14', 'strict', case['sym'], b_sx(case['a']), b_sx(case['b'])]
    if op == 'not':
        return ['c14', 'not', b_sx(case['a'])]
    if op == 'red':
        return ['c14', 'red', case['red'], b_sx(case['a']), norm_axes(case['axis'], len(case['a']['shape']))]
    if op in ('eq', 'ne'):
        a, b = (case['b'], case['a']) if case.get('swap') else (case['a'], case['b'])
        a, b = poly_pair(a, b)
        return ['c14', op, n_sx(a, True), n_sx(b, True)]
    if op in ('tvl_eq', 'tvl_ne'):
        # also for operands that cannot be compared element by element: the property does not say what the single answer
        # is (the oracle abstains), but the model follows the code (`_tvl_op`: unknown iff an operand is entirely masked),
        # so a change of that branch breaks the correspondence
        return ['c14', op, n_sx(case['a'], True), n_sx(case['b'], True)]
    if op in ('ord', 'tvl_ord'):
        return ['c14', op, case['sym'], n_sx(case['a']), n_sx(case['b'])]
    if op == 'bool':
        if case['src'] == 'plain':
            # (~~a and a.tvl_and(a) are observably a, so the same model request serves the `via` variants)
            return ['c14', 'bool', False, False, b_sx(case['a'])]
        return None      # truth value of a comparison: judged by the oracle (all()/any() of the comparison)
    return None


# ------------------------------------------------------------------ generation
def bool_operands(t3s, shape, rng, views=True):
    """every representation of a T3 array; hidden values random"""
    bits = [x == M for x in t3s]
    for rep in mask_reps(bits, shape, views=views):
        vals = [(x == T) if x != M else rng.random() < 0.5 for x in t3s]
        yield {'shape': list(shape), 'vals': vals, 'mask': rep}

def axis_args(rank):
    yield None
    for a in range(-rank, rank):
        yield a
    for r in range(2, rank + 1):
        for t in itertools.combinations(range(rank), r):
            yield list(t)
    if rank >= 2:
        yield [-1, 0]

def rand_t3(rng, n, pm=0.35):
    return [M if rng.random() < pm else (T if rng.random() < 0.5 else F) for _ in range(n)]

def rand_bopd(rng, shape):
    n = int(np.prod(shape, dtype=int))
    mode = rng.random()
    t3s = rand_t3(rng, n, 0.0 if mode < 0.2 else 1.0 if mode < 0.3 else 0.4)
    return rng.choice(list(bool_operands(t3s, shape, rng)))

SHAPE_PAIRS = [([], []), ([], [3]), ([3], []), ([3], [3]), ([1], [3]), ([2, 1], [3]), ([2, 3], [3]), ([2, 3], [2, 1]),
               ([0], []), ([0], [1]), ([2, 0], [1]), ([2], [3]), ([2, 3], [3, 2]), ([1, 1], [2, 2]), ([2, 2, 2], [2, 1, 2])]

def derived(rng, oa, mode):
    """an operand with oa's shape, class and mask whose object is DERIVED from oa's (see nopd); fresh values,
    in particular different values under the common mask"""
    return dict(oa, vals=[rng.randint(-1, 1) for _ in oa['vals']], share=mode)

DENOMS = [('Scalar', (), (3,)), ('Scalar', (), (1,)), ('Vector', (2,), (2,)), ('Vector', (3,), (2,)), ('Pair', (2,), (3,)),
          ('Matrix', (2, 2), (2,))]

def rand_nopd(rng, shape, cls='Scalar', item=(), drank=0):
    o = rand_nopd0(rng, shape, cls, item)
    if drank:
        o['drank'] = drank
    return o

def rand_nopd0(rng, shape, cls='Scalar', item=()):
    n = int(np.prod(shape, dtype=int))
    isz = int(np.prod(item, dtype=int))
    bits = [rng.random() < 0.35 for _ in range(n)]
    mode = rng.random()
    if mode < 0.2: bits = [False] * n
    elif mode < 0.3: bits = [True] * n
    rep = rng.choice(mask_reps(bits, shape))
    return {'cls': cls, 'shape': list(shape), 'item': list(item), 'vals': [rng.randint(-1, 1) for _ in range(n * isz)],
            'mask': rep}

def mk(case):
    case['req'] = request(case)
    a = case.get('a'); b = case.get('b')
    nt = False
    if case['op'] == 'seq':
        case['nontrivial'] = True
        case['kind'] = 'history:' + case['flavour']
        return case
    for o in (a, b):
        if o is not None and any(mask_bits(o['mask'], o['shape'])):
            nt = True
    if a is not None and b is not None and a['shape'] != b['shape']:
        nt = True
    case['nontrivial'] = nt
    case['kind'] = case['op'] + ':' + str(case.get('sym', case.get('red', case.get('src', ''))))
    return case

def gen_cases(rng, tier):
    thorough = tier == 'thorough'
    cases = []
    # 1. reductions, exhaustively over {T,F,M}^n
    max1 = 7 if thorough else 4
    shapes = [[n] for n in range(0, max1 + 1)]
    shapes += [[a, b] for a in range(0, 3) for b in range(0, 4 if thorough else 3)]
    shapes += [[2, 1, 2]]
    for shape in shapes:
        n = int(np.prod(shape, dtype=int))
        all_t3 = itertools.product([T, F, M], repeat=n)
        if not thorough and n > 4:
            all_t3 = [rand_t3(rng, n) for _ in range(30)]
        for t3s in all_t3:
            for o in bool_operands(list(t3s), shape, rng):
                for ax in axis_args(len(shape)):
                    for red in ('tvl_any', 'tvl_all', 'any', 'all'):
                        if n > 4 and rng.random() < (0.0 if thorough and n <= 6 and len(shape) == 2 else 0.75) and len(shape) > 1:
                            continue
                        cases.append(mk({'op': 'red', 'red': red, 'a': o, 'axis': ax}))
    # shapeless operands
    for x in (T, F, M):
        for o in bool_operands([x], [], rng):
            for red in ('tvl_any', 'tvl_all', 'any', 'all'):
                cases.append(mk({'op': 'red', 'red': red, 'a': o, 'axis': None}))
            cases.append(mk({'op': 'bool', 'src': 'plain', 'a': o}))
            cases.append(mk({'op': 'not', 'form': 'invert', 'a': o}))
    # truth testing of objects that are NOT comparison results: allowed for shape () only — also not for shapes
    # made of length-1 axes, zero-size objects, or results of ~ & | tvl_and on them
    for shape in ([1], [1, 1], [2], [0], [1, 0], [1, 1, 1]):
        n = int(np.prod(shape, dtype=int))
        for t3s in itertools.product([T, F, M], repeat=min(n, 2)):
            t3s = list(t3s)[:n] if n else []
            for o in bool_operands(t3s, shape, rng):
                cases.append(mk({'op': 'bool', 'src': 'plain', 'a': o}))
                cases.append(mk({'op': 'bool', 'src': 'plain', 'a': o, 'via': 'invert'}))
                cases.append(mk({'op': 'bool', 'src': 'plain', 'a': o, 'via': 'tvl_and'}))
    # 2. element operators: exhaustive on pairs of single elements with every representation, then broadcast pairs
    for x in (T, F, M):
        for y in (T, F, M):
            for sa in ([], [1], [2]):
                for sb in ([], [1], [2]):
                    na, nb = int(np.prod(sa, dtype=int)), int(np.prod(sb, dtype=int))
                    for oa in bool_operands([x] * na, sa, rng):
                        for ob in bool_operands([y] * nb, sb, rng):
                            for op in ('tvl_and', 'tvl_or'):
                                cases.append(mk({'op': op, 'a': oa, 'b': ob}))
                            for sym in STRICT:
                                cases.append(mk({'op': 'strict', 'sym': sym, 'a': oa, 'b': ob}))
    reps = 40 if thorough else 6
    for _ in range(reps):
        for sa, sb in SHAPE_PAIRS:
            oa, ob = rand_bopd(rng, sa), rand_bopd(rng, sb)
            for op in ('tvl_and', 'tvl_or'):
                cases.append(mk({'op': op, 'a': oa, 'b': ob}))
            cases.append(mk({'op': 'strict', 'sym': rng.choice(list(STRICT)), 'a': oa, 'b': ob}))
            cases.append(mk({'op': 'not', 'form': rng.choice(['invert', 'logical_not']), 'a': oa}))
    # 3. comparisons
    for _ in range(reps):
        for sa, sb in SHAPE_PAIRS:
            for cls, item in (('Scalar', ()), ('Vector', (2,)), ('Matrix', (2, 2)), ('Pair', (2,))):
                oa, ob = rand_nopd(rng, sa, cls, item), rand_nopd(rng, sb, cls, item)
                if rng.random() < 0.3 and np_bcast(sa, sb) == sa:
                    ob = dict(oa, mask=ob['mask']) if sa == sb else ob      # equal values, different masks
                for op in ('eq', 'ne', 'tvl_eq', 'tvl_ne'):
                    cases.append(mk({'op': op, 'a': oa, 'b': ob, 'incompatible': np_bcast(sa, sb) is None}))
                cases.append(mk({'op': 'bool', 'src': rng.choice(['eq', 'ne']), 'a': oa, 'b': ob}))
                if cls == 'Scalar':
                    for sym in ORD:
                        cases.append(mk({'op': 'ord', 'sym': sym, 'a': oa, 'b': ob}))
                        cases.append(mk({'op': 'tvl_ord', 'sym': sym, 'a': oa, 'b': ob}))
                    cases.append(mk({'op': 'bool', 'src': rng.choice(list(ORD)), 'a': oa, 'b': ob}))
            # incompatible item shapes are unequal, not an error
            oa, ob = rand_nopd(rng, sa, 'Vector', (2,)), rand_nopd(rng, sb, 'Vector', (3,))
            if sa == sb and sa and rng.random() < 0.5:
                # complementary array masks: no element is valid on both sides, yet neither operand is entirely masked
                n = int(np.prod(sa, dtype=int))
                bits = [rng.random() < 0.5 for _ in range(n)]
                oa['mask'], ob['mask'] = bits, [not x for x in bits]
            cases.append(mk({'op': 'eq', 'a': oa, 'b': ob, 'incompatible': True}))
            cases.append(mk({'op': 'ne', 'a': oa, 'b': ob, 'incompatible': True}))
            cases.append(mk({'op': 'tvl_eq', 'a': oa, 'b': ob, 'incompatible': True}))
            cases.append(mk({'op': 'tvl_ne', 'a': oa, 'b': ob, 'incompatible': True}))
            # ... an item is numerator AND denominator axes (the form every derivative takes): with / without a
            # denominator, denominators of different sizes (unequal), equal denominators (whole items compared)
            cls, numer, den = rng.choice(DENOMS)
            den2 = (den[0] + 1,)
            for ia, da, ib, db in ((numer, 0, numer + den, 1), (numer + den, 1, numer, 0), (numer + den, 1, numer + den2, 1),
                                   (numer + den, 1, numer + den, 1)):
                oa, ob = rand_nopd(rng, sa, cls, ia, da), rand_nopd(rng, sb, cls, ib, db)
                for op in ('eq', 'ne'):
                    cases.append(mk({'op': op, 'a': oa, 'b': ob, 'incompatible': True}))
                cases.append(mk({'op': 'bool', 'src': rng.choice(['eq', 'ne']), 'a': oa, 'b': ob}))
        # Polynomials of different order: `==` pads the lower-order operand with zero coefficients, masks as for every class
        for sa, sb in SHAPE_PAIRS:
            na, nb = rng.choice([(1, 3), (3, 1), (2, 3), (3, 2), (2, 2), (1, 2), (4, 2)])
            oa, ob = rand_nopd(rng, sa, 'Polynomial', (na,)), rand_nopd(rng, sb, 'Polynomial', (nb,))
            if rng.random() < 0.5 and na != nb and np_bcast(sa, sb) is not None:
                # equal after padding: the lower-order operand's coefficients are the other's tail, leading ones zero
                hi, lo = (oa, ob) if na > nb else (ob, oa)
                k, n = lo['item'][0], hi['item'][0]
                nlo = int(np.prod(lo['shape'], dtype=int))
                tail = [rng.randint(-1, 1) for _ in range(k)]
                lo['vals'] = tail * nlo
                hi['vals'] = ([0] * (n - k) + tail) * int(np.prod(hi['shape'], dtype=int))
            for op in ('eq', 'ne'):
                cases.append(mk({'op': op, 'a': oa, 'b': ob, 'incompatible': np_bcast(sa, sb) is None}))
            cases.append(mk({'op': 'bool', 'src': rng.choice(['eq', 'ne']), 'a': oa, 'b': ob}))
        # operands DERIVED from one another (shared mask object, different values underneath)
        for sa in ([3], [2, 2], [1, 3], [4], [2, 1, 2], []):
            for cls, item in (('Scalar', ()), ('Vector', (2,)), ('Matrix', (2, 2))):
                oa = rand_nopd(rng, sa, cls, item)
                ob = derived(rng, oa, rng.choice(['ctor', 'arith']))
                for swap in (False, True):
                    for op in ('eq', 'ne', 'tvl_eq', 'tvl_ne'):
                        cases.append(mk({'op': op, 'a': oa, 'b': ob, 'swap': swap and op in ('eq', 'ne')}))
                    cases.append(mk({'op': 'bool', 'src': rng.choice(['eq', 'ne']), 'a': oa, 'b': ob}))
                if cls == 'Scalar':
                    for sym in ORD:
                        cases.append(mk({'op': 'ord', 'sym': sym, 'a': oa, 'b': ob}))
                        cases.append(mk({'op': 'tvl_ord', 'sym': sym, 'a': oa, 'b': ob}))
    # 4. histories: several operations on the same operand objects
    for _ in range(3000 if thorough else 600):
        flavour = rng.choice(['boolean', 'numeric'])
        shp = rng.choice([[3], [2, 2], [2, 3], [1, 3], [4]])
        shapes = [shp, shp, rng.choice([shp, [], shp[-1:]])]
        if flavour == 'boolean':
            opds = [rand_bopd(rng, sh) for sh in shapes]
        else:
            opds = [rand_nopd(rng, sh) for sh in shapes]
            if rng.random() < 0.5:
                opds[1] = derived(rng, opds[0], rng.choice(['ctor', 'arith']))      # provenance: derived from opds[0]
        steps = []
        for _k in range(rng.randint(4, 8)):
            a, b = rng.randrange(3), rng.randrange(3)
            if flavour == 'boolean' and rng.random() < 0.25 and _k > 0:
                # in-place &=, |=, ^= on an operand that earlier steps have already queried (warm caches); the right
                # operand must fit into the left one
                a = rng.randrange(2)
                b = rng.choice([x for x in range(3) if np_bcast(shapes[a], shapes[x]) == list(shapes[a])])
                steps.append({'op': 'istrict', 'sym': rng.choice(list(STRICT)), 'a': a, 'b': b})
                continue
            if flavour == 'boolean':
                st = rng.choice([{'op': 'tvl_and'}, {'op': 'tvl_or'}, {'op': 'strict', 'sym': rng.choice(list(STRICT))},
                                 {'op': 'not', 'form': 'invert'},
                                 {'op': 'red', 'red': rng.choice(['tvl_any', 'tvl_all', 'any', 'all']),
                                  'axis': rng.choice([None, 0, -1])}])
            else:
                st = rng.choice([{'op': 'eq'}, {'op': 'ne'}, {'op': 'tvl_eq'}, {'op': 'tvl_ne'},
                                 {'op': 'ord', 'sym': rng.choice(list(ORD))}, {'op': 'tvl_ord', 'sym': rng.choice(list(ORD))}])
            st = dict(st, a=a, b=(None if st['op'] in ('not', 'red') else b))
            steps.append(st)
        cases.append(mk({'op': 'seq', 'flavour': flavour, 'opds': opds, 'steps': steps}))
    return cases


def neighbours(case):
    return []
