"""Fill the 'As built' blocks of DESIGN.md §3 from the per-property reports DESIGN.d/Cnn.md.
Markers in DESIGN.md:  <!-- AS-BUILT Cnn -->  …  <!-- /AS-BUILT Cnn -->  (created after each '### Cnn —' subsection
if missing)."""
import os, re
VERIF = os.path.dirname(os.path.dirname(os.path.abspath(__file__)))

def demote(md):
    out = []
    for line in md.splitlines():
        if line.startswith('#'):
            n = len(line) - len(line.lstrip('#'))
            line = '#' * min(6, n + 3) + line[n:]
        out.append(line)
    return '\n'.join(out)

def main():
    p = os.path.join(VERIF, 'DESIGN.md')
    s = open(p).read()
    heads = list(re.finditer(r'^### (C\d\d) — .*$', s, re.M))
    # process from the end so offsets stay valid
    for i in range(len(heads) - 1, -1, -1):
        pid = heads[i].group(1)
        start = heads[i].end()
        end = heads[i + 1].start() if i + 1 < len(heads) else s.index('\n---', start)
        body = s[start:end]
        rep = os.path.join(VERIF, 'DESIGN.d', pid + '.md')
        if not os.path.exists(rep):
            continue
        block = ('<!-- AS-BUILT %s -->\n\n#### %s — as built (report of the check as it stands; supersedes the plan above '
                 'where they differ)\n\n%s\n\n<!-- /AS-BUILT %s -->\n' % (pid, pid, demote(open(rep).read().strip()), pid))
        m = re.search(r'<!-- AS-BUILT %s -->.*?<!-- /AS-BUILT %s -->\n' % (pid, pid), body, re.S)
        if m:
            body = body[:m.start()] + block + body[m.end():]
        else:
            body = body.rstrip('\n') + '\n\n' + block + '\n'
        s = s[:start] + body + s[end:]
    open(p, 'w').write(s)

if __name__ == '__main__':
    main()
