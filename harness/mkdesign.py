"""Fill the 'As built' blocks of DESIGN.md §3 from the per-property reports DESIGN.d/Cnn.md.
Markers in DESIGN.md:  <!-- AS-BUILT Cnn -->  …  <!-- /AS-BUILT Cnn -->  (created after each '### Cnn —' subsection
if missing)."""
import os, re
VERIF = os.path.dirname(os.path.dirname(os.path.abspath(__file__)))

def demote(md):
    out = []
    for line in md.splitlines():
        if line.startswith('#'):
            n = len(line) - len(line.lstrip('#'))
            line = '#' * min(6, n + 3) + line[n:]
        out.append(line)
    return '\n'.join(out)

def fill(s, tag, body):
    a, b = '<!-- GEN:%s -->' % tag, '<!-- /GEN:%s -->' % tag
    if a not in s:
        return s
    i, j = s.index(a) + len(a), s.index(b)
    return s[:i] + '\n' + body.rstrip('\n') + '\n' + s[j:]


def gen_fixes():
    import subprocess
    out = subprocess.run(['git', '-C', '/repo', 'log', '--reverse', '--format=%h\t%s', '9bc97df..HEAD'],
                         capture_output=True, text=True).stdout.strip().split('\n')
    rows = ['| # | commit | what was wrong |', '|---|---|---|']
    for n, l in enumerate(out, 1):
        h, subj = l.split('\t', 1)
        rows.append('| %d | `%s` | %s |' % (n, h, subj.replace('fix: ', '', 1).replace('|', '\\|')))
    return '\n'.join(rows)


def all_known():
    import json, glob
    res = []
    for f in [os.path.join(VERIF, 'known_findings.json')] + sorted(glob.glob(os.path.join(VERIF, 'known_findings.d', '*.json'))):
        if os.path.exists(f):
            res += json.load(open(f)).get('findings', [])
    seen, out = set(), []
    for k in res:
        if k['id'] not in seen:
            seen.add(k['id']); out.append(k)
    return out


def gen_open():
    rows = ['| id | property | what fails |', '|---|---|---|']
    for k in sorted(all_known(), key=lambda k: (k['property'], k['id'])):
        if k['status'] == 'open':
            rows.append('| %s | %s | %s |' % (k['id'], k['property'], k['what'].replace('|', '\\|').replace('\n', ' ')[:600]))
    return '\n'.join(rows)


def gen_seeded():
    import json
    root = os.path.join(VERIF, 'seeded')
    res = json.load(open(os.path.join(root, 'RESULTS.json'))) if os.path.exists(os.path.join(root, 'RESULTS.json')) else {}
    rows = ['| id | files | what it changes / what it needs | verdicts (check: verdict) |', '|---|---|---|---|']
    for sid in sorted(d for d in os.listdir(root) if os.path.isdir(os.path.join(root, d))):
        m = json.load(open(os.path.join(root, sid, 'meta.json')))
        v = res.get(sid, {}).get('checks', {})
        vs = ', '.join('%s: %s' % (p, x['verdict']) for p, x in v.items()) or ('obsolete: ' + m['obsolete'][:160] if m.get('obsolete') else res.get(sid, {}).get('error', 'not run yet'))
        rows.append('| %s | %s | %s **Needs:** %s | %s |' % (sid, ', '.join(os.path.basename(f) for f in m.get('files', [])),
                    m.get('summary', '').replace('|', '\\|').replace('\n', ' ')[:420], m.get('needs', '').replace('|', '\\|').replace('\n', ' ')[:300], vs))
    return '\n'.join(rows)


def main():
    p = os.path.join(VERIF, 'DESIGN.md')
    s = open(p).read()
    s = fill(s, 'fixes', gen_fixes())
    s = fill(s, 'open', gen_open())
    s = fill(s, 'seeded', gen_seeded())
    heads = list(re.finditer(r'^### (C\d\d) — .*$', s, re.M))
    # process from the end so offsets stay valid
    for i in range(len(heads) - 1, -1, -1):
        pid = heads[i].group(1)
        start = heads[i].end()
        end = heads[i + 1].start() if i + 1 < len(heads) else s.index('\n---', start)
        body = s[start:end]
        rep = os.path.join(VERIF, 'DESIGN.d', pid + '.md')
        if not os.path.exists(rep):
            continue
        block = ('<!-- AS-BUILT %s -->\n\n#### %s — as built (report of the check as it stands; supersedes the plan above '
                 'where they differ)\n\n%s\n\n<!-- /AS-BUILT %s -->\n' % (pid, pid, demote(open(rep).read().strip()), pid))
        m = re.search(r'<!-- AS-BUILT %s -->.*?<!-- /AS-BUILT %s -->\n' % (pid, pid), body, re.S)
        if m:
            body = body[:m.start()] + block + body[m.end():]
        else:
            body = body.rstrip('\n') + '\n\n' + block + '\n'
        s = s[:start] + body + s[end:]
    open(p, 'w').write(s)

if __name__ == '__main__':
    main()
